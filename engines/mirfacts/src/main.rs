// mirfacts: a rustc driver that dumps a structured, resolved view of every function body
// (optimized MIR at mir-opt-level 0) and every ADT of the crate being compiled, as JSON lines.
//
// It is injected with RUSTC_WORKSPACE_WRAPPER, so it only sees workspace members; cargo passes
// the real rustc path as argv[1], which is dropped.  Output: $MIRFACTS_OUT/<crate>-<pid>.jsonl,
// written once per process (parallel rustc processes never share a file).
//
// Nothing here decides a property: rules live in /verif/rules/*.py and read these facts.
#![feature(rustc_private)]

extern crate rustc_abi;
extern crate rustc_ast;
extern crate rustc_driver;
extern crate rustc_hir;
extern crate rustc_interface;
extern crate rustc_middle;
extern crate rustc_span;

use rustc_driver::{Callbacks, Compilation};
use rustc_hir::def::DefKind;
use rustc_hir::def_id::DefId;
use rustc_middle::mir::{
    AggregateKind, BinOp, Body, BorrowKind, Const, Operand, Place, PlaceElem, Rvalue, StatementKind,
    TerminatorKind, UnwindAction,
};
use rustc_middle::ty::print::{with_no_trimmed_paths, with_no_visible_paths, with_resolve_crate_name, PrintTraitRefExt};

macro_rules! pp {
    ($e:expr) => {
        with_no_visible_paths!(with_resolve_crate_name!(with_no_trimmed_paths!($e)))
    };
}
use rustc_middle::ty::{self, Instance, Ty, TyCtxt, TypingEnv};
use rustc_span::Span;
use std::fmt::Write as _;

#[derive(Default)]
struct Cb {
    ast_attrs: String,
}

fn ast_attr_snips(tcx: TyCtxt<'_>, attrs: &[rustc_ast::ast::Attribute]) -> String {
    let sm = tcx.sess.source_map();
    let mut s = String::from("[");
    let mut first = true;
    for a in attrs {
        if a.is_doc_comment() {
            continue;
        }
        if let Ok(sn) = sm.span_to_snippet(a.span) {
            if !first {
                s.push(',');
            }
            first = false;
            s.push_str(&esc(&sn));
        }
    }
    s.push(']');
    s
}

fn ast_fields(tcx: TyCtxt<'_>, vd: &rustc_ast::ast::VariantData) -> String {
    let mut s = String::from("{");
    let mut first = true;
    for (i, f) in vd.fields().iter().enumerate() {
        if !first {
            s.push(',');
        }
        first = false;
        let name = f.ident.map(|i| i.to_string()).unwrap_or_else(|| i.to_string());
        let _ = write!(s, "{}:{}", esc(&name), ast_attr_snips(tcx, &f.attrs));
    }
    s.push('}');
    s
}

fn ast_walk(tcx: TyCtxt<'_>, path: &str, items: &[Box<rustc_ast::ast::Item>], out: &mut String) {
    use rustc_ast::ast::{ItemKind, ModKind};
    for it in items {
        match &it.kind {
            ItemKind::Mod(_, ident, ModKind::Loaded(sub, ..)) => {
                ast_walk(tcx, &format!("{}::{}", path, ident), sub, out);
            }
            ItemKind::Enum(ident, _, def) => {
                let _ = write!(out, "{{\"k\":\"astattrs\",\"id\":{},\"attrs\":{},\"variants\":{{", esc(&format!("{}::{}", path, ident)), ast_attr_snips(tcx, &it.attrs));
                for (i, v) in def.variants.iter().enumerate() {
                    if i > 0 {
                        out.push(',');
                    }
                    let _ = write!(out, "{}:{{\"attrs\":{},\"fields\":{}}}", esc(&v.ident.to_string()), ast_attr_snips(tcx, &v.attrs), ast_fields(tcx, &v.data));
                }
                out.push_str("}}\n");
            }
            ItemKind::Struct(ident, _, vd) | ItemKind::Union(ident, _, vd) => {
                let _ = write!(out, "{{\"k\":\"astattrs\",\"id\":{},\"attrs\":{},\"variants\":{{{}:{{\"attrs\":[],\"fields\":{}}}}}}}\n",
                    esc(&format!("{}::{}", path, ident)), ast_attr_snips(tcx, &it.attrs), esc(&ident.to_string()), ast_fields(tcx, vd));
            }
            _ => {}
        }
    }
}

fn esc(s: &str) -> String {
    let mut o = String::with_capacity(s.len() + 2);
    o.push('"');
    for c in s.chars() {
        match c {
            '"' => o.push_str("\\\""),
            '\\' => o.push_str("\\\\"),
            '\n' => o.push_str("\\n"),
            '\r' => o.push_str("\\r"),
            '\t' => o.push_str("\\t"),
            c if (c as u32) < 0x20 => {
                let _ = write!(o, "\\u{:04x}", c as u32);
            }
            c => o.push(c),
        }
    }
    o.push('"');
    o
}

fn dp(tcx: TyCtxt<'_>, did: DefId) -> String {
    pp!((tcx.def_path_str(did)))
}

fn tys<'tcx>(t: Ty<'tcx>) -> String {
    pp!((format!("{}", t)))
}

struct Cx<'tcx, 'a> {
    tcx: TyCtxt<'tcx>,
    body: &'a Body<'tcx>,
    def: DefId,
    fn_file: String,
}

impl<'tcx, 'a> Cx<'tcx, 'a> {
    fn loc(&self, sp: Span) -> String {
        let sm = self.tcx.sess.source_map();
        let exp = sp.from_expansion();
        let outer = if exp { sp.source_callsite() } else { sp };
        let lo = sm.lookup_char_pos(outer.lo());
        let file = format!("{}", lo.file.name.prefer_local_unconditionally());
        if !exp {
            if file == self.fn_file {
                format!("[{},{},0]", lo.line, lo.col.0 + 1)
            } else {
                format!("[{},{},0,{}]", lo.line, lo.col.0 + 1, esc(&file))
            }
        } else {
            // names of the innermost and outermost macro of the expansion chain
            let inner = macro_name(sp.ctxt().outer_expn_data().kind);
            let mut cur = sp;
            let mut outer_name = inner.clone();
            let mut guard = 0;
            while cur.from_expansion() && guard < 64 {
                let ed = cur.ctxt().outer_expn_data();
                outer_name = macro_name(ed.kind);
                cur = ed.call_site;
                guard += 1;
            }
            format!(
                "[{},{},1,{},{},{}]",
                lo.line,
                lo.col.0 + 1,
                if file == self.fn_file { "null".to_string() } else { esc(&file) },
                esc(&outer_name),
                esc(&inner)
            )
        }
    }

    fn place(&self, p: &Place<'tcx>) -> String {
        let mut out = format!("[{},[", p.local.as_usize());
        let mut pty = rustc_middle::mir::PlaceTy::from_ty(self.body.local_decls[p.local].ty);
        let mut first = true;
        for elem in p.projection.iter() {
            if !first {
                out.push(',');
            }
            first = false;
            match elem {
                PlaceElem::Deref => out.push_str("\"*\""),
                PlaceElem::Field(f, fty) => {
                    let (owner, fname, vname) = match pty.ty.kind() {
                        ty::Adt(adt, _) => {
                            let vi = pty.variant_index.unwrap_or(rustc_abi::FIRST_VARIANT);
                            let v = adt.variant(vi);
                            let name = v
                                .fields
                                .get(f)
                                .map(|fd| fd.name.to_string())
                                .unwrap_or_else(|| f.as_usize().to_string());
                            (dp(self.tcx, adt.did()), name, Some(v.name.to_string()))
                        }
                        ty::Tuple(_) => ("(tuple)".to_string(), f.as_usize().to_string(), None),
                        ty::Closure(..) => ("(closure)".to_string(), f.as_usize().to_string(), None),
                        _ => ("(other)".to_string(), f.as_usize().to_string(), None),
                    };
                    let _ = write!(
                        out,
                        "[\"f\",{},{},{},{},{}]",
                        f.as_usize(),
                        esc(&fname),
                        esc(&owner),
                        match vname {
                            Some(v) => esc(&v),
                            None => "null".to_string(),
                        },
                        esc(&tys(fty))
                    );
                }
                PlaceElem::Index(l) => {
                    let _ = write!(out, "[\"i\",{}]", l.as_usize());
                }
                PlaceElem::ConstantIndex { offset, from_end, .. } => {
                    let _ = write!(out, "[\"ci\",{},{}]", offset, from_end);
                }
                PlaceElem::Subslice { from, to, from_end } => {
                    let _ = write!(out, "[\"ss\",{},{},{}]", from, to, from_end);
                }
                PlaceElem::Downcast(name, vi) => {
                    let n = match name {
                        Some(s) => s.to_string(),
                        None => vi.as_usize().to_string(),
                    };
                    let _ = write!(out, "[\"d\",{},{}]", esc(&n), vi.as_usize());
                }
                PlaceElem::OpaqueCast(_) => out.push_str("\"opaque\""),
                PlaceElem::UnwrapUnsafeBinder(_) => out.push_str("\"unbind\""),
            }
            pty = pty.projection_ty(self.tcx, elem);
        }
        out.push_str("]]");
        out
    }

    fn place_ty(&self, p: &Place<'tcx>) -> Ty<'tcx> {
        p.ty(&self.body.local_decls, self.tcx).ty
    }

    fn resolve(&self, did: DefId, args: ty::GenericArgsRef<'tcx>) -> (DefId, Option<String>) {
        let env = TypingEnv::post_analysis(self.tcx, self.def);
        match Instance::try_resolve(self.tcx, env, did, args) {
            Ok(Some(inst)) => {
                let rd = inst.def_id();
                let kind = match inst.def {
                    ty::InstanceKind::Item(_) => None,
                    ty::InstanceKind::Virtual(..) => Some("virtual".to_string()),
                    ty::InstanceKind::Intrinsic(_) => Some("intrinsic".to_string()),
                    _ => Some("shim".to_string()),
                };
                (rd, kind)
            }
            _ => (did, Some("unresolved".to_string())),
        }
    }

    fn constant(&self, c: &Const<'tcx>) -> String {
        let ty = c.ty();
        let text = pp!((format!("{}", c)));
        let mut extra = String::new();
        if let ty::FnDef(did, args) = ty.kind() {
            let (rd, kind) = self.resolve(*did, args);
            let _ = write!(
                extra,
                ",{{\"fn\":{},\"rfn\":{},\"rk\":{},\"ga\":{}}}",
                esc(&dp(self.tcx, *did)),
                esc(&dp(self.tcx, rd)),
                match kind {
                    Some(k) => esc(&k),
                    None => "null".to_string(),
                },
                esc(&pp!((format!("{:?}", args))))
            );
        } else if let Some(si) = c.try_eval_scalar_int(self.tcx, TypingEnv::post_analysis(self.tcx, self.def)) {
            // integer-like constants: give the raw bits so rules can compute with them
            if ty.is_integral() || ty.is_bool() || ty.is_char() {
                let size = si.size();
                let bits = si.to_bits(size);
                let signed = ty.is_signed();
                let val: String = if signed {
                    let sh = 128 - size.bits();
                    (((bits as i128) << sh) >> sh).to_string()
                } else {
                    bits.to_string()
                };
                let _ = write!(extra, ",{{\"int\":{}}}", esc(&val));
            }
        }
        // pointer constants to statics (e.g. `encoding_rs::UTF_8`): name the static
        if extra.is_empty() {
            if let Const::Val(rustc_middle::mir::ConstValue::Scalar(rustc_middle::mir::interpret::Scalar::Ptr(ptr, _)), _) = c {
                let aid = ptr.provenance.alloc_id();
                if let Some(ga) = self.tcx.try_get_global_alloc(aid) {
                    match ga {
                        rustc_middle::mir::interpret::GlobalAlloc::Static(did) => {
                            let _ = write!(extra, ",{{\"static\":{}}}", esc(&dp(self.tcx, did)));
                        }
                        rustc_middle::mir::interpret::GlobalAlloc::Function { instance, .. } => {
                            let _ = write!(extra, ",{{\"fnptr\":{}}}", esc(&dp(self.tcx, instance.def_id())));
                        }
                        _ => {}
                    }
                }
            }
        }
        // string constants: evaluate (also associated consts like `<T as Request>::METHOD`) and give the text
        if extra.is_empty() {
            if let ty::Ref(_, inner, _) = ty.kind() {
                if inner.is_str() && !matches!(c, Const::Unevaluated(uv, _) if { use rustc_middle::ty::TypeVisitableExt; uv.args.has_non_region_param() }) {
                    if let Ok(v) = c.eval(self.tcx, TypingEnv::post_analysis(self.tcx, self.def), rustc_span::DUMMY_SP) {
                        match v {
                            rustc_middle::mir::ConstValue::Slice { .. } | rustc_middle::mir::ConstValue::Indirect { .. } => {
                                if let Some(bytes) = v.try_get_slice_bytes_for_diagnostics(self.tcx) {
                                    if let Ok(st) = std::str::from_utf8(bytes) {
                                        let _ = write!(extra, ",{{\"str\":{}}}", esc(st));
                                    }
                                }
                            }
                            _ => {}
                        }
                    }
                }
            }
        }
        format!("[\"c\",{},{}{}]", esc(&tys(ty)), esc(&text), extra)
    }

    fn operand(&self, o: &Operand<'tcx>) -> String {
        match o {
            Operand::Copy(p) => format!("[\"cp\",{}]", self.place(p)),
            Operand::Move(p) => format!("[\"mv\",{}]", self.place(p)),
            Operand::Constant(c) => self.constant(&c.const_),
            #[allow(unreachable_patterns)]
            _ => "[\"c\",\"?\",\"runtime-checks\"]".to_string(),
        }
    }

    fn rvalue(&self, r: &Rvalue<'tcx>) -> String {
        match r {
            Rvalue::Use(o, ..) => format!("[\"use\",{}]", self.operand(o)),
            Rvalue::Repeat(o, n) => format!("[\"rep\",{},{}]", self.operand(o), esc(&format!("{}", n))),
            Rvalue::Ref(_, bk, p) => {
                let k = match bk {
                    BorrowKind::Shared => "shared",
                    BorrowKind::Fake(_) => "fake",
                    BorrowKind::Mut { .. } => "mut",
                };
                format!("[\"ref\",\"{}\",{}]", k, self.place(p))
            }
            Rvalue::ThreadLocalRef(d) => format!("[\"tls\",{}]", esc(&dp(self.tcx, *d))),
            Rvalue::RawPtr(k, p) => format!("[\"ptr\",{},{}]", esc(&format!("{:?}", k)), self.place(p)),
            Rvalue::Cast(k, o, t) => {
                let src = o.ty(&self.body.local_decls, self.tcx);
                format!(
                    "[\"cast\",{},{},{},{}]",
                    esc(&format!("{:?}", k)),
                    self.operand(o),
                    esc(&tys(src)),
                    esc(&tys(*t))
                )
            }
            Rvalue::BinaryOp(op, ab) => {
                let (a, b) = &**ab;
                format!("[\"bin\",{},{},{}]", esc(&binop(*op)), self.operand(a), self.operand(b))
            }
            Rvalue::UnaryOp(op, a) => format!("[\"un\",{},{}]", esc(&format!("{:?}", op)), self.operand(a)),
            Rvalue::Discriminant(p) => {
                let t = self.place_ty(p);
                let mut vs = String::from("[");
                let mut adt_name = "null".to_string();
                if let ty::Adt(adt, _) = t.kind() {
                    adt_name = esc(&dp(self.tcx, adt.did()));
                    if adt.is_enum() {
                        let mut first = true;
                        for (vi, d) in adt.discriminants(self.tcx) {
                            if !first {
                                vs.push(',');
                            }
                            first = false;
                            let _ = write!(vs, "[{},{}]", esc(&d.val.to_string()), esc(&adt.variant(vi).name.to_string()));
                        }
                    }
                }
                vs.push(']');
                format!("[\"disc\",{},{},{}]", self.place(p), adt_name, vs)
            }
            Rvalue::Aggregate(k, ops) => {
                let kind = match &**k {
                    AggregateKind::Array(t) => format!("{{\"k\":\"array\",\"ty\":{}}}", esc(&tys(*t))),
                    AggregateKind::Tuple => "{\"k\":\"tuple\"}".to_string(),
                    AggregateKind::Adt(did, vi, args, _, active) => {
                        let adt = self.tcx.adt_def(*did);
                        let v = adt.variant(*vi);
                        let mut fields = String::from("[");
                        if let Some(a) = active {
                            let _ = write!(fields, "{}", esc(&v.fields[*a].name.to_string()));
                        } else {
                            for (i, f) in v.fields.iter().enumerate() {
                                if i > 0 {
                                    fields.push(',');
                                }
                                fields.push_str(&esc(&f.name.to_string()));
                            }
                        }
                        fields.push(']');
                        format!(
                            "{{\"k\":\"adt\",\"adt\":{},\"variant\":{},\"fields\":{},\"ga\":{}}}",
                            esc(&dp(self.tcx, *did)),
                            esc(&v.name.to_string()),
                            fields,
                            esc(&pp!((format!("{:?}", args))))
                        )
                    }
                    AggregateKind::Closure(did, _) => {
                        format!("{{\"k\":\"closure\",\"def\":{}}}", esc(&dp(self.tcx, *did)))
                    }
                    AggregateKind::Coroutine(did, _) | AggregateKind::CoroutineClosure(did, _) => {
                        format!("{{\"k\":\"coroutine\",\"def\":{}}}", esc(&dp(self.tcx, *did)))
                    }
                    AggregateKind::RawPtr(..) => "{\"k\":\"rawptr\"}".to_string(),
                };
                let mut o = String::from("[");
                for (i, op) in ops.iter().enumerate() {
                    if i > 0 {
                        o.push(',');
                    }
                    o.push_str(&self.operand(op));
                }
                o.push(']');
                format!("[\"agg\",{},{}]", kind, o)
            }
            Rvalue::CopyForDeref(p) => format!("[\"use\",[\"cp\",{}]]", self.place(p)),
            other => format!("[\"other\",{}]", esc(&format!("{:?}", other))),
        }
    }

    fn unwind(&self, u: &UnwindAction) -> String {
        match u {
            UnwindAction::Continue => "\"cont\"".to_string(),
            UnwindAction::Unreachable => "\"unreach\"".to_string(),
            UnwindAction::Terminate(_) => "\"term\"".to_string(),
            UnwindAction::Cleanup(bb) => format!("{}", bb.as_usize()),
        }
    }
}

fn macro_name(k: rustc_span::hygiene::ExpnKind) -> String {
    match k {
        rustc_span::hygiene::ExpnKind::Macro(mk, name) => format!("{:?}:{}", mk, name),
        other => format!("{:?}", other),
    }
}

fn binop(op: BinOp) -> String {
    format!("{:?}", op)
}

fn dump_fn<'tcx>(tcx: TyCtxt<'tcx>, ldid: rustc_hir::def_id::LocalDefId, out: &mut String) {
    let def = ldid.to_def_id();
    let dk = tcx.def_kind(def);
    let body = tcx.optimized_mir(def);
    let sm = tcx.sess.source_map();
    let sp = body.span;
    let osp = if sp.from_expansion() { sp.source_callsite() } else { sp };
    let lo = sm.lookup_char_pos(osp.lo());
    let hi = sm.lookup_char_pos(osp.hi());
    let fn_file = format!("{}", lo.file.name.prefer_local_unconditionally());
    let cx = Cx { tcx, body, def, fn_file: fn_file.clone() };

    let parent = match dk {
        DefKind::Closure => Some(dp(tcx, tcx.typeck_root_def_id(def))),
        _ => None,
    };
    // impl info
    let mut impl_s = "null".to_string();
    if let DefKind::AssocFn = dk {
        let p = tcx.parent(def);
        match tcx.def_kind(p) {
            DefKind::Impl { of_trait } => {
                let self_ty = tcx.type_of(p).instantiate_identity().skip_norm_wip();
                let tr = if of_trait {
                    let tr = tcx.impl_trait_ref(p).instantiate_identity().skip_norm_wip();
                    esc(&format!(
                        "{}",
                        pp!((tr.print_only_trait_path().to_string()))
                    ))
                } else {
                    "null".to_string()
                };
                let trd = if of_trait {
                    let tr = tcx.impl_trait_ref(p).instantiate_identity().skip_norm_wip();
                    esc(&dp(tcx, tr.def_id))
                } else {
                    "null".to_string()
                };
                impl_s = format!("{{\"self\":{},\"trait\":{},\"trait_def\":{}}}", esc(&tys(self_ty)), tr, trd);
            }
            DefKind::Trait => {
                impl_s = format!("{{\"self\":null,\"trait\":{},\"trait_def\":{},\"default\":true}}", esc(&dp(tcx, p)), esc(&dp(tcx, p)));
            }
            _ => {}
        }
    }
    let name = tcx.opt_item_name(def).map(|s| s.to_string()).unwrap_or_default();
    let vis = match dk {
        DefKind::Fn | DefKind::AssocFn => format!("{:?}", tcx.visibility(def)),
        _ => String::new(),
    };
    let _ = write!(
        out,
        "{{\"k\":\"fn\",\"id\":{},\"crate\":{},\"dk\":{},\"name\":{},\"parent\":{},\"impl\":{},\"vis\":{},\"file\":{},\"line\":{},\"endline\":{},\"exp\":{},\"argc\":{},",
        esc(&dp(tcx, def)),
        esc(&tcx.crate_name(rustc_hir::def_id::LOCAL_CRATE).to_string()),
        esc(&format!("{:?}", dk)),
        esc(&name),
        match parent {
            Some(p) => esc(&p),
            None => "null".to_string(),
        },
        impl_s,
        esc(&vis),
        esc(&fn_file),
        lo.line,
        hi.line,
        sp.from_expansion(),
        body.arg_count
    );
    // locals
    out.push_str("\"locals\":[");
    let mut names: Vec<Option<String>> = vec![None; body.local_decls.len()];
    for vdi in body.var_debug_info.iter() {
        if let rustc_middle::mir::VarDebugInfoContents::Place(p) = &vdi.value {
            if p.projection.is_empty() {
                names[p.local.as_usize()] = Some(vdi.name.to_string());
            }
        }
    }
    for (i, ld) in body.local_decls.iter().enumerate() {
        if i > 0 {
            out.push(',');
        }
        let _ = write!(
            out,
            "[{},{}]",
            esc(&tys(ld.ty)),
            match &names[i] {
                Some(n) => esc(n),
                None => "null".to_string(),
            }
        );
    }
    out.push_str("],");
    // closure upvar debug names (captured variables)
    out.push_str("\"upvars\":[");
    let mut firstu = true;
    for vdi in body.var_debug_info.iter() {
        if let rustc_middle::mir::VarDebugInfoContents::Place(p) = &vdi.value {
            if !p.projection.is_empty() {
                if !firstu {
                    out.push(',');
                }
                firstu = false;
                let _ = write!(out, "[{},{}]", esc(&vdi.name.to_string()), cx.place(p));
            }
        }
    }
    out.push_str("],\"promoted\":[");
    // promoted constants (`&"shutdown"` etc.): list the constant operands of each promoted body
    if !matches!(dk, DefKind::Closure) || true {
        let proms = tcx.promoted_mir(def);
        for (pi, pb) in proms.iter_enumerated() {
            if pi.as_usize() > 0 {
                out.push(',');
            }
            out.push('[');
            let pcx = Cx { tcx, body: pb, def, fn_file: fn_file.clone() };
            let mut firstc = true;
            for pbb in pb.basic_blocks.iter() {
                for st in pbb.statements.iter() {
                    if let StatementKind::Assign(b) = &st.kind {
                        let (_, r) = &**b;
                        let mut ops: Vec<&Operand<'tcx>> = vec![];
                        match r {
                            Rvalue::Use(o, ..) | Rvalue::Cast(_, o, _) | Rvalue::Repeat(o, _) | Rvalue::UnaryOp(_, o) => ops.push(o),
                            Rvalue::BinaryOp(_, ab) => {
                                ops.push(&ab.0);
                                ops.push(&ab.1);
                            }
                            Rvalue::Aggregate(k, os) => {
                                for o in os.iter() {
                                    ops.push(o);
                                }
                                // field-less enum variants (`&TokenType::EndIf`): record the variant as a pseudo constant
                                if let AggregateKind::Adt(did, vi, _, _, _) = &**k {
                                    if os.is_empty() {
                                        let adt = tcx.adt_def(*did);
                                        if !firstc {
                                            out.push(',');
                                        }
                                        firstc = false;
                                        let _ = write!(
                                            out,
                                            "[\"c\",{},{},{{\"variant\":{}}}]",
                                            esc(&dp(tcx, *did)),
                                            esc(&adt.variant(*vi).name.to_string()),
                                            esc(&adt.variant(*vi).name.to_string())
                                        );
                                    }
                                }
                            }
                            _ => {}
                        }
                        for o in ops {
                            if let Operand::Constant(_) = o {
                                if !firstc {
                                    out.push(',');
                                }
                                firstc = false;
                                out.push_str(&pcx.operand(o));
                            }
                        }
                    }
                }
            }
            out.push(']');
        }
    }
    out.push_str("],\"bbs\":[");
    for (bi, bb) in body.basic_blocks.iter_enumerated() {
        if bi.as_usize() > 0 {
            out.push(',');
        }
        out.push_str("{\"s\":[");
        let mut first = true;
        for st in bb.statements.iter() {
            let s = match &st.kind {
                StatementKind::Assign(b) => {
                    let (p, r) = &**b;
                    Some(format!("[\"=\",{},{},{}]", cx.place(p), cx.rvalue(r), cx.loc(st.source_info.span)))
                }
                StatementKind::SetDiscriminant { place, variant_index } => Some(format!(
                    "[\"sd\",{},{},{}]",
                    cx.place(place),
                    variant_index.as_usize(),
                    cx.loc(st.source_info.span)
                )),
                _ => None,
            };
            if let Some(s) = s {
                if !first {
                    out.push(',');
                }
                first = false;
                out.push_str(&s);
            }
        }
        out.push_str("],\"t\":");
        let term = bb.terminator();
        let tl = cx.loc(term.source_info.span);
        let t = match &term.kind {
            TerminatorKind::Goto { target } => format!("[\"goto\",{}]", target.as_usize()),
            TerminatorKind::SwitchInt { discr, targets } => {
                let mut ts = String::from("[");
                for (i, (v, t)) in targets.iter().enumerate() {
                    if i > 0 {
                        ts.push(',');
                    }
                    let _ = write!(ts, "[{},{}]", esc(&v.to_string()), t.as_usize());
                }
                ts.push(']');
                format!("[\"switch\",{},{},{},{}]", cx.operand(discr), ts, targets.otherwise().as_usize(), tl)
            }
            TerminatorKind::UnwindResume => "[\"resume\"]".to_string(),
            TerminatorKind::UnwindTerminate(_) => "[\"abort\"]".to_string(),
            TerminatorKind::Return => "[\"ret\"]".to_string(),
            TerminatorKind::Unreachable => "[\"unreach\"]".to_string(),
            TerminatorKind::Drop { place, target, unwind, .. } => {
                format!(
                    "[\"drop\",{},{},{},{}]",
                    cx.place(place),
                    target.as_usize(),
                    cx.unwind(unwind),
                    esc(&tys(cx.place_ty(place)))
                )
            }
            TerminatorKind::Call { func, args, destination, target, unwind, .. } => {
                let fty = func.ty(&body.local_decls, tcx);
                let callee = match fty.kind() {
                    ty::FnDef(did, ga) => {
                        let (rd, kind) = cx.resolve(*did, ga);
                        let self_ty = if ga.len() > 0 {
                            match ga[0].kind() {
                                ty::GenericArgKind::Type(t) => esc(&tys(t)),
                                _ => "null".to_string(),
                            }
                        } else {
                            "null".to_string()
                        };
                        format!(
                            "{{\"d\":{},\"u\":{},\"rk\":{},\"ga\":{},\"st\":{}}}",
                            esc(&dp(tcx, rd)),
                            esc(&dp(tcx, *did)),
                            match kind {
                                Some(k) => esc(&k),
                                None => "null".to_string(),
                            },
                            esc(&pp!((format!("{:?}", ga)))),
                            self_ty
                        )
                    }
                    _ => format!("{{\"d\":null,\"indirect\":{},\"ty\":{}}}", cx.operand(func), esc(&tys(fty))),
                };
                let mut a = String::from("[");
                for (i, arg) in args.iter().enumerate() {
                    if i > 0 {
                        a.push(',');
                    }
                    a.push_str(&cx.operand(&arg.node));
                }
                a.push(']');
                format!(
                    "[\"call\",{},{},{},{},{},{}]",
                    callee,
                    a,
                    cx.place(destination),
                    match target {
                        Some(t) => t.as_usize().to_string(),
                        None => "null".to_string(),
                    },
                    cx.unwind(unwind),
                    tl
                )
            }
            TerminatorKind::Assert { cond, expected, msg, target, unwind } => {
                use rustc_middle::mir::AssertKind::*;
                let (kind, ops): (String, Vec<&Operand<'tcx>>) = match &**msg {
                    BoundsCheck { len, index } => ("BoundsCheck".to_string(), vec![len, index]),
                    Overflow(op, a, b) => (format!("Overflow:{:?}", op), vec![a, b]),
                    OverflowNeg(a) => ("OverflowNeg".to_string(), vec![a]),
                    DivisionByZero(a) => ("DivisionByZero".to_string(), vec![a]),
                    RemainderByZero(a) => ("RemainderByZero".to_string(), vec![a]),
                    MisalignedPointerDereference { .. } => ("MisalignedPointerDereference".to_string(), vec![]),
                    NullPointerDereference => ("NullPointerDereference".to_string(), vec![]),
                    other => (format!("{:?}", other).chars().take(40).collect(), vec![]),
                };
                let mut o = String::from("[");
                for (i, op) in ops.iter().enumerate() {
                    if i > 0 {
                        o.push(',');
                    }
                    o.push_str(&cx.operand(op));
                }
                o.push(']');
                format!(
                    "[\"assert\",{},{},{},{},{},{},{}]",
                    cx.operand(cond),
                    expected,
                    esc(&kind),
                    o,
                    target.as_usize(),
                    cx.unwind(unwind),
                    tl
                )
            }
            TerminatorKind::FalseEdge { real_target, .. } => format!("[\"goto\",{}]", real_target.as_usize()),
            TerminatorKind::FalseUnwind { real_target, .. } => format!("[\"goto\",{}]", real_target.as_usize()),
            other => format!("[\"otherterm\",{}]", esc(&format!("{:?}", other).chars().take(80).collect::<String>())),
        };
        out.push_str(&t);
        let _ = write!(out, ",\"cu\":{}}}", bb.is_cleanup);
    }
    out.push_str("]}\n");
}

fn attr_snippets(tcx: TyCtxt<'_>, did: DefId) -> String {
    let mut s = String::from("[");
    if let Some(l) = did.as_local() {
        let hid = tcx.local_def_id_to_hir_id(l);
        let sm = tcx.sess.source_map();
        let mut first = true;
        for a in tcx.hir_attrs(hid) {
            let sp = a.span();
            if let Ok(sn) = sm.span_to_snippet(sp) {
                if !first {
                    s.push(',');
                }
                first = false;
                s.push_str(&esc(&sn));
            }
        }
    }
    s.push(']');
    s
}

fn dump_adt(tcx: TyCtxt<'_>, did: DefId, out: &mut String) {
    let adt = tcx.adt_def(did);
    let sm = tcx.sess.source_map();
    let sp = tcx.def_span(did);
    let lo = sm.lookup_char_pos(sp.lo());
    let _ = write!(
        out,
        "{{\"k\":\"adt\",\"id\":{},\"crate\":{},\"kind\":{},\"file\":{},\"line\":{},\"attrs\":{},\"variants\":[",
        esc(&dp(tcx, did)),
        esc(&tcx.crate_name(rustc_hir::def_id::LOCAL_CRATE).to_string()),
        esc(if adt.is_enum() {
            "enum"
        } else if adt.is_union() {
            "union"
        } else {
            "struct"
        }),
        esc(&format!("{}", lo.file.name.prefer_local_unconditionally())),
        lo.line,
        attr_snippets(tcx, did)
    );
    for (vi, v) in adt.variants().iter_enumerated() {
        if vi.as_usize() > 0 {
            out.push(',');
        }
        let vattrs = if adt.is_enum() { attr_snippets(tcx, v.def_id) } else { "[]".to_string() };
        let vline = {
            let vsp = tcx.def_span(v.def_id);
            sm.lookup_char_pos(vsp.lo()).line
        };
        let _ = write!(out, "{{\"name\":{},\"line\":{},\"attrs\":{},\"fields\":[", esc(&v.name.to_string()), vline, vattrs);
        for (fi, f) in v.fields.iter().enumerate() {
            if fi > 0 {
                out.push(',');
            }
            let fty = tcx.type_of(f.did).instantiate_identity().skip_norm_wip();
            let _ = write!(
                out,
                "{{\"name\":{},\"ty\":{},\"attrs\":{},\"vis\":{}}}",
                esc(&f.name.to_string()),
                esc(&tys(fty)),
                attr_snippets(tcx, f.did),
                esc(&format!("{:?}", f.vis))
            );
        }
        out.push_str("]}");
    }
    out.push_str("]}\n");
}

impl Callbacks for Cb {
    fn after_expansion<'tcx>(&mut self, _c: &rustc_interface::interface::Compiler, tcx: TyCtxt<'tcx>) -> Compilation {
        if std::env::var("MIRFACTS_OUT").is_ok() {
            let guard = tcx.resolver_for_lowering().borrow();
            let krate = &guard.1;
            let name = tcx.crate_name(rustc_hir::def_id::LOCAL_CRATE).to_string();
            let mut out = String::new();
            ast_walk(tcx, &name, &krate.items, &mut out);
            self.ast_attrs = out;
        }
        Compilation::Continue
    }

    fn after_analysis<'tcx>(&mut self, _c: &rustc_interface::interface::Compiler, tcx: TyCtxt<'tcx>) -> Compilation {
        let outdir = match std::env::var("MIRFACTS_OUT") {
            Ok(d) => d,
            Err(_) => return Compilation::Continue,
        };
        let krate = tcx.crate_name(rustc_hir::def_id::LOCAL_CRATE).to_string();
        let mut out = String::new();
        let nonce = std::env::var("MIRFACTS_NONCE").unwrap_or_default();
        let _ = write!(
            out,
            "{{\"k\":\"crate\",\"crate\":{},\"nonce\":{},\"cfg_test\":{}}}\n",
            esc(&krate),
            esc(&nonce),
            tcx.sess.is_test_crate()
        );
        out.push_str(&self.ast_attrs);
        // ADTs
        let items = tcx.hir_crate_items(());
        for id in items.free_items() {
            let did = id.owner_id.to_def_id();
            match tcx.def_kind(did) {
                DefKind::Struct | DefKind::Enum | DefKind::Union => dump_adt(tcx, did, &mut out),
                DefKind::Const { .. } | DefKind::Static { .. } => {
                    let sp = tcx.def_span(did);
                    let sm = tcx.sess.source_map();
                    let lo = sm.lookup_char_pos(sp.lo());
                    let ty = tcx.type_of(did).instantiate_identity().skip_norm_wip();
                    let snippet = sm.span_to_snippet(tcx.hir_span_with_body(tcx.local_def_id_to_hir_id(id.owner_id.def_id))).unwrap_or_default();
                    let _ = write!(
                        out,
                        "{{\"k\":\"const\",\"id\":{},\"crate\":{},\"ty\":{},\"file\":{},\"line\":{},\"src\":{}}}\n",
                        esc(&dp(tcx, did)),
                        esc(&krate),
                        esc(&tys(ty)),
                        esc(&format!("{}", lo.file.name.prefer_local_unconditionally())),
                        lo.line,
                        esc(&snippet)
                    );
                }
                _ => {}
            }
        }
        for ldid in tcx.hir_body_owners() {
            match tcx.def_kind(ldid.to_def_id()) {
                DefKind::Fn | DefKind::AssocFn | DefKind::Closure => dump_fn(tcx, ldid, &mut out),
                _ => {}
            }
        }
        let path = format!("{}/{}-{}.jsonl", outdir, krate, std::process::id());
        std::fs::write(&path, out).expect("mirfacts: cannot write fact file");
        Compilation::Continue
    }
}

fn main() {
    let mut args: Vec<String> = std::env::args().collect();
    // RUSTC_WORKSPACE_WRAPPER: argv[1] is the path of the real rustc
    if args.len() > 1 && (args[1].ends_with("rustc") || args[1].contains("/rustc")) {
        args.remove(1);
    }
    rustc_driver::run_compiler(&args, &mut Cb::default());
}
