#!/usr/bin/env python3
"""maintenance helper (not a registered check): run the registered quick checks against seeded changes.
usage: tools_seeds.py [seed-id ...]   (default: all under /verif/seeded)
Applies seeded/<id>/patch.diff to /repo, runs ./check for every claimed property, reverts, prints which checks fire."""
import json, os, subprocess, sys
V = "/verif"
man = json.load(open(V + "/MANIFEST.json"))
props = [c["property_id"] for c in man["checks"]]
seeds = sys.argv[1:] or sorted(os.listdir(V + "/seeded"))
res = {}
assert subprocess.run(["git", "-C", "/repo", "status", "--porcelain"], capture_output=True, text=True).stdout.strip() == "", "/repo not clean"
for s in seeds:
    patch = "%s/seeded/%s/patch.diff" % (V, s)
    if not os.path.exists(patch):
        continue
    r = subprocess.run(["git", "-C", "/repo", "apply", patch], capture_output=True, text=True)
    if r.returncode != 0:
        res[s] = {"error": "patch does not apply: " + r.stderr[:200]}
        print(s, res[s]); continue
    try:
        fired = {}
        for p in props:
            o = subprocess.run([V + "/check", p], capture_output=True, text=True, cwd=V)
            v = [l for l in o.stdout.splitlines() if l.startswith("  finding ")]
            if o.returncode == 1:
                fired[p] = [l.strip()[:260] for l in v]
            elif o.returncode != 0:
                fired[p] = ["CHECK ERROR exit %d: %s" % (o.returncode, (o.stdout + o.stderr)[-300:])]
        res[s] = fired
    finally:
        subprocess.run(["git", "-C", "/repo", "checkout", "--", "."], check=True)
        subprocess.run(["git", "-C", "/repo", "clean", "-fdq", "--", "compiler"], check=False)
    own = s.split("-")[0]
    print("%s: %s%s" % (s, "CAUGHT by " + ",".join(sorted(res[s])) if res[s] else "missed", "" if not res[s] or own in res[s] else "  (not by its own property's check)"))
    for p, ls in res[s].items():
        for l in ls[:4]:
            print("     ", p, l)
json.dump(res, open(V + "/seeded/RESULTS.json", "w"), indent=1)
# restore evidence to the unchanged tree's
for p in props:
    subprocess.run([V + "/check", p], capture_output=True, text=True, cwd=V)
