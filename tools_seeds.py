#!/usr/bin/env python3
"""maintenance helper (not a registered check): run the registered quick checks against seeded changes.
usage: tools_seeds.py [--inplace] [seed-id ...]   (default: all under /verif/seeded)
Default mode works on a scratch worktree of /repo (VERIF_REPO) so that /repo and the registered evidence are untouched;
--inplace applies each patch to /repo itself (git apply / git checkout -- .) as the brief describes."""
import json, os, shutil, subprocess, sys
V = os.path.dirname(os.path.abspath(__file__))     # a snapshot of /verif (rsync, .cache linked) runs its own copy of the rules
args = [a for a in sys.argv[1:] if not a.startswith("--")]
inplace = "--inplace" in sys.argv
# --lane=K/N : process every N-th seed starting with the K-th, in an own scratch worktree and cargo target directory (several lanes run side by side);
#              results go to seeded/RESULTS.lane-K.json (merge with --merge)
lane = [a for a in sys.argv[1:] if a.startswith("--lane=")]
LANE = lane[0].split("=")[1] if lane else None
man = json.load(open(V + "/MANIFEST.json"))
props = [c["property_id"] for c in man["checks"]]
seeds = args or sorted(d for d in os.listdir(V + "/seeded") if os.path.isdir(V + "/seeded/" + d))
if "--merge" in sys.argv:
    import glob
    res = json.load(open(V + "/seeded/RESULTS.json"))
    for f in sorted(glob.glob(V + "/seeded/RESULTS.lane-*.json")):
        res.update(json.load(open(f)))
        os.remove(f)
    json.dump(res, open(V + "/seeded/RESULTS.json", "w"), indent=1, sort_keys=True)
    sys.exit(0)
RUN = "/tmp/seedrun"
RESFILE = V + "/seeded/RESULTS.json"
if LANE:
    k, n = (int(x) for x in LANE.split("/"))
    seeds = [s for s in seeds if os.path.exists("%s/seeded/%s/patch.diff" % (V, s))][k::n]
    RUN = "/tmp/seedrun-%d" % k
    RESFILE = V + "/seeded/RESULTS.lane-%d.json" % k
res = {}
if os.path.exists(V + "/seeded/RESULTS.json") and not LANE:
    res = json.load(open(V + "/seeded/RESULTS.json"))
env = dict(os.environ)
if inplace:
    repo = "/repo"
    assert subprocess.run(["git", "-C", "/repo", "status", "--porcelain"], capture_output=True, text=True).stdout.strip() == "", "/repo not clean"
else:
    repo = RUN + "/repo"
    shutil.rmtree(RUN, ignore_errors=True)
    subprocess.run(["git", "-C", "/repo", "worktree", "prune"], check=True)
    subprocess.run(["git", "-C", "/repo", "worktree", "add", "-q", "--detach", repo, "HEAD"], check=True)
    env["VERIF_REPO"] = repo
    env["VERIF_EVIDENCE_DIR"] = RUN + "/evidence"
    if LANE:
        env["VERIF_FACTS_LANE"] = LANE.split("/")[0]
try:
    for s in seeds:
        patch = "%s/seeded/%s/patch.diff" % (V, s)
        if not os.path.exists(patch):
            continue
        r = subprocess.run(["git", "-C", repo, "apply", patch], capture_output=True, text=True)
        if r.returncode != 0:
            res[s] = {"error": "patch does not apply: " + r.stderr[:200]}
            print(s, res[s]); continue
        try:
            fired = {}

            def one(p):
                return p, subprocess.run([V + "/check", p], capture_output=True, text=True, cwd=V, env=env)
            # the first check extracts the facts of this tree (cached by content hash); the others then run concurrently
            outs = [one(props[0])]
            from concurrent.futures import ThreadPoolExecutor
            with ThreadPoolExecutor(max_workers=7) as ex:
                outs += list(ex.map(one, props[1:]))
            for p, o in outs:
                v = [l for l in o.stdout.splitlines() if l.startswith("  finding ")]
                if o.returncode == 1:
                    fired[p] = [l.strip()[:300] for l in v]
                elif o.returncode != 0:
                    fired[p] = ["CHECK ERROR exit %d: %s" % (o.returncode, (o.stdout + o.stderr)[-300:])]
            if fired and all(ls and str(ls[0]).startswith("CHECK ERROR") for ls in fired.values()):
                fired = {"error": "the tree does not build with the patch (needs a rebase): " + str(next(iter(fired.values()))[0])[-160:]}
            res[s] = fired
        finally:
            subprocess.run(["git", "-C", repo, "checkout", "--", "."], check=True)
            subprocess.run(["git", "-C", repo, "clean", "-fdq", "--", "compiler"], check=False)
        own = s.split("-")[0]
        print("%s: %s%s" % (s, "CAUGHT by " + ",".join(sorted(res[s])) if res[s] else "missed", "" if not res[s] or own in res[s] else "  (not by its own property's check)"), flush=True)
        for p, ls in res[s].items():
            for l in ls[:3]:
                print("     ", p, l, flush=True)
finally:
    if not inplace:
        subprocess.run(["git", "-C", "/repo", "worktree", "remove", "--force", repo])
        shutil.rmtree(RUN, ignore_errors=True)
    json.dump(res, open(RESFILE, "w"), indent=1, sort_keys=True)
    if inplace:
        for p in props:
            subprocess.run([V + "/check", p], capture_output=True, text=True, cwd=V)
