#!/usr/bin/env python3
"""maintenance helper (not a registered check): run the registered quick checks against behaviour-preserving changes (neutral/<id>/patch.diff): every finding is a false alarm.
usage: tools_seeds.py [--inplace] [seed-id ...]   (default: all under /verif/seeded)
Default mode works on a scratch worktree of /repo (VERIF_REPO) so that /repo and the registered evidence are untouched;
--inplace applies each patch to /repo itself (git apply / git checkout -- .) as the brief describes."""
import json, os, shutil, subprocess, sys
V = os.path.dirname(os.path.abspath(__file__))     # a snapshot of /verif (rsync, .cache linked) runs its own copy of the rules
args = [a for a in sys.argv[1:] if not a.startswith("--")]
inplace = "--inplace" in sys.argv
man = json.load(open(V + "/MANIFEST.json"))
props = [c["property_id"] for c in man["checks"]]
seeds = args or sorted(d for d in os.listdir(V + "/neutral") if os.path.isdir(V + "/neutral/" + d))
lane = [a for a in sys.argv[1:] if a.startswith("--lane=")]
LANE = lane[0].split("=")[1] if lane else None
RUN = "/tmp/neutralrun"
RESFILE = V + "/neutral/RESULTS.json"
if "--merge" in sys.argv:
    import glob
    res = json.load(open(RESFILE)) if os.path.exists(RESFILE) else {}
    for f in sorted(glob.glob(V + "/neutral/RESULTS.lane-*.json")):
        res.update(json.load(open(f)))
        os.remove(f)
    json.dump(res, open(RESFILE, "w"), indent=1, sort_keys=True)
    sys.exit(0)
if LANE:
    k, n = (int(x) for x in LANE.split("/"))
    seeds = seeds[k::n]
    RUN = "/tmp/neutralrun-%d" % k
    RESFILE = V + "/neutral/RESULTS.lane-%d.json" % k
res = {}
if os.path.exists(V + "/neutral/RESULTS.json") and not LANE:
    res = json.load(open(V + "/neutral/RESULTS.json"))
env = dict(os.environ)
if inplace:
    repo = "/repo"
    assert subprocess.run(["git", "-C", "/repo", "status", "--porcelain"], capture_output=True, text=True).stdout.strip() == "", "/repo not clean"
else:
    repo = RUN + "/repo"
    shutil.rmtree(RUN, ignore_errors=True)
    subprocess.run(["git", "-C", "/repo", "worktree", "prune"], check=True)
    subprocess.run(["git", "-C", "/repo", "worktree", "add", "-q", "--detach", repo, "HEAD"], check=True)
    env["VERIF_REPO"] = repo
    env["VERIF_EVIDENCE_DIR"] = RUN + "/evidence"
    if LANE:
        env["VERIF_FACTS_LANE"] = "n" + LANE.split("/")[0]
try:
    for s in seeds:
        patch = "%s/neutral/%s/patch.diff" % (V, s)
        if not os.path.exists(patch):
            continue
        r = subprocess.run(["git", "-C", repo, "apply", patch], capture_output=True, text=True)
        if r.returncode != 0:
            res[s] = {"error": "patch does not apply: " + r.stderr[:200]}
            print(s, res[s]); continue
        try:
            fired = {}

            def one(p):
                return p, subprocess.run([V + "/check", p], capture_output=True, text=True, cwd=V, env=env)
            # the first check extracts the facts of this tree (cached by content hash); the others then run concurrently
            outs = [one(props[0])]
            from concurrent.futures import ThreadPoolExecutor
            with ThreadPoolExecutor(max_workers=7) as ex:
                outs += list(ex.map(one, props[1:]))
            for p, o in outs:
                v = [l for l in o.stdout.splitlines() if l.startswith("  finding ")]
                if o.returncode == 1:
                    fired[p] = [l.strip()[:300] for l in v]
                elif o.returncode != 0:
                    fired[p] = ["CHECK ERROR exit %d: %s" % (o.returncode, (o.stdout + o.stderr)[-300:])]
            res[s] = fired
        finally:
            subprocess.run(["git", "-C", repo, "checkout", "--", "."], check=True)
            subprocess.run(["git", "-C", repo, "clean", "-fdq", "--", "compiler"], check=False)
        own = s.split("-")[0]
        print("%s: %s%s" % (s, "FALSE ALARM by " + ",".join(sorted(res[s])) if res[s] else "quiet", "" if not res[s] or own in res[s] else "  (not by its own property's check)"), flush=True)
        for p, ls in res[s].items():
            for l in ls[:3]:
                print("     ", p, l, flush=True)
finally:
    if not inplace:
        subprocess.run(["git", "-C", "/repo", "worktree", "remove", "--force", repo])
        shutil.rmtree(RUN, ignore_errors=True)
    json.dump(res, open(RESFILE, "w"), indent=1, sort_keys=True)
    if inplace:
        for p in props:
            subprocess.run([V + "/check", p], capture_output=True, text=True, cwd=V)
