"""C04 — Total and terminating: the panic clause, as an exhaustive triaged inventory (see DESIGN.md §3 C04)."""
import re
from vlib.mir import norm, loc_str, op_place
from rules import panics
from rules.panic_triage import TRIAGE

ENTRIES = ["ironplc_parser::tokenize_program", "ironplc_parser::parse_program", "ironplc_analyzer::stages::analyze",
           "ironplc_plc2plc::write_to_string", "ironplcc::cli::check", "ironplcc::cli::echo", "ironplcc::cli::tokenize"]


def entry_bodies(ctx, rep, names):
    out = []
    for n in names:
        r = ctx.prog.get(n)
        if not r:
            rep.error("entry", "entry point %s not found (renamed/moved?)" % n)
        out += r
    return out


def _outer(fid):
    return re.sub(r"(::\{closure#\d+\})+$", "", norm(fid))


def _kind_of_key(k):
    kind = re.sub(r"#\d+$", "", k.split("|", 1)[1]) if "|" in k else k
    # slicing a String and slicing the str it derefs to are the same construct
    return kind.replace("<alloc::string::String as core::ops::index::Index<I>>::index", "core::str::traits::index")


def _callers(ctx):
    if not hasattr(ctx, "_callers_cache"):
        rev = {}
        for b in ctx.prog.bodies.values():
            for t, name, site in ctx.prog.callees_of(b):
                if t is not None:
                    rev.setdefault(_outer(t.id), set()).add(_outer(b.id))
        ctx._callers_cache = rev
    return ctx._callers_cache


def _moved_from(ctx, site, stale):
    """a triage entry whose construct is no longer where it was, and that can only be this site: same kind of construct, and the site's
    function is the entry's function, a closure of it, or a helper that is called from nowhere but that function (extract-function,
    closure <-> loop, closure -> named function).  The justification is about the construct, not about its address."""
    kind = _kind_of_key(site.key)
    g = _outer(site.body.id)
    callers = _callers(ctx).get(g, set())
    for k in sorted(stale):
        if _kind_of_key(k) != kind:
            continue
        f = _outer(k.split("|", 1)[0])
        if f == g or (callers and callers <= {f}) or (callers and all(_callers(ctx).get(c_, set()) and _callers(ctx).get(c_, set()) <= {f} and c_ != g for c_ in callers)):
            return k
        # the same construct, written in several functions, merged into one helper that all of them call (`send_error` for the two places that
        # answered with an error): every caller has lost a construct of this kind, and this one is theirs
        if f in callers and all(any(_kind_of_key(k2) == kind and _outer(k2.split("|", 1)[0]) == c_ for k2 in stale) for c_ in callers):
            return k
    return None


def run_inventory(ctx, rep, rule, entries, triage, only=None):
    sites, reach = panics.inventory(ctx, entries)
    matched = set()
    if only is not None:
        # a justification that still matches its construct somewhere in the whole inventory is not free to be re-bound to a site of the part
        matched = {s_.key for s_ in sites if s_.key in triage}
        sites = [s_ for s_ in sites if only(s_)]
    seen_gen = {}
    n_auto = n_tri = 0
    pending = []
    for s in sorted(sites, key=lambda s: s.key):
        if s.generated:
            seen_gen.setdefault(s.key, []).append(s)
            continue
        why = panics.auto_discharge(s)
        if why:
            rule.justified(s.key, "auto: " + why, s.where)
            n_auto += 1
        elif s.key in triage:
            rule.justified(s.key, "invariant: " + triage[s.key], s.where)
            matched.add(s.key)
            n_tri += 1
        else:
            pending.append(s)
    # constructs that moved: bind each to a triage entry that matched nothing in this tree
    all_fns = {_outer(b.id) for b in ctx.prog.bodies.values()}
    stale = {k for k in triage if k not in matched and "|" in k and k not in seen_gen}
    for s in pending:
        k = _moved_from(ctx, s, stale)
        if k is not None:
            stale.discard(k)
            rule.justified(s.key, "invariant (the construct justified as %s, now here): %s" % (k.split("|")[0].split("::")[-1] + "|" + k.split("|", 1)[1], triage[k]), s.where)
            n_tri += 1
        else:
            path = ctx.prog.path_to(reach, s.body.id)
            rule.finding(s.key, s.where, "panic-capable construct %s reachable via %s" % (
                s.kind, " -> ".join(norm(p).split("::")[-1] if len(path) > 4 else norm(p) for p in path[-5:])))
    for k, lst in sorted(seen_gen.items()):
        if k in triage:
            rule.justified(k, "generator: %s (%d sites)" % (triage[k], len(lst)), lst[0].where)
        else:
            rule.finding(k, lst[0].where, "%d panic-capable constructs in generated code, no justification on file" % len(lst))
    rule.note("%d workspace functions reachable from %d entry bodies; %d sites: %d auto-discharged on the MIR, %d by listed invariant"
              % (len(reach), len(entries), len(sites), n_auto, n_tri))
    return sites, reach


def rule_emptyok(ctx, rep, rid="R-C04-emptyok"):
    """The error mapping of parse_library computes `tokens.get(location - 1)`; its justification in the panic inventory is "location 0 can
    only be a failure on an empty token list, and the empty list parses".  The second half is a property of the grammar: the start rule
    must accept the empty input (it is nullable).  `library = element ++ _` instead of `** _` makes a 0-byte file a parse error at
    location 0 and the subtraction underflows."""
    from rules.c08_trivia import Trivia
    r = rep.rule(rid, "the grammar's start rule accepts the empty token list (it is nullable): parse_library's error mapping, which looks at the token before the "
                      "failure position, is never run for position 0", floor=1, floor_what="start rule")
    g = ctx.peg
    t = Trivia(g)
    start = "library"
    where = "%s rule %s" % (g.file, start)
    if start not in g.rules:
        rep.error(rid, "start rule `library` not found")
        return
    # `library = traced(<library__impl()>)`: the rules handed to a wrapper as arguments are what is matched
    inner = set()

    def f(e, sq, c):
        for pp in (e.prim,):
            if pp is not None and pp.kind == "call" and pp.name in g.rules and pp.name not in ("_", "traced"):
                inner.add(pp.name)
    g.walk_elems(g.rules[start].expr, f)
    not_null = [n_ for n_ in sorted(inner) if not t.nullable.get(n_, False)]
    if t.nullable.get(start, False) and not not_null:
        r.ok("rule %s|nullable" % start, where, "matches the empty input" + (" (through %s)" % ", ".join(sorted(inner)) if inner else ""))
    else:
        r.finding("rule %s|not-nullable" % start, where, "the start rule does not match the empty input: a file without tokens is a parse error at position 0, and parse_library's "
                  "`location - 1` underflows (the inventory's justification of that subtraction assumes the empty list parses)")


def rule_bound(ctx, rep):
    """R-C04-bound: the field bound used by the overflow range argument is maintained by every writer."""
    r = rep.rule("R-C04-bound", "FixedPoint.femptos < 10^15: only FixedPoint::parse (<= 15 fraction digits, guard re-verified) "
                                "and From<Integer> (constant 0) construct or assign it", floor=3, floor_what="writers")
    ADT = "ironplc_dsl::common::FixedPoint"
    allowed = {"ironplc_dsl::common::FixedPoint::parse", "<ironplc_dsl::common::FixedPoint as core::convert::From<ironplc_dsl::common::Integer>>::from"}
    for b in ctx.prog.bodies.values():
        if b.f["crate"] not in ("ironplc_dsl", "ironplc_parser", "ironplc_analyzer", "ironplc_plc2plc", "ironplcc"):
            continue
        for i, j, s in b.all_stmts():
            if s[0] != "=":
                continue
            # direct field assignment
            flds = [p for p in s[1][1] if isinstance(p, list) and p[0] == "f"]
            if flds and flds[-1][3] == ADT and flds[-1][2] == "femptos":
                r.finding("%s|assign" % norm(b.id), loc_str(b.f, s[3]), "femptos assigned outside a constructor")
            rv = s[2]
            if rv[0] == "agg" and rv[1].get("adt") == ADT:
                inst = "%s|construct@bb-ordinal%d" % (norm(b.id), sum(1 for x in r.instances if x["instance"].startswith(norm(b.id))) + 1)
                from vlib.mir import loc_macro
                if (loc_macro(s[3]) or ("",))[0] == "Derive:Clone":
                    r.ok(inst, loc_str(b.f, s[3]), "derived Clone copies an existing value field by field")
                    continue
                if norm(b.id) not in allowed:
                    r.finding(inst, loc_str(b.f, s[3]), "FixedPoint constructed outside FixedPoint::parse / From<Integer>")
                    continue
                idx = rv[1]["fields"].index("femptos")
                op = rv[2][idx]
                v = panics._int_const(b, op)
                if v == 0:
                    r.ok(inst, loc_str(b.f, s[3]), "femptos = 0")
                    continue
                # must be the parse::<u64>() of a string whose len() is bounded by 15 at this point
                ok = False
                for g in panics._cmp_guards(b, i):
                    if g[0] == "bin" and g[1] == "Gt" and not g[4] and panics._int_const(b, g[3]) == 15:
                        gp = op_place(g[2])
                        if gp is not None and panics._origin(b, gp)[0] == "len":
                            ok = True
                if ok:
                    r.ok(inst, loc_str(b.f, s[3]), "femptos parsed from <= 15 decimal digits (guard `len > 15 -> return` dominates)")
                else:
                    r.finding(inst, loc_str(b.f, s[3]), "femptos is neither 0 nor guarded by the 15-digit check")


def rule_pair(ctx, rep, rid="R-C04-pair"):
    """R-C04-pair: indent()/outdent() balanced in every renderer method."""
    r = rep.rule(rid, "in every LibraryRenderer method indent()/outdent() are balanced on every Ok path and the "
                               "running balance is never negative on any path", floor=60, floor_what="renderer methods")
    IND = "ironplc_plc2plc::renderer::LibraryRenderer::indent"
    OUT = "ironplc_plc2plc::renderer::LibraryRenderer::outdent"
    users = 0
    for b in ctx.prog.bodies.values():
        im = b.f.get("impl")
        if b.f["crate"] != "ironplc_plc2plc":
            continue
        if not (im and im.get("self") == "ironplc_plc2plc::renderer::LibraryRenderer"):
            continue
        if b.f["name"] in ("indent", "outdent"):
            continue
        # forward dataflow: set of possible balances at block entry; bit "err" = path went through from_residual
        CAP = 6
        state = {0: {(0, False)}}
        work = [0]
        bad = None
        uses = False
        while work:
            bb = work.pop()
            cur = state[bb]
            t = b.term(bb)
            delta, err = 0, False
            if t[0] == "call":
                cal = norm(t[1].get("d") or "")
                if cal == IND:
                    delta = 1
                    uses = True
                elif cal == OUT:
                    delta = -1
                    uses = True
                elif cal.endswith("FromResidual<core::result::Result<core::convert::Infallible, E>>>::from_residual") or "from_residual" in cal:
                    err = True
            new = set()
            for (bal, e) in cur:
                nb = bal + delta
                if nb < 0:
                    bad = ("negative balance", bb)
                if nb > CAP:
                    bad = ("unbounded indentation in a loop", bb)
                    nb = CAP
                new.add((nb, e or err))
            if t[0] == "ret":
                for (bal, e) in new:
                    if not e and bal != 0:
                        bad = ("returns Ok with balance %+d" % bal, bb)
            for s in b.succ(bb):
                old = state.get(s, set())
                if not new <= old:
                    state[s] = old | new
                    work.append(s)
        inst = norm(b.id).split("::")[-1] if b.f["name"].startswith("visit_") else norm(b.id)
        if bad:
            r.finding(inst, "%s:%d" % (b.f["file"], b.f["line"]), bad[0])
        else:
            r.ok(inst, "%s:%d" % (b.f["file"], b.f["line"]), "uses pair" if uses else "no indentation calls")
        users += 1 if uses else 0
    # the counters themselves: indent() adds exactly one and outdent() takes exactly one away, unconditionally - a balance of calls says
    # nothing if one of them is clamped, skipped or scaled (an outdent after a clamped indent underflows)
    for nm, op in ((IND, "Add"), (OUT, "Sub")):
        for bd in ctx.prog.get(nm):
            branches = [i for i in bd.reachable(0) if bd.term(i)[0] == "switch"]
            steps = [st for _, _, st in bd.all_stmts() if st[0] == "=" and st[2][0] == "bin" and st[2][1] in (op, op + "WithOverflow", op + "Unchecked")]
            one = [st for st in steps if any(o[0] == "c" and len(o) > 3 and isinstance(o[3], dict) and o[3].get("int") == "1" for o in st[2][2:4])]
            inst = "%s|counter" % nm.split("::")[-1]
            where = "%s:%d" % (bd.f["file"], bd.f["line"])
            if branches or len(steps) != 1 or len(one) != 1 or len(bd.calls()) > 0:
                r.finding(inst + "|not-plus-minus-one", where, "%s() is not the unconditional `%s 1` the balance argument relies on (%d branches, %d arithmetic steps, %d calls): "
                          "balanced calls no longer mean a balanced counter" % (nm.split("::")[-1], "+=" if op == "Add" else "-=", len(branches), len(steps), len(bd.calls())))
            else:
                r.ok(inst, where, "unconditional %s 1" % ("+=" if op == "Add" else "-="))
    r.note("%d methods call indent()/outdent()" % users)
    if users < 15:
        rep.error(rid, "only %d renderer methods use indent/outdent (< 15 confirmed by hand): anchor moved?" % users)


def rule_assigned(ctx, rep):
    """R-C04-assigned: the todo!() in Source::library is unreachable because the Option was just filled."""
    r = rep.rule("R-C04-assigned", "Source::library: the `None => todo!()` arm is preceded on every path by an assignment of Some(..) to self.library", floor=1)
    b = ctx.prog.get("ironplcc::source::Source::library")
    if not b:
        rep.error("R-C04-assigned", "Source::library not found")
        return
    b = b[0]
    # blocks that assign self.library = Some(..)
    assigning = set()
    for i, j, st in b.all_stmts():
        if st[0] != "=":
            continue
        flds = [p for p in st[1][1] if isinstance(p, list) and p[0] == "f"]
        if not (flds and flds[-1][2] == "library" and flds[-1][3] == "ironplcc::source::Source"):
            continue
        src = op_place(st[2][1]) if st[2][0] == "use" else None
        d = b.single_def(src[0]) if src and not src[1] else None
        if d and d[0] == "stmt" and d[3][0] == "agg" and d[3][1].get("variant") == "Some":
            assigning.add(i)
    # the block that inspects self.library's discriminant with a None arm leading to the panic
    panic_bbs = [c.bb for c in b.calls() if c.callee and c.callee.startswith("core::panicking::")]
    if not panic_bbs:
        r.ok("Source::library", "%s:%d" % (b.f["file"], b.f["line"]), "no panicking arm in Source::library (nothing to guard)")
        return
    assigned_on_true = False
    for c in b.calls():
        if c.callee == "core::option::Option::is_none" and c.target is not None:
            t = b.term(c.target)
            if t[0] != "switch":
                continue
            ft, tt = panics._switch_edges(t)
            if ft is None:
                continue
            # from the true edge (library was None) the panic must be unreachable without passing an assignment
            reach_wo = b.reachable(tt, avoid=assigning)
            if assigning and not any(p in reach_wo for p in panic_bbs):
                assigned_on_true = True
    if assigned_on_true:
        r.ok("Source::library", "%s:%d" % (b.f["file"], b.f["line"]), "is_none() true edge assigns self.library = Some(parse_program(..))")
    else:
        r.finding("Source::library", "%s:%d" % (b.f["file"], b.f["line"]), "no Some(..) assignment guards the todo!() arm")


def run(ctx, rep):
    rep.not_decided += ["termination beyond the per-loop progress condition (R-C04-progress), recursion depth and the time budget", "stack depth at nesting <= 12", "PEG backtracking cost",
                        "panics inside third-party crates other than the frozen list of documented-to-panic APIs"]
    rep.assumptions += ["rustc MIR at mir-opt-level=0 is faithful to the built program (debug profile: overflow checks on)",
                        "third-party crates panic only where documented (frozen list in rules/panics.py)",
                        "invariant justifications in rules/panic_triage.py are argued by reading and trusted; guarded ones are re-derived from the MIR on each run"]
    from rules import c09_durrange
    c09_durrange.run(ctx, rep, rid="R-C04-durrange")
    entries = entry_bodies(ctx, rep, ENTRIES)
    r = rep.rule("R-C04-panic", "every panic-capable construct reachable from tokenize/parse/analyze/render/CLI entry points is "
                                "discharged on the MIR, justified by a listed invariant, or a known finding", floor=55, floor_what="sites")
    run_inventory(ctx, rep, r, entries, TRIAGE)
    rule_bound(ctx, rep)
    rule_pair(ctx, rep)
    rule_assigned(ctx, rep)
    from rules import c04_progress, c04_recursion
    c04_progress.run(ctx, rep)
    c04_recursion.run(ctx, rep)
    c04_recursion.run_fanout(ctx, rep)
    c04_recursion.run_depth(ctx, rep)
    c04_recursion.run_threads(ctx, rep)
    c04_recursion.run_fmtself(ctx, rep)
    from rules import c04_magnitude
    c04_magnitude.run(ctx, rep)
    c04_magnitude.run_errrun(ctx, rep)
    rule_emptyok(ctx, rep)
    # a slice is in bounds and on a character boundary only in the string its offsets were found in (the triage of the slicing sites assumes it)
    from rules.c14 import rule_samestr
    rule_samestr(ctx, rep, rid="R-C04-samestr")
    from rules import c04_backtrack
    c04_backtrack.run(ctx, rep)


CLIPPY_LINTS = ["unwrap_used", "expect_used", "panic", "todo", "unimplemented", "unreachable", "indexing_slicing", "string_slice"]


def clippy_cross_reference(ctx, rep, entries, rid="T-clippy"):
    """Thorough tier: an independent opt-in lint run (clippy restriction lints the project never enabled) as a recall check of
    the inventory: every clippy hit inside a product function reachable from the entry points must coincide (file:line)
    with a site of the MIR inventory."""
    import json, os, subprocess
    from vlib import facts as F
    r = rep.rule(rid, "cross-reference: every clippy::{%s} hit in a reachable product function coincides with a site of the panic inventory" % ",".join(CLIPPY_LINTS))
    env = dict(os.environ, CARGO_NET_OFFLINE="true", CARGO_TARGET_DIR=os.path.join(F.CACHE, "target-clippy"))
    env.pop("RUSTC_WORKSPACE_WRAPPER", None)
    env.pop("RUSTFLAGS", None)
    cmd = ["cargo", "+nightly", "clippy", "--offline", "--workspace", "--message-format=json", "--", "-A", "clippy::all"]
    for l in CLIPPY_LINTS:
        cmd += ["-W", "clippy::" + l]
    # clippy results are cached by cargo: force the workspace members to be re-linted
    import glob, shutil, re
    for fp in glob.glob(os.path.join(env["CARGO_TARGET_DIR"], "debug", ".fingerprint", "*")):
        if re.match(r"(ironplc|ironplcc|dsl_macro_derive|dsl-macro-derive)", os.path.basename(fp)):
            shutil.rmtree(fp, ignore_errors=True)
    p = subprocess.run(cmd, cwd=F.WS, env=env, capture_output=True, text=True)
    if p.returncode != 0:
        rep.error(rid, "cargo clippy failed: " + p.stderr[-400:])
        return
    hits = []
    for line in p.stdout.splitlines():
        if not line.startswith("{"):
            continue
        m = json.loads(line)
        if m.get("reason") != "compiler-message":
            continue
        code = (m["message"].get("code") or {}).get("code") or ""
        if not code.startswith("clippy::"):
            continue
        sp = [s for s in m["message"]["spans"] if s.get("is_primary")]
        if sp:
            hits.append((code, sp[0]["file_name"], sp[0]["line_start"]))
    sites, reach = panics.inventory(ctx, entries)
    site_lines = {(s.body.f["file"] if len(s.loc) < 4 or not s.loc[3] else s.loc[3], s.loc[0]) for s in sites}
    # reachable product functions by file and line range
    spans = []
    for fid in reach:
        f = ctx.prog.bodies[fid].f
        if f["crate"] in F.PRODUCT:
            spans.append((f["file"], f["line"], f["endline"]))
    n = 0
    for code, file, line in sorted(set(hits)):
        inside = any(file == sf and lo <= line <= hi for sf, lo, hi in spans)
        if not inside:
            continue
        n += 1
        inst = "%s@%s" % (code, file)
        if (file, line) in site_lines:
            r.ok("%s:%d" % (inst, line), "%s:%d" % (file, line))
        else:
            r.finding("%s|not-in-inventory|%s" % (inst, code), "%s:%d" % (file, line), "clippy reports %s here, inside a function reachable from the entry points, but the MIR inventory has no site on this line" % code)
    r.note("%d clippy hits in the workspace, %d inside reachable product functions" % (len(set(hits)), n))


def thorough_extra(ctx, rep):
    clippy_cross_reference(ctx, rep, entry_bodies(ctx, rep, ENTRIES))
