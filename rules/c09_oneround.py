"""R-C09-oneround: the value of a real literal is one correctly rounded conversion of its text.

`f64::from_str` returns the double nearest to the decimal text.  Any floating-point arithmetic applied to parsed *parts* of the text
afterwards rounds a second time: `4.35E2` computed as `4.35 * 10f64.powi(2)` is 434.99999999999994.  So on the literal paths (the non-test
code of dsl and of the parser) there is no floating-point arithmetic at all - no `+ - * / %` with a float operand and no call of a float
function that computes (powi, powf, exp, sqrt, mul_add, ...) - with one exception that is exact: the multiplication by the sign, whose
factor is read off the grammar (a label whose alternatives are the actions `{ -1.0 }` / `{ 1.0 }`, defaulted with `unwrap_or(1.0)`)."""
import re
from vlib.mir import norm, loc_str, op_place

EXACT_CALLS = {"is_finite", "is_nan", "is_infinite", "is_sign_negative", "is_sign_positive", "abs", "neg", "to_bits", "from_bits", "from_str", "parse", "eq", "ne",
               "partial_cmp", "lt", "le", "gt", "ge", "clone", "fmt", "to_string", "default", "into", "from", "copysign", "signum", "total_cmp", "hash"}


def _sign_labels(g, rule_name):
    """labels of the rule whose every alternative is an action that is the constant 1.0 or -1.0"""
    out = set()
    for rule, s in g.all_seqs():
        if rule.name != rule_name:
            continue
        for e in s.elems:
            if not e.label or e.prim.kind != "group":
                continue
            alts = getattr(e.prim.expr, "alts", None) or []
            vals = []
            for a in alts:
                code = "".join(t.v for t in a.action.code) if a.action is not None else None
                vals.append(code)
            if vals and all(v in ("1.0", "-1.0", "1.0f64", "-1.0f64") for v in vals):
                code = "".join(t.v for t in s.action.code) if s.action is not None else ""
                defaults = re.findall(r"%s\.unwrap_or\(([^)]*)\)" % re.escape(e.label), code)
                if all(d in ("1.0", "-1.0", "1.0f64") for d in defaults):
                    out.add(e.label)
    return out


def run(ctx, rep, rid="R-C09-oneround"):
    r = rep.rule(rid, "no floating-point arithmetic on the literal paths: a real literal's value is the single rounding done by from_str on its whole text "
                      "(the multiplication by the grammar's sign constant +-1.0 is exact and is the listed form)", floor=1, floor_what="float operations examined")
    g = ctx.peg
    n = 0
    for b in sorted(ctx.prog.bodies.values(), key=lambda x: x.id):
        if b.f["crate"] not in ("ironplc_parser", "ironplc_dsl") or "::test" in norm(b.id) or b.f.get("exp"):
            continue
        fn = norm(b.id)
        k = 0
        for i, j, s in b.all_stmts():
            if not (s[0] == "=" and s[2][0] == "bin" and s[2][1].replace("WithOverflow", "").replace("Unchecked", "") in ("Add", "Sub", "Mul", "Div", "Rem")):
                continue
            ops = [s[2][2], s[2][3]]
            tys = [o[1] if o[0] == "c" else (b.local_ty(op_place(o)[0]) if op_place(o) is not None and not op_place(o)[1] else "") for o in ops]
            if not any(t in ("f64", "f32") for t in tys):
                continue
            n += 1
            k += 1
            inst = "%s|float %s#%d" % (fn.split("ironplc_")[-1], s[2][1], k)
            ok = False
            m = re.search(r"plc_parser::__parse_(\w+?)::\{closure", fn)
            if s[2][1] == "Mul" and m:
                labs = _sign_labels(g, m.group(1))
                for o in ops:
                    p = op_place(o)
                    if p is None:
                        continue
                    rt = b.root(p)
                    # the factor: a local named like the label (`let sign = sign.unwrap_or(1.0)`) or a capture of it
                    nm = b.local_name(rt[0]) or ""
                    d = b.single_def(rt[0])
                    if nm in labs and d and d[0] == "call" and (d[2].callee or "").endswith("Option::<T>::unwrap_or") or nm in labs and d and d[0] == "call" and (d[2].callee or "").split("::")[-1] == "unwrap_or":
                        ok = True
                    caps = [x for x in rt[1] if isinstance(x, list) and x[0] == "f" and x[3] == "(closure)"]
                    if caps and b.f["dk"] == "Closure":
                        for pb in ctx.prog.get(norm(b.id).rsplit("::{closure", 1)[0]):      # the body that creates this closure (a closure itself when nested)
                            for _, _, st in pb.all_stmts():
                                if st[0] == "=" and st[2][0] == "agg" and isinstance(st[2][1], dict) and st[2][1].get("k") == "closure" and norm(st[2][1]["def"]) == norm(b.id):
                                    cp = op_place(st[2][2][caps[0][1]])
                                    if cp is not None:
                                        prt = pb.root(cp)
                                        pd = pb.single_def(prt[0])
                                        if (pb.local_name(prt[0]) or "") in labs and pd and pd[0] == "call" and (pd[2].callee or "").split("::")[-1] == "unwrap_or":
                                            ok = True
            if ok:
                r.ok(inst, loc_str(b.f, s[3]), "multiplication by the sign constant of the grammar (+-1.0): exact")
            else:
                r.finding(inst, loc_str(b.f, s[3]), "floating-point arithmetic on a literal path: the result is rounded again after from_str rounded the text "
                          "(`4.35E2` computed from parts is 434.99999999999994)")
        for c in sorted(b.calls(), key=lambda c: (c.loc[0], c.loc[1])):
            cal = c.callee or ""
            m2 = re.search(r"core::(f64|f32)::<impl (?:f64|f32)>::(\w+)$|std::(f64|f32)::<impl (?:f64|f32)>::(\w+)$|core::(f64|f32)::(\w+)$", cal)
            if not m2:
                continue
            meth = [x for x in m2.groups() if x and x not in ("f64", "f32")][-1]
            n += 1
            k += 1
            inst = "%s|%s#%d" % (fn.split("ironplc_")[-1], meth, k)
            if meth in EXACT_CALLS:
                r.ok(inst, loc_str(b.f, c.loc), "a test or an exact operation")
            else:
                r.finding(inst, loc_str(b.f, c.loc), "the float function %s computes on a parsed part of a literal: a second rounding" % meth)
