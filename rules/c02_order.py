"""R-C02-order: the subrange rule's comparison of two signed literals, decided over the finite domain of orderings.

`SignedInteger` is sign + magnitude.  The helper that compares two of them touches its inputs only through `is_neg`, through
comparisons of a magnitude with 0 and through comparisons of the two magnitudes with each other.  Its result therefore depends
only on an abstract input with 24 values:  is_neg(a), is_neg(b) in {F,T}  x  (a=0?, b=0?, order of the magnitudes) in
{(T,T,=), (T,F,<), (F,T,>), (F,F,<), (F,F,=), (F,F,>)}.  The function's MIR is interpreted over this domain (branches on
booleans, comparisons decided by the abstract order) and the result table is compared with the mathematical one
(`a < b` for the integers the literals denote; -0 = 0).  Anything else in the body (arithmetic, calls, conversions) makes the
function non-evaluable and is reported (fail closed)."""
import itertools
from vlib.mir import op_place, loc_str, norm

SI = "ironplc_dsl::common::SignedInteger"


class Stuck(Exception):
    pass


def find_helpers(ctx):
    out = []
    for b in ctx.prog.bodies.values():
        if b.f["crate"] != "ironplc_analyzer" or "rule_decl_subrange_limits" not in norm(b.id) or b.f["argc"] != 2:
            continue
        if b.local_ty(0) == "bool" and all(SI in (b.local_ty(i) or "") for i in (1, 2)):
            out.append(b)
    return out


def evaluate(b, an, bn, za, zb, rel):
    """abstract run; returns bool"""
    vals = {}

    def read_place(pl):
        l, pj = pl[0], [x for x in pl[1] if x != "*"]
        fs = [x for x in pj if isinstance(x, list) and x[0] == "f"]
        if l in (1, 2) and fs:
            names = [x[2] for x in fs]
            who = "a" if l == 1 else "b"
            if names == ["is_neg"]:
                return an if who == "a" else bn
            if names == ["value", "value"]:
                return ("mag", who)
            if names == ["value"]:
                return ("int", who)
            raise Stuck("reads %s.%s" % (who, ".".join(names)))
        base = vals.get(l, "?")
        if not fs:
            if base == "?":
                raise Stuck("reads an unknown value _%d" % l)
            return base
        if isinstance(base, tuple) and base[0] == "tuple" and len(fs) == 1:
            return base[1][fs[0][1]]
        if isinstance(base, tuple) and base[0] == "int" and [x[2] for x in fs] == ["value"]:
            return ("mag", base[1])
        if isinstance(base, tuple) and base[0] == "ref":
            return read_place((base[1][0], list(base[1][1]) + pj))
        raise Stuck("projection on _%d" % l)

    def operand(o):
        if o[0] == "c":
            if len(o) > 3 and isinstance(o[3], dict) and "int" in o[3]:
                if o[1] == "bool":
                    return o[3]["int"] == "1"
                return ("const", int(o[3]["int"]))
            raise Stuck("constant %s" % o[2])
        return read_place(o[1])

    def cmp(opn, x, y):
        def order(x, y):
            # returns -1/0/1 abstractly known order of x vs y
            if x[0] == "mag" and y[0] == "mag":
                if x[1] == y[1]:
                    return 0
                o = {"lt": -1, "eq": 0, "gt": 1}[rel]
                return o if x[1] == "a" else -o
            if x[0] == "mag" and y[0] == "const":
                if y[1] != 0:
                    raise Stuck("magnitude compared with the constant %d" % y[1])
                z = za if x[1] == "a" else zb
                return 0 if z else 1
            if x[0] == "const" and y[0] == "mag":
                return -order(y, x)
            if x[0] == "const" and y[0] == "const":
                return (x[1] > y[1]) - (x[1] < y[1])
            raise Stuck("comparison of %s with %s" % (x[0], y[0]))
        if isinstance(x, bool) and isinstance(y, bool):
            if opn in ("Eq", "Ne"):
                return (x == y) if opn == "Eq" else (x != y)
            raise Stuck("ordering of booleans")
        if not (isinstance(x, tuple) and isinstance(y, tuple)):
            raise Stuck("comparison of non-numeric values")
        o = order(x, y)
        return {"Lt": o < 0, "Le": o <= 0, "Gt": o > 0, "Ge": o >= 0, "Eq": o == 0, "Ne": o != 0}[opn]
    bb, steps = 0, 0
    while True:
        steps += 1
        if steps > 300:
            raise Stuck("loop")
        blk = b.bbs[bb]
        for s in blk["s"]:
            if s[0] != "=" or s[1][1]:
                if s[0] == "=":
                    raise Stuck("partial assignment")
                continue
            rv = s[2]
            k = rv[0]
            if k == "use":
                v = operand(rv[1])
            elif k == "ref":
                v = ("ref", (rv[2][0], [x for x in rv[2][1] if x != "*"])) if rv[2][0] in (1, 2) or rv[2][1] else vals.get(rv[2][0])
                if rv[2][0] in (1, 2):
                    try:
                        v = read_place(rv[2])
                    except Stuck:
                        v = ("ref", (rv[2][0], [x for x in rv[2][1] if x != "*"]))
            elif k == "bin":
                opn = rv[1]
                x, y = operand(rv[2]), operand(rv[3])
                if opn in ("Lt", "Le", "Gt", "Ge", "Eq", "Ne"):
                    v = cmp(opn, x, y)
                elif opn in ("BitAnd", "BitOr", "BitXor") and isinstance(x, bool) and isinstance(y, bool):
                    v = {"BitAnd": x and y, "BitOr": x or y, "BitXor": x != y}[opn]
                else:
                    raise Stuck("operator %s at %s" % (opn, loc_str(b.f, s[3])))
            elif k == "un" and rv[1] == "Not":
                x = operand(rv[2])
                if not isinstance(x, bool):
                    raise Stuck("negation of a non-boolean")
                v = not x
            elif k == "agg" and isinstance(rv[1], dict) and rv[1].get("k") == "tuple":
                v = ("tuple", [operand(o) for o in rv[2]])
            elif k == "cast":
                v = operand(rv[2])
            else:
                raise Stuck("statement kind %s at %s" % (k, loc_str(b.f, s[3])))
            vals[s[1][0]] = v
        t = blk["t"]
        if t[0] == "goto":
            bb = t[1]
        elif t[0] == "switch":
            x = operand(t[1])
            if not isinstance(x, bool):
                raise Stuck("branch on a non-boolean at %s" % loc_str(b.f, t[4]))
            key = "1" if x else "0"
            nxt = t[3]
            for tv, tb in t[2]:
                if tv == key:
                    nxt = tb
            bb = nxt
        elif t[0] == "ret":
            v = vals.get(0)
            if not isinstance(v, bool):
                raise Stuck("result is not a boolean")
            return v
        elif t[0] == "call":
            c = b.call_at(bb)
            nm = (c.callee or c.u or "")
            last = nm.split("::")[-1]
            if last in ("lt", "le", "gt", "ge", "eq", "ne") and len(c.args) == 2:
                x, y = operand(c.args[0]), operand(c.args[1])
                vals[c.dest[0]] = cmp(last.capitalize(), x, y)
                bb = c.target
            else:
                raise Stuck("call to %s" % nm)
        else:
            raise Stuck("terminator %s" % t[0])


def expected(an, bn, za, zb, rel):
    sa = 0 if za else (-1 if an else 1)
    sb = 0 if zb else (-1 if bn else 1)
    if sa != sb:
        return sa < sb
    if sa == 0:
        return False
    return rel == "lt" if sa > 0 else rel == "gt"


def run(ctx, rep, rid="R-C02-order"):
    r = rep.rule(rid, "the subrange rule compares its bounds as the integers they denote: the sign/magnitude comparison helper, interpreted over the "
                      "finite domain (signs x zero-ness x order of magnitudes, 24 cases), returns `a < b` in every case", floor=24, floor_what="abstract cases")
    hs = find_helpers(ctx)
    if len(hs) != 1:
        r.finding("rule_decl_subrange_limits|no-comparison-helper", "analyzer/src/rule_decl_subrange_limits.rs",
                  "expected exactly one fn(&SignedInteger, &SignedInteger) -> bool in the subrange rule, found %d: the comparison cannot be evaluated" % len(hs))
        return
    b = hs[0]
    where = "%s:%d" % (b.f["file"], b.f["line"])
    # the rule must use it negated as the error condition: `if !helper(start, end) { problem }`
    combos = [(True, True, "eq"), (True, False, "lt"), (False, True, "gt"), (False, False, "lt"), (False, False, "eq"), (False, False, "gt")]
    for an, bn in itertools.product([False, True], repeat=2):
        for za, zb, rel in combos:
            desc = "%sa %s %sb%s" % ("-" if an else "+", {"lt": "<", "eq": "=", "gt": ">"}[rel], "-" if bn else "+", " (a=0)" if za else "" + (" (b=0)" if zb else ""))
            inst = "%s|%s|a0=%s,b0=%s" % (b.f["name"], "sign(a)=%s sign(b)=%s |a|%s|b|" % ("-" if an else "+", "-" if bn else "+", {"lt": "<", "eq": "=", "gt": ">"}[rel]), int(za), int(zb))
            try:
                got = evaluate(b, an, bn, za, zb, rel)
            except Stuck as e:
                r.finding("%s|not-evaluable" % b.f["name"], where, "the comparison helper does more than compare (%s): its table over the finite domain cannot be computed" % e)
                return
            exp = expected(an, bn, za, zb, rel)
            if got == exp:
                r.ok(inst, where, "%s" % got)
            else:
                r.finding(inst + "|wrong", where, "returns %s where `a < b` is %s: a subrange with these bounds is %s" % (got, exp, "accepted although empty/inverted" if got else "rejected although valid"))
    # and the rule uses it on (start, end)
    vs = [x for x in ctx.prog.bodies.values() if x.f["crate"] == "ironplc_analyzer" and norm(x.id).endswith("::visit_subrange") and "rule_decl_subrange_limits" in norm(x.id)]
    ok = False
    for v in vs:
        for c in v.calls():
            if c.callee == norm(b.id) and len(c.args) == 2:
                ra, rb = v.root(op_place(c.args[0])), v.root(op_place(c.args[1]))
                fa = [x[2] for x in ra[1] if isinstance(x, list) and x[0] == "f"]
                fb = [x[2] for x in rb[1] if isinstance(x, list) and x[0] == "f"]
                ok = fa == ["start"] and fb == ["end"]
    if ok:
        r.ok("visit_subrange|helper(start, end)", where)
    else:
        r.finding("visit_subrange|arguments", where, "visit_subrange does not call the helper as (node.start, node.end)")
