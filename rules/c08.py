"""C08 — Letter case, layout and comments never change what a program means (DESIGN.md §3 C08)."""
import re
from vlib.mir import norm, loc_str, op_place, loc_macro

TOK = "ironplc_parser::token::TokenType"
ID = "ironplc_dsl::core::Id"

# regex tokens whose upper-case-only letters are required by the standard itself
REGEX_CASE_EXEMPT = {
    "HexDigits": "IEC 61131-3 B.1.2.1: hex_digit ::= digit | 'A'..'F' (upper case only); the '16#' prefix has no letters",
}


def parse_attr(at):
    """('token'|'regex', literal, ignore_case, raw) or None"""
    m = re.match(r'#\[(token|regex)\(\s*(r?)"((?:[^"\\]|\\.)*)"\s*(.*)\)\]$', at, re.S)
    if not m:
        return None
    kind, raw, lit, rest = m.group(1), m.group(2), m.group(3), m.group(4)
    if not raw:
        lit = lit.encode().decode("unicode_escape")
    ic = bool(re.search(r"ignore\s*\(\s*(ascii_)?case\s*\)", rest))
    return kind, lit, ic, bool(raw)


def regex_cased_letters(pat):
    """letters of a regex that match only one case: literal letters outside classes, and class members whose
    other-case twin is not in the same class. Escapes (\\d, \\r, ...) are skipped."""
    out = []
    i, n = 0, len(pat)
    while i < n:
        ch = pat[i]
        if ch == "\\":
            i += 2
            continue
        if ch == "(" and pat.startswith("(?", i):
            # group flags like (?: or (?i)
            j = i + 2
            while j < n and pat[j] not in ":)":
                j += 1
            i = j + 1
            continue
        if ch == "[":
            j = i + 1
            if j < n and pat[j] == "^":
                j += 1
            members = set()
            first = True
            while j < n and (pat[j] != "]" or first):
                first = False
                c = pat[j]
                if c == "\\":
                    j += 2
                    continue
                if j + 2 < n and pat[j + 1] == "-" and pat[j + 2] != "]":
                    lo, hi = ord(c), ord(pat[j + 2])
                    for o in range(lo, hi + 1):
                        members.add(chr(o))
                    j += 3
                    continue
                members.add(c)
                j += 1
            for c in sorted(members):
                if c.isalpha() and c.swapcase() not in members:
                    out.append(c)
            i = j + 1
            continue
        if ch.isalpha():
            out.append(ch)
        i += 1
    return out


def rule_tok(ctx, rep):
    r = rep.rule("R-C08-tok", "every #[token] literal containing a letter, and every #[regex] with letters matched in one case only, "
                              "carries ignore(case)", floor=95, floor_what="lettered token attributes")
    a = ctx.facts.astattrs.get(TOK)
    adt = ctx.facts.adts.get(TOK)
    if not a or not adt:
        rep.error("R-C08-tok", "enum TokenType not found")
        return
    lines = {v["name"]: v["line"] for v in adt["variants"]}
    total = 0
    for vname, v in a["variants"].items():
        for at in v["attrs"]:
            p = parse_attr(at)
            if p is None:
                if at.startswith(("#[token", "#[regex")):
                    rep.error("R-C08-tok", "cannot parse attribute %s on %s" % (at, vname))
                continue
            total += 1
            kind, lit, ic, raw = p
            where = "%s:%d" % (adt["file"], lines.get(vname, adt["line"]))
            if kind == "token":
                if not any(c.isalpha() for c in lit):
                    continue
                inst = "TokenType::%s|token %s" % (vname, lit)
                if ic:
                    r.ok(inst, where)
                else:
                    r.finding(inst, where, "keyword token %r is matched case-sensitively (no ignore(case))" % lit)
            else:
                cased = regex_cased_letters(lit)
                if not cased:
                    continue
                inst = "TokenType::%s|regex %s" % (vname, lit)
                if ic:
                    r.ok(inst, where)
                elif vname in REGEX_CASE_EXEMPT:
                    r.justified(inst, REGEX_CASE_EXEMPT[vname], where)
                else:
                    r.finding(inst, where, "regex token matches the letters %s in one case only and has no ignore(case)" % "".join(sorted(set(cased))))
    r.note("%d token/regex attributes examined on %d variants" % (total, len(a["variants"])))
    if total < 135:
        rep.error("R-C08-tok", "only %d token attributes seen (< 135 counted by hand)" % total)


STR_EQ = ("core::cmp::impls::eq", "core::cmp::impls::ne", "core::str::traits::eq", "core::str::traits::ne")


def is_str_eq(c):
    n = c.callee or ""
    ga = c.ga or ""
    if n in STR_EQ and "str" in ga:
        return True
    if ("alloc::string::String as core::cmp::PartialEq" in n or "<str as core::cmp::PartialEq" in n) and n.endswith(("::eq", "::ne")):
        return True
    # membership / prefix tests are byte-wise comparisons too (`NAMES.contains(&t.text.as_str())`, `text.starts_with("..")`)
    if n.split("::")[-1] in ("contains", "starts_with", "ends_with", "binary_search", "contains_key", "strip_prefix", "strip_suffix") and "str" in ga \
            and re.search(r"slice|core::str|alloc::str|HashSet|BTreeSet|HashMap|BTreeMap", n):
        return True
    return False


def derives_from_token_text(b, op, depth=5):
    p = op_place(op)
    if p is None:
        return False
    rt = b.root(p)
    for x in rt[1]:
        if isinstance(x, list) and x[0] == "f" and x[2] == "text" and x[3] == "ironplc_parser::token::Token":
            return True
    if depth and not [x for x in rt[1] if x != "*"]:
        d = b.single_def(rt[0])
        if d and d[0] == "call" and d[2].args and (d[2].callee or "").split("::")[-1] in ("as_str", "deref", "as_ref", "borrow", "clone", "to_string", "to_owned"):
            return derives_from_token_text(b, d[2].args[0], depth - 1)
    return False


def rule_text(ctx, rep):
    r = rep.rule("R-C08-text", "inside the grammar, token text is never compared with a byte-wise string equality (keywords recognised by "
                               "text must use eq_ignore_ascii_case / lower-cased operands)", floor=3, floor_what="text comparisons in grammar functions")
    n = 0
    counts = {}
    for b in sorted(ctx.prog.bodies.values(), key=lambda x: x.id):
        if b.f["crate"] != "ironplc_parser" or "::parser::" not in norm(b.id):
            continue
        for c in sorted(b.calls(), key=lambda c: (c.loc[0], c.loc[1])):
            cmp_ci = (c.callee or "").endswith("eq_ignore_ascii_case")
            if not (is_str_eq(c) or cmp_ci):
                continue
            if not any(derives_from_token_text(b, a) for a in c.args):
                continue
            n += 1
            fn = norm(b.id).replace("ironplc_parser::parser::plc_parser::__parse_", "rule ")
            k = counts[fn] = counts.get(fn, 0) + 1
            inst = "%s|text-compare#%d" % (fn, k)
            if cmp_ci:
                r.ok(inst, loc_str(b.f, c.loc))
            else:
                r.finding(inst, loc_str(b.f, c.loc), "Token.text compared with case-sensitive string equality")


def rule_id(ctx, rep):
    r = rep.rule("R-C08-id", "Id equality/hash (and any ordering) read only the lower-cased spelling; Id::from derives lower_case by to_lowercase "
                             "of the same text; Id.original is read only by clone/debug/display/fold and the renderer", floor=8)
    for tr, meth in (("core::cmp::PartialEq", "eq"), ("core::hash::Hash", "hash")):
        bs = [b for b in ctx.prog.bodies.values() if (b.f.get("impl") or {}).get("self") == ID and (b.f.get("impl") or {}).get("trait_def") == tr and b.f["name"] == meth]
        inst = "Id|%s::%s" % (tr.split("::")[-1], meth)
        if not bs:
            r.finding(inst + "|missing", None, "impl not found")
            continue
        b = bs[0]
        flds = set()
        for _, k, p in b.place_uses():
            for x in p[1]:
                if isinstance(x, list) and x[0] == "f" and x[3] == ID:
                    flds.add(x[2])
        where = "%s:%d" % (b.f["file"], b.f["line"])
        if flds == {"lower_case"}:
            r.ok(inst, where)
        else:
            r.finding(inst, where, "reads fields %s of Id (must be exactly lower_case)" % sorted(flds))
    # Type compares by its Id
    for tr in ("core::cmp::PartialEq", "core::hash::Hash"):
        bs = [b for b in ctx.prog.bodies.values() if (b.f.get("impl") or {}).get("self") == "ironplc_dsl::common::Type" and (b.f.get("impl") or {}).get("trait_def") == tr]
        inst = "Type|" + tr.split("::")[-1]
        if bs and bs[0].f.get("exp"):
            r.ok(inst, "%s:%d" % (bs[0].f["file"], bs[0].f["line"]), "derived (field-wise on name: Id)")
        elif bs:
            flds = {x[2] for _, k, p in bs[0].place_uses() for x in p[1] if isinstance(x, list) and x[0] == "f" and x[3] == "ironplc_dsl::common::Type"}
            if flds <= {"name"}:
                r.ok(inst, "%s:%d" % (bs[0].f["file"], bs[0].f["line"]))
            else:
                r.finding(inst, "%s:%d" % (bs[0].f["file"], bs[0].f["line"]), "hand-written impl reading %s" % sorted(flds))
        else:
            r.finding(inst + "|missing", None, "impl not found")
    # Id::from
    fb = ctx.prog.get(ID + "::from")
    if fb:
        b = fb[0]
        ok = False
        for i, j, s in b.all_stmts():
            if s[0] == "=" and s[2][0] == "agg" and s[2][1].get("adt") == ID:
                ops = dict(zip(s[2][1]["fields"], s[2][2]))
                lp = op_place(ops["lower_case"])
                d = b.single_def(lp[0]) if lp else None
                if d and d[0] == "call" and d[2].callee == "alloc::str::to_lowercase":
                    ok = True
        if ok:
            r.ok("Id::from|lower_case=to_lowercase(text)", "%s:%d" % (b.f["file"], b.f["line"]))
        else:
            r.finding("Id::from|lower_case", "%s:%d" % (b.f["file"], b.f["line"]), "lower_case is not produced by to_lowercase")
    else:
        rep.error("R-C08-id", "Id::from not found")
    # every other constructor of Id
    for b in ctx.prog.bodies.values():
        if b.f["crate"] not in ("ironplc_dsl", "ironplc_parser", "ironplc_analyzer", "ironplc_plc2plc", "ironplcc"):
            continue
        for i, j, s in b.all_stmts():
            if s[0] == "=" and s[2][0] == "agg" and s[2][1].get("adt") == ID and norm(b.id) not in (ID + "::from", ID + "::recurse_fold"):
                r.finding("%s|constructs Id" % norm(b.id), loc_str(b.f, s[3]), "Id built outside Id::from (lower_case may disagree with original)")
    # who reads the original spelling
    ALLOWED = {ID + "::original", ID + "::recurse_fold", "<%s as core::clone::Clone>::clone" % ID, "<%s as core::fmt::Debug>::fmt" % ID,
               "<%s as core::fmt::Display>::fmt" % ID}
    seen = set()
    for b in ctx.prog.bodies.values():
        if b.f["crate"] not in ("ironplc_dsl", "ironplc_parser", "ironplc_analyzer", "ironplc_plc2plc", "ironplcc"):
            continue
        fn = norm(b.id)
        reads = False
        for _, k, p in b.place_uses():
            if k == "write":
                continue
            for x in p[1]:
                if isinstance(x, list) and x[0] == "f" and x[3] == ID and x[2] == "original":
                    reads = True
        calls = any(c.callee == ID + "::original" for c in b.calls())
        if not (reads or calls):
            continue
        if fn in seen:
            continue
        seen.add(fn)
        inst = "reads Id.original|%s" % fn
        where = "%s:%d" % (b.f["file"], b.f["line"])
        if fn in ALLOWED and reads:
            r.ok(inst, where)
        elif calls and b.f["crate"] == "ironplc_plc2plc":
            r.ok(inst, where, "renderer prints the original spelling")
        elif fn == ID + "::from":
            r.ok(inst, where)
        else:
            r.finding(inst, where, "the original (case-preserving) spelling of an identifier is read outside clone/debug/display/fold/renderer: "
                                   "behaviour may depend on letter case")


def rule_nametext(ctx, rep, rid="R-C08-nametext"):
    """`name.to_string()` is the spelling as written (Display prints Id.original).  In the analyzer that text is for people: it goes into the
    context of a diagnostic.  Anything else done with it - a sort key, a comparison, a table key, a value handed back to a caller - makes a
    decision depend on letter case (`(RUN, idle, run)` sorted by spelling puts `idle` between the two spellings of one name)."""
    r = rep.rule(rid, "in the analyzer the display text of a name (to_string of an Id, Type or VariableIdentifier) is only handed to diagnostic context "
                      "(with_context*): it is no sort key, no comparison operand, no table key and no result", floor=3, floor_what="name-to-text conversions in the analyzer")
    NAMES = ("ironplc_dsl::core::Id", "ironplc_dsl::common::Type", "ironplc_dsl::common::VariableIdentifier")
    PASS = {"as_str", "deref", "borrow", "as_ref", "clone", "to_owned", "into", "to_string", "as_mut_str"}
    SINK = {"with_context", "with_context_id", "with_context_type", "problem", "span", "with_secondary", "new_display", "new_debug", "trace", "debug", "info", "warn", "error", "log"}
    n = 0
    for b in sorted(ctx.prog.bodies.values(), key=lambda x: x.id):
        if b.f["crate"] != "ironplc_analyzer" or "::test" in norm(b.id) or b.f.get("exp"):
            continue
        k = 0
        for c in sorted(b.calls(), key=lambda c: (c.loc[0], c.loc[1])):
            if not ((c.callee or c.u or "").endswith("ToString>::to_string") or (c.u or "") == "alloc::string::ToString::to_string"):
                continue
            ga = re.sub(r"[\[\]&\s]|'\{?\w+\}?", "", c.ga or "")
            if ga not in NAMES:
                continue
            n += 1
            k += 1
            fn = norm(b.id).replace("ironplc_analyzer::", "")
            inst = "%s|to_string of %s#%d" % (fn, ga.split("::")[-1], k)
            bad = []
            work, seen = [c.dest[0]], set()
            while work:
                l = work.pop()
                if l in seen:
                    continue
                seen.add(l)
                if l == 0:
                    bad.append("returned (to a caller that decides with it: a sort key, a map)")
                    continue
                for i_, j_, st in b.all_stmts():
                    if st[0] == "=" and not st[1][1] and st[2][0] in ("use", "ref", "cast"):
                        src = op_place(st[2][1]) if st[2][0] == "use" else (st[2][2] if st[2][0] == "ref" else op_place(st[2][2]))
                        if src is not None and src[0] == l:
                            work.append(st[1][0])
                    elif st[0] == "=" and st[2][0] == "agg" and any(op_place(o) is not None and op_place(o)[0] == l for o in st[2][2]):
                        if isinstance(st[2][1], dict) and st[2][1].get("k") in ("tuple", "array"):
                            work.append(st[1][0])       # the argument pack of format_args!
                        else:
                            bad.append("stored in %s" % (st[2][1].get("adt") or st[2][1].get("k") if isinstance(st[2][1], dict) else "a value"))
                for c2 in b.calls():
                    if not any(op_place(a) is not None and op_place(a)[0] == l for a in c2.args):
                        continue
                    nm = (c2.callee or c2.u or "?").split("::")[-1]
                    if nm in SINK or "fmt::Arguments" in (c2.callee or "") or "fmt::rt::Argument" in (c2.callee or "") or (c2.callee or "").startswith("log::"):
                        if nm in ("new_display", "new_debug") or "Arguments" in (c2.callee or ""):
                            work.append(c2.dest[0])     # formatted into a message: follow the message
                        continue
                    if nm in PASS or nm in ("format", "must_use"):
                        work.append(c2.dest[0])
                        continue
                    bad.append("handed to %s" % nm)
            if bad:
                r.finding(inst + "|" + bad[0].split(" (")[0].replace(" ", "-"), loc_str(b.f, c.loc), "the spelling of a name as written is %s: identifiers that differ in letter case only are "
                          "told apart there" % "; ".join(sorted(set(bad))))
            else:
                r.ok(inst, loc_str(b.f, c.loc), "only into the context of a diagnostic")


KEY_RX = re.compile(r"(HashMap|HashSet|BTreeMap|BTreeSet|SymbolTable|Scope|IndexMap|IndexSet)<")
ALLOWED_KEYS = {"ironplc_dsl::core::Id", "ironplc_dsl::common::Type", "&ironplc_dsl::core::Id", "&ironplc_dsl::common::Type",
                "petgraph::graph_impl::NodeIndex", "petgraph::graph_impl::NodeIndex<u32>", "ironplc_dsl::core::FileId", "&ironplc_dsl::core::FileId",
                "K", "&K"}


def key_types(ty):
    out = []
    for m in KEY_RX.finditer(ty):
        i = m.end()
        # skip lifetime parameters
        while True:
            mm = re.match(r"\s*'[A-Za-z_{}]+\s*,?\s*", ty[i:])
            if not mm:
                break
            i += mm.end()
        depth, j = 0, i
        while j < len(ty):
            ch = ty[j]
            if ch in "<(":
                depth += 1
            elif ch in ">)":
                if depth == 0:
                    break
                depth -= 1
            elif ch == "," and depth == 0:
                break
            j += 1
        k = ty[i:j].strip()
        if k:
            out.append((m.group(1), k))
    return out


def rule_keys(ctx, rep, rid="R-C08-keys", files=None, floor=15, what="every name table in parser and analyzer"):
    r = rep.rule(rid, what + " is keyed by Id/Type (case-insensitive) - never by String/&str",
                 floor=floor, floor_what="distinct table instantiations")
    seen = {}
    for b in ctx.prog.bodies.values():
        if b.f["crate"] not in ("ironplc_analyzer", "ironplc_parser"):
            continue
        if files and not any(x in b.f["file"] for x in files):
            continue
        for ty, _ in b.f["locals"]:
            for cont, k in key_types(ty):
                k2 = re.sub(r"&'\S+ ", "&", k)
                seen.setdefault((cont, k2), "%s:%d (%s)" % (b.f["file"], b.f["line"], norm(b.id).split("::")[-1]))
    for a in ctx.facts.adts.values():
        if a["crate"] in ("ironplc_analyzer", "ironplc_parser") and (not files or any(x in a["file"] for x in files)):
            for v in a["variants"]:
                for fl in v["fields"]:
                    for cont, k in key_types(fl["ty"]):
                        k2 = re.sub(r"&'\S+ ", "&", k)
                        seen.setdefault((cont, k2, a["id"].split("::")[-1] + "." + fl["name"]), "%s:%d" % (a["file"], a["line"]))
    for key, where in sorted(seen.items()):
        k = key[1]
        inst = "%s<%s>%s" % (key[0], k, ("@" + key[2]) if len(key) > 2 else "")
        if k in ALLOWED_KEYS or k.startswith("petgraph::graph_impl::NodeIndex"):
            r.ok(inst, where)
        elif re.fullmatch(r"(?:usize|isize|[iu](?:8|16|32|64|128))", k):
            r.ok(inst, where, "keyed by a number (a position or an index): no spelling involved")
        else:
            r.finding(inst, where, "table keyed by %s: lookups become sensitive to the spelling of identifiers" % k)
    # a number is a fine key when it is a position or an index; a *digest* of the contents is not: two different contents with the same digest
    # become one entry (a cache keyed by a hash of the graph answers for another graph)
    from vlib.numflow import sources_of
    TABLE = re.compile(r"(?:HashMap|BTreeMap|HashSet|BTreeSet|IndexMap)(?:<[^>]*>)?::(get|get_mut|insert|contains_key|contains|entry|remove|get_or_insert_with)$")
    kd = 0
    for b in sorted(ctx.prog.bodies.values(), key=lambda x: x.id):
        if b.f["crate"] not in ("ironplc_analyzer", "ironplc_parser") or "::test" in norm(b.id):
            continue
        if not files or not any(x in b.f["file"] for x in files):
            continue        # (not a matter of spelling: decided where the rule is used for a table's identity - C02, C06, C07 - not for C08)
        for c in sorted(b.calls(), key=lambda c: (c.loc[0], c.loc[1])):
            if not c.callee or not TABLE.search(c.callee) or len(c.args) < 2:
                continue
            k0 = re.sub(r"\s", "", (c.ga or "").strip("[]")).split(",")[0]
            if not re.fullmatch(r"(?:usize|isize|[iu](?:8|16|32|64|128))", k0):
                continue
            src = sources_of(ctx.prog, b, c.args[1])
            dg = sorted({x[1] for x in src if x[0] == "call" and re.search(r"Hasher(?:>)?::finish|BuildHasher(?:>)?::hash_one|::finish$", x[1])})
            if dg:
                kd += 1
                r.finding("%s|%s keyed by a digest#%d" % (norm(b.id).split("::")[-1], c.callee.split("::")[-1], kd), loc_str(b.f, c.loc),
                          "the key of this table is a hash of the contents (%s): different contents with the same hash share an entry" % ", ".join(d.split("::")[-1] for d in dg))
    # phf keyword/stdlib sets must be queried with the lower-cased spelling
    for b in ([] if files else ctx.prog.bodies.values()):
        if b.f["crate"] not in ("ironplc_analyzer", "ironplc_parser"):
            continue
        for c in b.calls():
            if c.callee == "phf::set::Set::contains":
                p = op_place(c.args[1])
                ok = False
                cur = p
                for _ in range(5):
                    if cur is None:
                        break
                    rt = b.root(cur)
                    d = b.single_def(rt[0])
                    if d and d[0] == "call":
                        if d[2].callee in (ID + "::lower_case", "alloc::str::to_lowercase", "core::str::to_ascii_lowercase"):
                            ok = True
                            break
                        cur = op_place(d[2].args[0]) if d[2].args else None
                    else:
                        break
                inst = "%s|phf::Set::contains" % norm(b.id)
                if ok:
                    r.ok(inst, loc_str(b.f, c.loc))
                else:
                    r.finding(inst, loc_str(b.f, c.loc), "static name set queried with a spelling that is not lower-cased")


RAW_EXEMPT = {
    "(*@KEY@:DESCRIPTION*)": "OSCAT marker comment: a fixed byte sequence by that library's convention, not an IEC keyword",
    "(*@KEY@:END_DESCRIPTION*)": "OSCAT marker comment: a fixed byte sequence by that library's convention, not an IEC keyword",
}


def rule_everyblock(ctx, rep, rid="R-C08-everyblock"):
    """A text-rewriting step of the pre-processor finds its region by searching for a marker.  A file holds as many such regions as it has
    elements (OSCAT writes one description block per function block): a search that runs once rewrites the first region and leaves the
    others as source text - one file with two blocks is a syntax error where the same two elements in two files check OK.  So in the
    functions of parser::preprocessor every search for a constant marker (find / rfind with a constant needle) lies on a cycle of the
    control-flow graph (it is repeated until nothing is found), or the function uses a whole-text operation (match_indices, split, replace)."""
    r = rep.rule(rid, "every marker search of a pre-processing step is repeated until nothing is found (the search lies in a loop, or a whole-text operation is used): "
                      "every marked region of a file is rewritten, not only the first", floor=1, floor_what="marker searches in parser::preprocessor")
    n = 0
    for b in sorted(ctx.prog.bodies.values(), key=lambda x: x.id):
        if b.f["crate"] != "ironplc_parser" or "::preprocessor::" not in norm(b.id) or "::test" in norm(b.id):
            continue
        whole = [c for c in b.calls() if (c.callee or c.u or "").split("::")[-1] in ("match_indices", "rmatch_indices", "split", "replace", "replacen", "split_inclusive")]
        k = 0
        for c in sorted(b.calls(), key=lambda c: (c.loc[0], c.loc[1])):
            if (c.callee or c.u or "").split("::")[-1] not in ("find", "rfind") or len(c.args) < 2 or "str" not in (c.callee or ""):
                continue
            needle = b.const_str(c.args[1])
            if needle is None:
                # a needle kept in a variable (`let start_key = "..";`)
                p_ = op_place(c.args[1])
                d_ = b.single_def(b.root(p_)[0]) if p_ is not None else None
                if d_ and d_[0] == "stmt" and d_[3][0] == "use":
                    needle = b.const_str(d_[3][1])
            if needle is None:
                continue
            n += 1
            k += 1
            inst = "%s|find %r#%d" % (norm(b.id).split("::")[-1], needle[:30], k)
            in_loop = c.bb in {x for s_ in b.succ(c.bb) for x in b.reachable(s_)}
            if in_loop or whole:
                r.ok(inst, loc_str(b.f, c.loc), "repeated until nothing is found" if in_loop else "whole-text operation")
            else:
                r.finding(inst + "|searched-once", loc_str(b.f, c.loc), "the marker is searched for once: only the first marked region of a file is rewritten, the next one is read as source text "
                          "(two OSCAT description blocks in one file are a syntax error; the same elements in two files are fine)")
    if not n:
        rep.error(rid, "no marker search found in parser::preprocessor (anchor moved)")


def rule_rawtext(ctx, rep, rid="R-C08-rawtext"):
    """Keywords are case-insensitive because the *lexer* says so.  Code that looks for a keyword in text by itself - `source.contains("END_IF")`,
    `text.starts_with("VAR")` - bypasses the lexer and is case-sensitive (and blind to comments and strings).  Every search of a constant
    with letters in the parser crate's hand-written, non-grammar code is listed."""
    r = rep.rule(rid, "no hand-written parser code searches text for a lettered constant (a case-sensitive keyword test that bypasses the lexer); "
                      "the OSCAT marker comments are the listed exemption", floor=2, floor_what="text searches with constant patterns in the parser crate")
    SEARCH = {"contains", "find", "rfind", "starts_with", "ends_with", "matches", "rmatches", "match_indices", "split", "rsplit", "split_once", "rsplit_once",
              "strip_prefix", "strip_suffix", "eq", "ne", "trim_start_matches", "trim_end_matches", "replace", "replacen", "split_terminator", "splitn"}
    n = 0
    for b in sorted(ctx.prog.bodies.values(), key=lambda x: x.id):
        fn = norm(b.id)
        if b.f["crate"] != "ironplc_parser" or "::plc_parser::" in fn or "::test" in fn or " as logos::Logos" in fn or b.f.get("exp"):
            continue
        m0 = None
        for c in sorted(b.calls(), key=lambda c: (c.loc[0], c.loc[1])):
            nm = (c.callee or c.u or "").split("::")[-1]
            if nm not in SEARCH or not ("str" in (c.callee or "") or "String" in (c.callee or "") or "PartialEq" in (c.u or "")):
                continue
            from vlib.mir import loc_macro
            mm = loc_macro(c.loc)
            if mm and (str(mm[0]).startswith("Derive:") or mm[0] in ("Bang:parser",)):
                continue
            for a in c.args[1:2]:          # the pattern (not the replacement text of replace())
                k = b.const_str(a)
                if k is None:
                    continue
                n += 1
                inst = "%s|%s(%r)" % (fn.replace("ironplc_parser::", ""), nm, k[:40])
                where = loc_str(b.f, c.loc)
                if not re.search(r"[A-Za-z]", k):
                    r.ok(inst, where, "no letters")
                elif k in RAW_EXEMPT:
                    r.justified(inst, RAW_EXEMPT[k], where)
                else:
                    r.finding(inst + "|lettered-constant", where, "text is searched for the constant %r with a byte-wise comparison: the same word in another letter case "
                              "(and the word inside a comment or string) is treated differently from what the lexer would say" % k)
    r.note("%d constant patterns" % n)


def rule_prestep(ctx, rep, rid="R-C08-prestep"):
    """Whatever rewrites the raw source before the lexer runs cannot tell code from the contents of strings and comments.  The steps of
    `preprocess` are an inventory: today one (the OSCAT description blanking, decided by R-C05-blank); any other step is reported."""
    r = rep.rule(rid, "preprocess() applies exactly the listed text rewriting steps before lexing (today: remove_oscat_comment); a new step is reported for triage",
                 floor=1, floor_what="preprocessing steps")
    KNOWN_STEPS = {"ironplc_parser::preprocessor::remove_oscat_comment": "blanks one OSCAT description region byte for byte (R-C05-blank)"}
    pb = ctx.prog.get("ironplc_parser::preprocessor::preprocess")
    if not pb:
        rep.error(rid, "preprocessor::preprocess not found")
        return
    b = pb[0]
    for c in sorted(b.calls(), key=lambda c: (c.loc[0], c.loc[1])):
        tg = [t for t in (ctx.prog.get(c.callee) if c.callee else []) if t.f["crate"] == "ironplc_parser"]
        for t in tg:
            inst = "preprocess|step %s" % norm(t.id).split("::")[-1]
            if norm(t.id) in KNOWN_STEPS:
                r.ok(inst, loc_str(b.f, c.loc), KNOWN_STEPS[norm(t.id)])
            else:
                r.finding(inst + "|unlisted", loc_str(b.f, c.loc), "a new step rewrites the raw source text before lexing: it acts on the contents of string literals and comments as "
                          "well as on code (characters of a literal can change, a brace in a comment can pair with one in a later comment)")
    edits = sorted({(c.callee or "").split("::")[-1] for c in b.calls() if (c.callee or "").split("::")[-1] in
                    ("replace", "replacen", "retain", "to_uppercase", "to_lowercase", "trim", "lines", "split", "chars")})
    if edits:
        r.finding("preprocess|inline-rewrite:" + ",".join(edits), "%s:%d" % (b.f["file"], b.f["line"]), "preprocess itself rewrites the text (%s)" % ", ".join(edits))


def rule_pipe(ctx, rep):
    r = rep.rule("R-C08-pipe", "tokenize_program = preprocess -> tokenize -> insert_keyword_statement_terminators (in that order, each fed by the "
                               "previous result) and parse_program parses exactly that token vector", floor=4, floor_what="pipeline links")
    tb = ctx.prog.get("ironplc_parser::tokenize_program")
    pb = ctx.prog.get("ironplc_parser::parse_program")
    if not tb or not pb:
        rep.error("R-C08-pipe", "tokenize_program/parse_program not found")
        return
    b = tb[0]
    names = ["ironplc_parser::preprocessor::preprocess", "ironplc_parser::lexer::tokenize", "ironplc_parser::xform_tokens::insert_keyword_statement_terminators"]
    calls = []
    for n in names:
        cs = [c for c in b.calls() if c.callee == n]
        if len(cs) != 1:
            r.finding("tokenize_program|%s|calls=%d" % (n.split("::")[-1], len(cs)), "%s:%d" % (b.f["file"], b.f["line"]), "stage not called exactly once")
            return
        calls.append(cs[0])
    where = "%s:%d" % (b.f["file"], b.f["line"])

    def feeds(src, dst, argi):
        """result of call src (possibly a tuple component / deref) is argument argi of call dst"""
        p = op_place(dst.args[argi])
        cur = p
        for _ in range(6):
            if cur is None:
                return False
            rt = b.root(cur)
            if rt[0] == src.dest[0]:
                return True
            d = b.single_def(rt[0])
            if d and d[0] == "call" and d[2].args:
                if d[2] is src or d[2].bb == src.bb:
                    return True
                cur = op_place(d[2].args[0])
            elif d and d[0] == "stmt" and d[3][0] == "use" and d[3][1][0] in ("cp", "mv"):
                cur = d[3][1][1]
            else:
                return False
        return False

    for (s, d, ai, lab) in ((calls[0], calls[1], 0, "preprocess->tokenize"), (calls[1], calls[2], 0, "tokenize->insert_terminators")):
        if feeds(s, d, ai) and b.dominators().get(d.bb) and s.bb in b.dominators()[d.bb]:
            r.ok("tokenize_program|" + lab, where)
        else:
            r.finding("tokenize_program|" + lab, where, "stage is not fed by the previous stage's result")
    # returned token vector is the terminator-inserted one
    ret_ok = False
    for i, j, s in b.all_stmts():
        if s[0] == "=" and s[1] == [0, []] and s[2][0] == "agg" and s[2][1].get("k") == "tuple":
            p = op_place(s[2][2][0])
            if p is not None and b.root(p)[0] == calls[2].dest[0]:
                ret_ok = True
    if ret_ok:
        r.ok("tokenize_program|returns terminated tokens", where)
    else:
        r.finding("tokenize_program|return", where, "the returned token vector is not the output of insert_keyword_statement_terminators")
    b2 = pb[0]
    tk = [c for c in b2.calls() if c.callee == "ironplc_parser::tokenize_program"]
    pl = [c for c in b2.calls() if c.callee == "ironplc_parser::parser::parse_library"]
    ok = False
    if len(tk) == 1 and len(pl) == 1:
        p = op_place(pl[0].args[0])
        if p is not None:
            rt = b2.root(p)
            flds = [x[2] for x in rt[1] if isinstance(x, list) and x[0] == "f"]
            ok = rt[0] == tk[0].dest[0] and flds == ["0"]
    if ok:
        r.ok("parse_program|parses tokenize_program().0", "%s:%d" % (b2.f["file"], b2.f["line"]))
    else:
        r.finding("parse_program|token source", "%s:%d" % (b2.f["file"], b2.f["line"]), "parse_library is not called on the token vector returned by tokenize_program")


def rule_commenttext(ctx, rep, rid="R-C08-commenttext"):
    """Comments never matter: what is written *inside* a comment must not reach any decision.  A function of the parser that tells comment
    tokens from other tokens (it compares a token type with TokenType::Comment) may look at a token's text only to see which kind of
    comment it is - `starts_with` a constant opener.  Every other use of Token.text there (another str method, handing the text to a
    function) lets the content of a comment decide something."""
    from vlib import units
    TT = "ironplc_parser::token::TokenType"
    r = rep.rule(rid, "a parser function that singles out comment tokens reads Token.text only through starts_with(<constant opener>): the content of a comment decides nothing",
                 floor=1, floor_what="functions that compare a token type with Comment and read the token text")
    OPENERS = {"//", "(*"}
    n = 0
    for b in sorted(ctx.prog.bodies.values(), key=lambda x: x.id):
        if b.f["crate"] != "ironplc_parser" or "::test" in norm(b.id) or "::__parse_" in norm(b.id) or b.f.get("exp"):
            continue
        unit = [b] + [cb for cb in ctx.prog.bodies.values() if cb.f.get("parent") == b.id]
        # does the unit compare with TokenType::Comment ?
        cmp_comment = False
        for bd in unit:
            for i, where, o in bd.operands():
                if o[0] == "c" and len(o) > 3 and isinstance(o[3], dict) and o[3].get("variant") == "Comment" and o[1] == TT:
                    cmp_comment = True
            for pl in bd.f.get("promoted", []):
                for o in pl:
                    if len(o) > 3 and isinstance(o[3], dict) and o[3].get("variant") == "Comment":
                        cmp_comment = True
        if not cmp_comment or b.f["dk"] == "Closure":
            continue
        fn = norm(b.id).replace("ironplc_parser::", "")
        reads = 0
        bad = []
        for bd in unit:
            # locals that hold (references to) the text of a token
            seeds = set()
            for i, j, st in bd.all_stmts():
                if st[0] == "=" and st[2][0] in ("ref", "use") :
                    pl = st[2][2] if st[2][0] == "ref" else op_place(st[2][1])
                    if pl is None:
                        continue
                    rt = bd.root(pl)
                    if any(isinstance(x, list) and x[0] == "f" and x[2] == "text" and (x[3] or "").endswith("token::Token") for x in rt[1]):
                        seeds.add(st[1][0])
            if not seeds:
                continue
            reads += 1
            taint = units.forward(bd, seeds)
            for c in bd.calls():
                args = [op_place(a) for a in c.args]
                if not any(p is not None and p[0] in taint for p in args):
                    continue
                nm = c.callee or c.u or ""
                last = nm.split("::")[-1]
                if last in ("deref", "as_str", "as_ref", "borrow", "clone", "eq", "ne"):
                    continue
                if last == "starts_with" and len(c.args) > 1 and bd.const_str(c.args[1]) in OPENERS:
                    continue
                bad.append((bd, c, nm))
        if not reads:
            continue
        n += 1
        if bad:
            k = 0
            for bd, c, nm in bad:
                k += 1
                r.finding("%s|text of a token -> %s#%d" % (fn, nm.split("::")[-1], k), loc_str(bd.f, c.loc),
                          "a function that singles out comments examines the text of a token with %s: what is written inside a comment can change the result" % nm)
        else:
            r.ok(fn, "%s:%d" % (b.f["file"], b.f["line"]), "only the opener is looked at")


def run(ctx, rep):
    rep.not_decided += ["equality of parsed libraries and verdicts under respelling (value-level)",
                        "correctness of the END_IF terminator insertion state machine (observation in DESIGN.md section 4)"]
    rep.assumptions += ["logos implements ignore(case) as ASCII case-insensitivity", "str::to_lowercase is the case folding used for identifiers"]
    rule_tok(ctx, rep)
    rule_text(ctx, rep)
    rule_id(ctx, rep)
    rule_keys(ctx, rep)
    rule_nametext(ctx, rep)
    rule_everyblock(ctx, rep)
    rule_pipe(ctx, rep)
    rule_rawtext(ctx, rep)
    rule_prestep(ctx, rep)
    rule_commenttext(ctx, rep)
    from rules import c08_trivia, c08_endif
    c08_trivia.run(ctx, rep)
    c08_trivia.run_glue(ctx, rep)
    c08_trivia.run_lookahead(ctx, rep)
    c08_trivia.run_comment(ctx, rep)
    c08_endif.run(ctx, rep)
