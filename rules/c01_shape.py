"""C01 — the tree that is returned is the tree that was written: nothing reordered, nothing re-nested (DESIGN.md §R6).

  R-C01-listorder    nothing in the parser crate changes the order of a list: no sort, reverse, de-duplication, and no passage through a map
                     (BTreeMap/HashMap values come out in key order / hash order, not source order)
  R-C01-restructure  a grammar action that builds a node of type X does not take apart another X (reading the fields of a nested X and
                     splicing them into the node it builds is a tree rewrite: `ELSE IF .. END_IF` folded into `ELSIF`)
"""
import re
from vlib.mir import norm, loc_str, loc_macro

GRAM = "ironplc_parser::parser::plc_parser::"
REORDER = ("sort", "sort_by", "sort_by_key", "sort_by_cached_key", "sort_unstable", "sort_unstable_by", "sort_unstable_by_key", "rev", "reverse", "dedup", "dedup_by",
           "dedup_by_key", "into_values", "values", "values_mut", "into_keys", "keys", "swap", "rotate_left", "rotate_right", "swap_remove", "retain")

# actions that read fields of a value of the type they build, confirmed by reading: one construct each
REWRAP = {
    ("__parse_duration", "DurationLiteral"): "copies the interval of the captured literal and applies the sign and the span of the whole literal (no nested literal exists)",
    ("__parse_real_literal", "RealLiteral"): "multiplies the parsed value by the sign (RealLiteral::try_parse returned it; no nested literal exists)",
    ("__parse_structure_type_declaration__with_constant", "StructureDeclaration"): "moves type_name and elements of the captured declaration into the result unchanged (adds the name that the sub-rule does not know)",
    ("__parse_structure_type_declaration__with_constant", "StructureInitializationDeclaration"): "as for StructureDeclaration",
}


def run_listorder(ctx, rep, rid="R-C01-listorder"):
    r = rep.rule(rid, "the parser never reorders a list: no sort/reverse/dedup and no iteration over a map's values in the parser crate", floor=0, floor_what="order-changing calls")
    n = 0
    for b in sorted(ctx.prog.bodies.values(), key=lambda x: x.id):
        if b.f["crate"] != "ironplc_parser" or "::test" in norm(b.id):
            continue
        k = 0
        for c in sorted(b.calls(), key=lambda c: (c.loc[0], c.loc[1])):
            mm = loc_macro(c.loc)
            if mm and mm[0].startswith(("Derive:", "Attr:")):
                continue
            nm = c.callee or ""
            m = nm.split("::")[-1]
            mapiter = ("IntoIterator" in nm or "IntoIterator" in (c.u or "")) and re.search(r"BTreeMap|HashMap|HashSet|BTreeSet", c.ga or "")
            if (m in REORDER and re.search(r"slice|vec::Vec|BTreeMap|HashMap|Iterator|iter::", nm)) or mapiter:
                n += 1
                k += 1
                fn = norm(b.id).replace(GRAM, "rule ").replace("ironplc_parser::", "")
                r.finding("%s|%s#%d" % (fn, m, k), loc_str(b.f, c.loc), "%s() in the parser: the elements come out in an order other than the order in which they were written%s" % (
                    m, " (a map yields its values by key, not by position)" if (mapiter or "Map" in nm) else ""))
    if not n:
        r.count_override = 1
        r.note("no order-changing call in the parser crate today (zero expected; positive example: seeded/C01-K)")


def run_restructure(ctx, rep, rid="R-C01-restructure"):
    r = rep.rule(rid, "a grammar action that builds a node does not read the fields of another node of the same type (no re-nesting / splicing of a captured sub-tree)",
                 floor=3, floor_what="actions that read a node of the type they build")
    for b in sorted(ctx.prog.bodies.values(), key=lambda x: x.id):
        n = norm(b.id)
        if not n.startswith(GRAM) or b.f["dk"] != "Closure":
            continue
        built = {s[2][1]["adt"] for i, j, s in b.all_stmts() if s[0] == "=" and s[2][0] == "agg" and isinstance(s[2][1], dict) and s[2][1].get("k") == "adt"
                 and s[2][1].get("adt", "").startswith("ironplc_dsl::")}
        read = {}
        for _, k, pl in b.place_uses():
            if k == "write":
                continue
            for x in b.root(pl)[1]:
                if isinstance(x, list) and x[0] == "f" and x[3] in built:
                    read.setdefault(x[3].split("::")[-1], set()).add(x[2])
        rule = n[len(GRAM):].split("::")[0]
        for ty, flds in sorted(read.items()):
            inst = "rule %s|reads %s" % (rule[len("__parse_"):], ty)
            where = "%s:%d" % (b.f["file"], b.f["line"])
            why = REWRAP.get((rule, ty))
            if why:
                r.justified(inst, why, where)
            else:
                r.finding(inst + "|takes apart a nested node", where, "the action builds a %s and reads the fields %s of another %s: a captured sub-tree is spliced into its parent, so the tree returned "
                          "is not the one that was written" % (ty, ", ".join(sorted(flds)), ty))


def run(ctx, rep):
    run_listorder(ctx, rep)
    run_restructure(ctx, rep)
