"""R-C04-backtrack: no exponential re-parsing in the PEG grammar.

rust-peg does not memoise.  When two alternatives of one ordered choice both begin - after the same tokens - by calling the same rule R,
and R can (through that very choice) contain itself, then a text that makes the first alternative fail *after* R has matched is parsed
by R twice at that level, four times one level deeper, 2^d times at nesting depth d.  `x := ((((((((((((1+ ))))))))))));` took 24 s at
depth 12 for 2 KB.  The cure is `#[cache]` on R (or merging the alternatives); the rule decides the condition on the grammar:

  for every choice point (alternatives of a rule, of a group, atoms of a precedence! block), expand each alternative leftmost (through
  trivia, optional elements, nullable rules and non-recursive rule calls) to the pairs (tokens consumed so far, rule entered);
  if two alternatives share a pair with a non-empty token prefix whose rule is *self-embedding through this choice point's rule* and that
  rule is not #[cache]d -> finding.  (With an empty prefix the second alternative is only reached when every sibling inside the first
  fails on the same text, which the shape of the grammar does not tell: those pairs are listed as not decided.)"""
from rules.c08_trivia import Trivia, TRIVIA


def run(ctx, rep, rid="R-C04-backtrack"):
    r = rep.rule(rid, "no two alternatives of an ordered choice enter the same self-embedding rule after the same tokens unless that rule is #[cache]d "
                      "(otherwise a syntax error below it is re-parsed 2^depth times)", floor=80, floor_what="choice points of the grammar")
    g = ctx.peg
    tv = Trivia(g)
    reach_lib = tv.reachable("library")
    calls = {}
    for n, rl in g.rules.items():
        cs = set()

        def f(e, sq, c, cs=cs):
            for p in (e.prim, e.sep):
                if p is not None and p.kind == "call":
                    cs.add(p.name)
        g.walk_elems(rl.expr, f)
        calls[n] = cs
    rmemo = {}

    def below(n):
        if n not in rmemo:
            rmemo[n] = tv.reachable(n)
        return rmemo[n]

    def cached(n):
        return any(a.replace(" ", "") in ("cache", "cache_left_rec") for a in getattr(g.rules[n], "attrs", []))

    def atoms_of(p):
        return [sq for lvl in p.levels for sq in lvl if not any(e.prim.kind in ("at", "prec_at") or (e.prim.kind == "group" and getattr(e.prim, "is_at", False)) for e in sq.elems)]

    def expand(sq, prefix, owner, depth, stack, env):
        """pairs (prefix tokens, rule) entered leftmost by this sequence; rules that can lead back to `owner`"""
        out = set()
        prefixes = {prefix}
        for e in sq.elems:
            if e.look is not None or e.prim.kind in ("position", "empty"):
                continue
            if e.prim.kind == "call" and e.prim.name in TRIVIA:
                continue
            p = e.prim
            optional = e.rep in ("?", "*", "**")
            t = g.terminal(p)
            if t and t[0] in ("tok", "id_eq", "tok_eq", "dt_sep"):
                new = {pf + (t[0] + ":" + t[1],) for pf in prefixes}
                prefixes = (prefixes | new) if optional else new
                if len(next(iter(prefixes))) > 4:
                    break
                continue
            if p.kind == "call":
                if p.name in env or p.name not in g.rules:
                    break
                nm = p.name
                if owner in below(nm):
                    for pf in prefixes:
                        out.add((pf, nm))
                if depth > 0 and nm not in stack:
                    for a in (g.rules[nm].expr.alts if g.rules[nm].expr.kind == "choice" else [g.rules[nm].expr]):
                        for pf in prefixes:
                            out |= expand(a, pf, owner, depth - 1, stack | {nm}, tv.env_of(g.rules[nm]))
                if optional or tv.nullable.get(nm, False):
                    continue
                break
            if p.kind == "group":
                for a in p.expr.alts:
                    for pf in prefixes:
                        out |= expand(a, pf, owner, depth, stack, env)
                if optional or tv.prim_nullable(p, env):
                    continue
                break
            if p.kind == "prec":
                for a in atoms_of(p):
                    for pf in prefixes:
                        out |= expand(a, pf, owner, depth, stack, env)
                break
            break
        return out

    n = 0
    notes = set()

    def inst0(label, k):
        return "%s#%d" % (label, k)
    for rn in sorted(reach_lib):
        rl = g.rules[rn]
        env = tv.env_of(rl)
        points = []

        def collect(node, label):
            if node.kind == "choice":
                if len(node.alts) > 1:
                    points.append((label, node.alts))
                for i, a in enumerate(node.alts):
                    collect(a, label)
            else:
                for e in node.elems:
                    for p in (e.prim, e.sep):
                        if p is None:
                            continue
                        if p.kind == "group":
                            collect(p.expr, label + "/group")
                        elif p.kind == "prec":
                            at = atoms_of(p)
                            if len(at) > 1:
                                points.append((label + "/precedence atoms", at))
                            for lvl in p.levels:
                                for sq in lvl:
                                    collect(sq, label + "/precedence")
                        elif p.kind == "call":
                            for a in p.args:
                                if a[0] == "rule":
                                    collect(a[1], label + "/arg")
        collect(rl.expr, "rule " + rn)
        k = 0
        for label, alts in points:
            k += 1
            n += 1
            ent = [expand(a, (), rn, 3, frozenset({rn}), env) for a in alts]
            clash = {}
            for i in range(len(ent)):
                for j in range(i + 1, len(ent)):
                    for pr in ent[i] & ent[j]:
                        clash.setdefault(pr, set()).update({i + 1, j + 1})
            inst = "%s#%d" % (label, k)
            where = "parser/src/parser.rs:%d" % rl.line
            # an entry after no token at all is shared by alternatives such as `unary_expression` (which tries function call, name, variable
            # in turn) and the later atom `function_expression`: whether the second is ever tried depends on whether a sibling inside the
            # first succeeds on the same text (here: the bare name does), which the grammar's shape does not tell - not decided, noted
            undecided = {pr: ix for pr, ix in clash.items() if not pr[0] and not cached(pr[1])}
            bad = {pr: ix for pr, ix in clash.items() if pr[0] and not cached(pr[1])}
            for (pf, nm), ix in sorted(undecided.items()):
                notes.add("%s: alternatives %s both begin with `%s` (no token before it)" % (inst0(label, k), sorted(ix), nm))
            if bad:
                for (pf, nm), ix in sorted(bad.items()):
                    r.finding("%s|%s after [%s]|not-cached" % (inst, nm, " ".join(x.split(":", 1)[1] for x in pf)), where,
                              "alternatives %s of this choice all enter rule `%s` after the tokens [%s], and `%s` can contain `%s` again: a failure behind it is re-parsed once per alternative "
                              "at every level of nesting (2^depth); `%s` is not #[cache]d" % (sorted(ix), nm, " ".join(x.split(":", 1)[1] for x in pf), nm, rn, nm))
            elif clash:
                r.ok(inst, where, "shared entries are cached: " + ", ".join(sorted({nm for _, nm in clash})))
            else:
                r.ok(inst, where)
    r.note("%d choice points in %d rules reachable from `library`" % (n, len(reach_lib)))
    if notes:
        r.note("not decided (shared entry with no token consumed; doubling only if no sibling alternative succeeds on the same text): " + "; ".join(sorted(notes))[:600])
