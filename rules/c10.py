"""C10 — Re-rendering round-trips (DESIGN.md §3 C10): necessary conditions of the form 'two different parsed libraries would
render to the same text' or 'the text uses a word the lexer does not know'."""
import re
from vlib.mir import norm, loc_str, op_place, switch_info
from vlib.traversal import Traversal, snake
from rules.c08 import parse_attr

R = "ironplc_plc2plc::renderer::LibraryRenderer"
SPAN = "ironplc_dsl::core::SourceSpan"
GRAM = "ironplc_parser::parser::plc_parser::__parse_"


def renderer_overrides(ctx):
    return {b.f["name"]: b for b in ctx.prog.bodies.values()
            if (b.f.get("impl") or {}).get("self") == R and (b.f.get("impl") or {}).get("trait_def") == "ironplc_dsl::visitor::Visitor"}


def bodies_with_closures(ctx, b):
    return [b] + [cb for cb in ctx.prog.bodies.values() if cb.f.get("parent") == b.id]


def field_reads(ctx, b, adt):
    """names of fields of `adt` read anywhere in the override (incl. its closures), plus whether a whole value of that type is handed to a call"""
    read = set()
    for bd in bodies_with_closures(ctx, b):
        for _, k, p in bd.place_uses():
            if k == "write":
                continue
            rt = bd.root(p)
            for x in rt[1]:
                if isinstance(x, list) and x[0] == "f" and x[3] == adt:
                    read.add((x[4], x[2]))
    return read


def rule_fields(ctx, rep):
    r = rep.rule("R-C10-fields", "for every node type whose visit method the renderer overrides, every field (other than spans) is read in the override "
                                 "or handed to the default traversal, and every enum variant is handled without a reachable wildcard arm", floor=60, floor_what="renderer overrides")
    T = Traversal(ctx, "visit")
    ov = renderer_overrides(ctx)
    if len(ov) < 60:
        rep.error("R-C10-fields", "only %d renderer overrides found" % len(ov))
    for m, b in sorted(ov.items()):
        ty = T.method_type.get(m)
        where = "%s:%d" % (b.f["file"], b.f["line"])
        if ty is None or ty not in ctx.facts.adts:
            r.ok("%s|non-ADT" % m, where)
            continue
        adt = ctx.facts.adts[ty]
        edges = T.edges_of(b)
        continues = ("rv", ty) in edges
        default_children = {x for k, x in T.recurse.get(ty, []) if k == "v"}
        read = field_reads(ctx, b, ty)
        # the node handed whole to an accessor / helper (node.original(), node.hmsm(), ...): treated as reading every field
        whole = False
        for bd in bodies_with_closures(ctx, b):
            for c in bd.calls():
                if (c.callee or "").endswith("::recurse_visit"):
                    continue
                for a in c.args:
                    p = op_place(a)
                    if p is None:
                        continue
                    rt = bd.root(p)
                    if bd is b and rt[0] == 2 and not [x for x in rt[1] if isinstance(x, list)]:
                        whole = True
        if whole:
            r.ok(m, where, "node handed whole to a helper")
            continue
        missing = []
        for v in adt["variants"]:
            for fl in v["fields"]:
                if fl["ty"] == SPAN or fl["name"] == "span" and "SourceSpan" in fl["ty"]:
                    continue
                if (v["name"], fl["name"]) in read:
                    continue
                # handed to the default traversal?
                if continues:
                    inner = re.findall(r"ironplc_dsl::[A-Za-z_:]*[A-Za-z_]", fl["ty"])
                    if inner and all(("visit_" + snake(t.split("::")[-1])) in default_children for t in inner):
                        continue
                missing.append("%s%s" % ((v["name"] + ".") if adt["kind"] == "enum" else "", fl["name"]))
        # enum: wildcard arm dropping variants
        dropped = []
        if adt["kind"] == "enum" and not continues:
            for i in sorted(b.reachable(0)):
                si = switch_info(b, i)
                if si and si["kind"] == "disc" and si.get("adt") == ty:
                    handled = {l for ls in si["edges"].values() for l in ls}
                    for v in adt["variants"]:
                        if v["name"] not in handled:
                            dropped.append(v["name"])
                    break
        if missing or dropped:
            for x in sorted(set(missing)):
                r.finding("%s|unread %s.%s" % (m, ty.split("::")[-1], x), where, "the renderer never reads this field: two libraries differing only here render to the same text")
            for x in sorted(set(dropped)):
                r.finding("%s|unhandled variant %s::%s" % (m, ty.split("::")[-1], x), where, "variant falls into a wildcard arm")
        else:
            r.ok(m, where)


def grammar_vocab(ctx):
    words, symbols = set(), set()
    a = ctx.facts.astattrs.get("ironplc_parser::token::TokenType")
    for v in a["variants"].values():
        for at in v["attrs"]:
            p = parse_attr(at)
            if p and p[0] == "token":
                if any(c.isalpha() for c in p[1]):
                    words.add(p[1].upper())
                else:
                    symbols.add(p[1])
            elif p and p[0] == "regex":
                m0 = re.match(r"[^\\\[\(A-Za-z0-9]+", p[1])
                if m0:
                    symbols.add(m0.group(0))   # literal punctuation prefix of a regex token, e.g. % of a direct address
    g = ctx.peg

    def f(e, seq, c):
        t = g.terminal(e.prim)
        if t and t[0] in ("id_eq", "dt_sep", "tok_eq"):
            words.add(t[1].split(",")[-1].strip('"').upper())
    for rl in g.rules.values():
        g.walk_elems(rl.expr, f)
    return words, symbols


def rule_vocab(ctx, rep):
    r = rep.rule("R-C10-vocab", "every keyword-like word ([A-Z_]{2,}) and every symbol the renderer writes as a constant is one the front end reads "
                                "(a #[token] literal or a textual keyword of the grammar)", floor=100, floor_what="constant strings written")
    words, symbols = grammar_vocab(ctx)
    seen = {}
    for b in ctx.prog.bodies.values():
        im = b.f.get("impl") or {}
        if b.f["crate"] != "ironplc_plc2plc" or not (im.get("self") == R or (b.f.get("parent") and R in b.f["parent"])):
            continue
        for i, where, o in b.operands():
            if o[0] == "c" and len(o) > 3 and isinstance(o[3], dict) and "str" in o[3]:
                s = o[3]["str"]
                seen.setdefault(s, "%s:%d" % (b.f["file"], b.f["line"]))
        for pl in b.f.get("promoted", []):
            for o in pl:
                if len(o) > 3 and isinstance(o[3], dict) and "str" in o[3]:
                    seen.setdefault(o[3]["str"], "%s:%d" % (b.f["file"], b.f["line"]))
    for s, where in sorted(seen.items()):
        if not s.strip() or s.startswith("ironplc_") or "::" in s:
            continue
        bad = []
        for w in re.findall(r"[A-Za-z_][A-Za-z_0-9]*", s):
            if len(w) >= 2 and w.upper() == w and w.upper() not in words and not re.fullmatch(r"[A-Z]", w):
                bad.append(w)
        for sym in re.findall(r"[^\sA-Za-z0-9_#'\"{}.\-]+", s):
            if sym not in symbols and not all(ch in "".join(symbols) for ch in sym):
                bad.append(sym)
        inst = "const %r" % s
        if bad:
            r.finding("%s|unknown %s" % (inst, ",".join(bad)), where, "the renderer writes %s, which is neither a token literal nor a textual keyword of the grammar: the output cannot be parsed back" % bad)
        else:
            r.ok(inst, where)


def rule_prod(ctx, rep):
    r = rep.rule("R-C10-prod", "every DSL node a grammar rule builds together with terminals of its own has a writer: the renderer overrides its visit "
                               "method (handling the variant) or an overriding ancestor reads its fields; otherwise the default traversal prints its "
                               "children with no delimiters", floor=80, floor_what="(node kind, production) pairs")
    g = ctx.peg
    T = Traversal(ctx, "visit")
    ov = renderer_overrides(ctx)
    # which ADT fields does any override read directly?
    read_owner = set()
    for b in ov.values():
        for bd in bodies_with_closures(ctx, b):
            for _, k, p in bd.place_uses():
                if k == "write":
                    continue
                for x in bd.root(p)[1]:
                    if isinstance(x, list) and x[0] == "f" and x[3].startswith("ironplc_dsl::"):
                        read_owner.add((x[3], x[4]))
    # variants handled explicitly by an enum override
    handled = {}
    for m, b in ov.items():
        ty = T.method_type.get(m)
        if ty and ctx.facts.adts.get(ty, {}).get("kind") == "enum":
            hs = set()
            for i in sorted(b.reachable(0)):
                si = switch_info(b, i)
                if si and si["kind"] == "disc" and si.get("adt") == ty:
                    hs |= {l for ls in si["edges"].values() for l in ls if l != "otherwise"}
            handled[ty] = hs
    seen = set()
    for rule, s in g.all_seqs():
        if s.action is None:
            continue
        terms = sorted({g.terminal(e.prim)[1] for e in s.elems if g.terminal(e.prim) and g.terminal(e.prim)[0] in ("tok", "id_eq", "dt_sep") and not e.look})
        if not terms:
            continue
        # ADTs constructed by this action: find the closure at this action's line
        built = set()
        for b in ctx.prog.bodies.values():
            n = norm(b.id)
            if not n.startswith(GRAM + rule.name + "::{closure"):
                continue
            lines = [st[3][0] for _, _, st in b.all_stmts() if st[0] == "=" and len(st) > 3 and not st[3][2]]
            if not lines or not (s.action.line <= min(lines) and max(lines) <= s.action.endline):
                continue
            for _, _, st in b.all_stmts():
                if st[0] == "=" and st[2][0] == "agg" and st[2][1].get("k") == "adt" and st[2][1]["adt"].startswith("ironplc_dsl::") and not st[3][2]:
                    built.add((st[2][1]["adt"], st[2][1]["variant"]))
        for adt, var in sorted(built):
            a = ctx.facts.adts.get(adt)
            if not a or adt in (SPAN, "ironplc_dsl::core::Id"):
                continue
            key = (adt, var)
            if key in seen:
                continue
            seen.add(key)
            inst = "%s::%s <- rule %s [%s]" % (adt.split("::")[-1], var, rule.name, " ".join(terms)[:40])
            where = "parser/src/parser.rs:%d" % s.line
            m = "visit_" + snake(adt.split("::")[-1])
            if m in ov:
                if a["kind"] == "enum" and adt in handled and var not in handled[adt] and ("rv", adt) not in T.edges_of(ov[m]):
                    r.finding(inst + "|variant-not-written", where, "the renderer's match on %s has no arm for %s: the construct disappears from the output" % (adt.split("::")[-1], var))
                else:
                    r.ok(inst, where, "override " + m)
            elif (adt, var) in read_owner:
                r.ok(inst, where, "fields read by an overriding ancestor")
            else:
                r.finding(inst + "|no-writer", where, "built from the tokens [%s] but the renderer has no %s and no ancestor reads its fields: its tokens are lost in the output" % (" ".join(terms), m))


def rule_quotes(ctx, rep):
    r = rep.rule("R-C10-quote", "sibling cross-check: wherever the renderer chooses a quote/keyword for a StringType, the same variant maps to the same text", floor=1)
    ov = renderer_overrides(ctx)
    table = {}
    for m, b in sorted(ov.items()):
        for i in sorted(b.reachable(0)):
            si = switch_info(b, i)
            if si and si["kind"] == "disc" and (si.get("adt") or "").endswith("StringType"):
                for succ, labs in si["edges"].items():
                    consts = []
                    for s in b.stmts(succ):
                        if s[0] == "=":
                            for o in ([s[2][1]] if s[2][0] == "use" else []):
                                v = b.const_str(o)
                                if v is not None:
                                    consts.append(v)
                    c = b.call_at(succ)
                    if c is not None:
                        for a in c.args:
                            v = b.const_str(a)
                            if v is not None:
                                consts.append(v)
                    for l in labs:
                        table.setdefault(m, {})[l] = tuple(consts)
    # compare the quote characters chosen per variant across methods
    quotes = {}
    for m, t in table.items():
        for var, cs in t.items():
            q = "".join(ch for c in cs for ch in c if ch in "'\"")
            if q:
                quotes.setdefault(var, {}).setdefault(q[0], []).append(m)
    for var, qs in sorted(quotes.items()):
        if len(qs) > 1:
            r.finding("StringType::%s|quotes %s" % (var, "/".join(sorted(qs))), "plc2plc/src/renderer.rs", "sibling matches disagree on the quote for %s: %s" % (var, qs))
        else:
            r.ok("StringType::%s|quote %s" % (var, list(qs)[0]), "plc2plc/src/renderer.rs")
    if not quotes:
        r.ok("no StringType-dependent quoting found", "plc2plc/src/renderer.rs")


def rule_paren(ctx, rep):
    r = rep.rule("R-C10-paren", "binary and comparison expressions are always parenthesised: in visit_binary_expr / visit_compare_expr every path that "
                                "returns Ok writes `(` before the operands and `)` after them (the mechanism that makes re-association impossible)", floor=2)
    from vlib.mir import explore
    ov = renderer_overrides(ctx)
    # every function of the renderer that renders the two operands of a binary / comparison expression (it reads both
    # `left` and `right` of such a node) - the Visitor overrides and any helper they delegate to
    targets = {}
    for b0 in ctx.prog.bodies.values():
        if b0.f["crate"] != "ironplc_plc2plc" or b0.f["dk"] == "Closure":
            continue
        flds = set()
        for _, k, p in b0.place_uses():
            if k == "write":
                continue
            for x in b0.root(p)[1]:
                if isinstance(x, list) and x[0] == "f" and x[3] in ("ironplc_dsl::textual::BinaryExpr", "ironplc_dsl::textual::CompareExpr"):
                    flds.add((x[3], x[2]))
        for adt in ("ironplc_dsl::textual::BinaryExpr", "ironplc_dsl::textual::CompareExpr"):
            if (adt, "left") in flds and (adt, "right") in flds:
                targets[norm(b0.id).split("::")[-1] + "|" + adt.split("::")[-1]] = b0
    for need in ("visit_binary_expr|BinaryExpr", "visit_compare_expr|CompareExpr"):
        if need not in targets and need.split("|")[0] not in ov:
            r.finding(need + "|missing", "plc2plc/src/renderer.rs", "the renderer has no %s override" % need.split("|")[0])
    for m, b in sorted(targets.items()):

        def step(st, bb, b=b):
            o, c, err = st
            call = b.call_at(bb)
            if call is not None:
                if (call.callee or "").endswith(("LibraryRenderer::write_ws", "LibraryRenderer::write")) and len(call.args) > 1:
                    v = b.const_str(call.args[1])
                    if v == "(":
                        o = min(o + 1, 2)
                    elif v == ")":
                        c = min(c + 1, 2)
                elif "from_residual" in (call.callee or "") and call.dest == [0, []]:
                    err = True
            return (o, c, err)
        rets = explore(b, (0, 0, False), step)
        finals = set()
        for sts in rets.values():
            finals |= sts
        bad = sorted((o, c) for o, c, err in finals if not err and (o, c) != (1, 1))
        where = "%s:%d" % (b.f["file"], b.f["line"])
        if bad:
            r.finding("%s|unparenthesised-path:%s" % (m, bad), where, "a path returns Ok having written %s opening and %s closing parentheses: an expression can be rendered without its grouping" % (bad[0][0], bad[0][1]))
        else:
            r.ok(m, where)


def rule_uncond(ctx, rep):
    r = rep.rule("R-C10-uncond", "a keyword-valued field of a node (a field whose type is a fieldless DSL enum, e.g. the qualifier of a VAR block) is rendered "
                                 "unconditionally: the match on it lies on every path of the override that returns Ok", floor=8, floor_what="enum-valued fields matched by the renderer")
    from vlib.mir import explore
    T = Traversal(ctx, "visit")
    ov = renderer_overrides(ctx)
    fieldless = {aid for aid, a in ctx.facts.adts.items() if a["crate"] == "ironplc_dsl" and a["kind"] == "enum" and all(not v["fields"] for v in a["variants"])}
    for m, b in sorted(ov.items()):
        ty = T.method_type.get(m)
        adt = ctx.facts.adts.get(ty or "")
        if not adt or adt["kind"] != "struct":
            continue
        for fl in adt["variants"][0]["fields"]:
            if fl["ty"] not in fieldless:
                continue
            # switches on the discriminant of node.<field>
            sw = set()
            for i in sorted(b.reachable(0)):
                si = switch_info(b, i)
                if si and si["kind"] == "disc" and si.get("adt") == fl["ty"] and si["subject"][0] == "place":
                    rt = si["subject"][1]
                    names = [x[2] for x in rt[1] if isinstance(x, list) and x[0] == "f"]
                    if rt[0] == 2 and names == [fl["name"]]:
                        sw.add(i)
            if not sw:
                continue

            def step(st, bb, b=b, sw=sw):
                seen, err = st
                if bb in sw:
                    seen = True
                call = b.call_at(bb)
                if call is not None and "from_residual" in (call.callee or "") and call.dest == [0, []]:
                    err = True
                return (seen, err)
            rets = explore(b, (False, False), step)
            finals = set()
            for sts in rets.values():
                finals |= sts
            inst = "%s|%s.%s" % (m, ty.split("::")[-1], fl["name"])
            where = "%s:%d" % (b.f["file"], b.f["line"])
            if any(not seen and not err for seen, err in finals):
                r.finding(inst + "|conditional", where, "a path returns Ok without passing the match on `%s`: for some nodes this keyword is silently not written" % fl["name"])
            else:
                r.ok(inst, where)


FLOAT_CONV = ("to_string", "new_display", "new_upper_exp", "new_lower_exp", "new_debug")


def rule_real(ctx, rep):
    """The grammar's real literal needs a fraction (`1.0`, `1.0E-6`: tokens FixedPoint/FloatingPoint both require `.digits`).  No std
    formatter of f64 guarantees one: Display prints 1.0 as `1`, {:E} prints 1.0E-6 as `1E-6`, Debug switches to `1e16`.  So every
    f64 -> text conversion in the renderer must be followed by a look at the produced text for the `.` (contains/find/ends_with/
    split_once with '.') - the only way to know a fraction has to be appended."""
    from rules.c14 import _str_root
    r = rep.rule("R-C10-real", "every f64 -> text conversion in the renderer is followed by a check of that text for a fraction point (std float "
                               "formatting omits it for whole numbers and one-digit mantissas; the grammar's real literal requires it)", floor=1,
                 floor_what="f64 formatting sites in the renderer")
    n = 0
    for b in sorted(ctx.prog.bodies.values(), key=lambda x: x.id):
        if b.f["crate"] != "ironplc_plc2plc" or "::test" in norm(b.id):
            continue
        cnt = {}
        for c in sorted(b.calls(), key=lambda c: (c.loc[0], c.loc[1])):
            nm = (c.callee or c.u or "").split("::")[-1]
            if nm not in FLOAT_CONV or "f64" not in (c.ga or "") and "f32" not in (c.ga or ""):
                continue
            if nm == "to_string" and (c.u or "") != "alloc::string::ToString::to_string":
                continue
            n += 1
            k = cnt[nm] = cnt.get(nm, 0) + 1
            texts = set()
            if nm == "to_string":
                texts.add(c.dest[0])
            else:
                for c2 in b.calls():
                    if (c2.callee or "") == "alloc::fmt::format" and c2.loc[0] == c.loc[0]:
                        texts.add(c2.dest[0])
                        for c3 in b.calls():
                            if (c3.callee or "") == "core::hint::must_use" and c3.args and op_place(c3.args[0]) and op_place(c3.args[0])[0] == c2.dest[0]:
                                texts.add(c3.dest[0])
            ev = None
            for c2 in b.calls():
                n2 = (c2.callee or c2.u or "").split("::")[-1]
                if n2 not in ("contains", "find", "rfind", "ends_with", "split_once", "rsplit_once") or len(c2.args) < 2:
                    continue
                k2 = b.const_of(c2.args[1])
                dot = k2 is not None and len(k2) > 3 and isinstance(k2[3], dict) and (k2[3].get("int") == "46" or k2[3].get("str") == ".")
                rt = _str_root(b, c2.args[0])
                if dot and rt is not None and rt[0] in texts:
                    ev = c2
            fn = re.sub(r"^<ironplc_plc2plc::renderer::LibraryRenderer as .*>::", "", norm(b.id)).replace("ironplc_plc2plc::", "")
            inst = "%s|f64 %s#%d" % (fn, nm, k)
            if ev:
                r.ok(inst, loc_str(b.f, c.loc), "text checked for '.' at line %d" % ev.loc[0])
            else:
                r.finding(inst + "|fraction-not-ensured", loc_str(b.f, c.loc),
                          "the formatted number is written without ensuring a fraction: whole values (1.0 -> `1`, LREAL#3.0 -> `LREAL#3`) or "
                          "one-digit mantissas (`1E-6`) render to text that is not a real literal (re-parses as an integer or is rejected)")
    r.note("%d f64 formatting sites" % n)


def rule_raw(ctx, rep):
    """Reader/writer agreement for string contents.  The lexer/grammar keep the characters between the quotes exactly as written
    (no `$` decoding: `CharacterStringLiteral.value` and string initialisers are the raw characters), so the renderer must write them
    exactly as stored.  A writer that inserts anything while it walks the characters (an escape `$`, a doubled quote) adds that text
    again on every round trip."""
    r = rep.rule("R-C10-raw", "string contents are written as stored: inside every loop of the renderer over `char` items nothing but the item itself "
                              "is written (no constant character or text), matching the grammar, which stores the characters between the quotes raw",
                 floor=1, floor_what="character loops / character collections in the renderer")
    from rules.c04_progress import natural_loops
    n = 0
    for b in sorted(ctx.prog.bodies.values(), key=lambda x: x.id):
        if b.f["crate"] != "ironplc_plc2plc" or "::test" in norm(b.id):
            continue
        fn = re.sub(r"^<ironplc_plc2plc::renderer::LibraryRenderer as .*>::", "", norm(b.id)).replace("ironplc_plc2plc::", "")
        # `chars.iter().collect::<String>()`: identity by construction
        for c in b.calls():
            if (c.callee or c.u or "").endswith("Iterator::collect") and "char" in (c.ga or "") and "String" in (c.ga or ""):
                n += 1
                r.ok("%s|collect::<String>() of the stored characters" % fn, loc_str(b.f, c.loc))
        loops = natural_loops(b)
        k = 0
        for h, body in sorted(loops.items()):
            hc = b.call_at(h) if b.term(h)[0] == "call" else None
            if not (hc and (hc.u or "") == "core::iter::traits::iterator::Iterator::next" and re.search(r"Iter<'[^>]*, char>|Chars<|IntoIter<char", hc.ga or "")):
                continue
            k += 1
            n += 1
            inst = "%s|char loop #%d" % (fn, k)
            bad = []
            for x in sorted(body):
                if b.term(x)[0] != "call" or x == h:
                    continue
                c = b.call_at(x)
                nm = (c.callee or c.u or "").split("::")[-1]
                if nm in ("push", "push_str", "write", "write_ws", "write_char", "write_str", "insert", "insert_str", "extend") and len(c.args) >= 2:
                    a = c.args[1]
                    k0 = b.const_of(a)
                    if k0 is not None and len(k0) > 3 and isinstance(k0[3], dict) and ("int" in k0[3] or "str" in k0[3]):
                        bad.append((c, k0[2]))
            if bad:
                for c, txt in bad:
                    r.finding(inst + "|inserts %s" % txt, loc_str(b.f, c.loc), "the constant %s is written while walking the characters of a string: the grammar stores the "
                              "characters raw, so this text is part of the contents after re-parsing and is added again by the next rendering" % txt)
            else:
                r.ok(inst, loc_str(b.f, hc.loc), "writes only the character itself")
    r.note("%d character loops / collections" % n)


UNIT_DIGITS = {"as_hms_milli": 3, "as_hms_micro": 6, "as_hms_nano": 9, "millisecond": 3, "microsecond": 6, "nanosecond": 9,
               "subsec_milliseconds": 3, "subsec_microseconds": 6, "subsec_nanoseconds": 9}


def rule_fracpad(ctx, rep):
    """Digits written after a decimal point are a fraction only if the integer is zero-padded to the number of digits of its unit:
    50000 microseconds are `.050000`, not `.50000`.  For every formatting call in the renderer whose argument is an integer that (by
    the numeric slice, through the DSL accessors) comes from a sub-second accessor of the `time` crate, the placeholder - read from
    the format string literal in the source, the only place where the width is written down in a stable form - must be `{:0>N}`/`{:0N}`
    with N = digits of the unit."""
    from vlib.numflow import sources_of
    r = rep.rule("R-C10-fracpad", "a sub-second integer (milli/micro/nanoseconds) is formatted zero-padded to the digits of its unit (3/6/9): "
                                  "otherwise leading zeros of the fraction are lost and the rendered value is a different time", floor=1,
                 floor_what="formatted sub-second values in the renderer")
    import os
    from vlib import facts as FF
    n = 0
    for b in sorted(ctx.prog.bodies.values(), key=lambda x: x.id):
        if b.f["crate"] != "ironplc_plc2plc" or "::test" in norm(b.id):
            continue
        args = [c for c in sorted(b.calls(), key=lambda c: (c.bb, c.loc[1])) if (c.callee or "").startswith("core::fmt::rt::Argument") and c.args]
        sub = []
        for idx, c in enumerate(args):
            if not re.search(r"\b(u8|u16|u32|u64|usize|i32|i64)\b", c.ga or ""):
                continue
            src = sources_of(ctx.prog, b, c.args[0])
            # as_hms_*() return (h, m, s, sub-second): only component 3 is the fraction; single-value accessors count as they are
            units = sorted({UNIT_DIGITS[x[1].split("::")[-1]] for x in src if (x[0] == "callk" and x[1].split("::")[-1] in UNIT_DIGITS and x[2] == 3)
                            or (x[0] == "call" and x[1].split("::")[-1] in UNIT_DIGITS and not x[1].split("::")[-1].startswith("as_hms"))})
            if units:
                sub.append((idx, c, units[-1]))
        if not sub:
            continue
        # the format string literals of this function, in source order
        path = os.path.join(FF.WS, b.f["file"])
        try:
            lines = open(path, encoding="utf-8").read().splitlines()[b.f["line"] - 1:b.f.get("endline", b.f["line"] + 60)]
        except OSError:
            rep.error("R-C10-fracpad", "cannot read %s" % path)
            return
        text = "\n".join(lines)
        # placeholders of all format strings of the function, in order; arguments are created in the same order
        holes = []
        for m in re.finditer(r'(?:format|write|writeln|print|println|format_args)!\s*\(\s*(?:[^,"]*,\s*)?"((?:[^"\\]|\\.)*)"', text):
            for h in re.finditer(r"\{([^{}]*)\}", m.group(1).replace("{{", "").replace("}}", "")):
                holes.append(h.group(1))
        fn = re.sub(r"^<ironplc_plc2plc::renderer::LibraryRenderer as .*>::", "", norm(b.id)).replace("ironplc_plc2plc::", "")
        for idx, c, digits in sub:
            n += 1
            inst = "%s|sub-second argument #%d" % (fn, idx + 1)
            where = loc_str(b.f, c.loc)
            if idx >= len(holes) or len(holes) != len(args):
                r.finding(inst + "|placeholder-not-found", where, "cannot pair the argument with a placeholder of the format string (found %d placeholders for %d arguments)" % (len(holes), len(args)))
                continue
            spec = holes[idx]
            m2 = re.match(r"^[^:]*:(?:(.)?([<>^]))?0?(\d+)?", spec) if ":" in spec else None
            width = int(m2.group(3)) if m2 and m2.group(3) else 0
            zero = bool(m2) and ((m2.group(1) == "0" and m2.group(2) == ">") or re.match(r"^[^:]*:0\d", spec) is not None)
            if zero and width == digits:
                r.ok(inst, where, "{%s}: zero-padded to %d digits" % (spec, width))
            else:
                r.finding(inst + "|padded to %d of %d digits" % (width if zero else 0, digits), where,
                          "a value counted in units of 10^-%d s is written after the decimal point with placeholder {%s}: the digits do not line up with the unit "
                          "(too narrow: 50000 microseconds become `.50000`, half a second; too wide: 125 milliseconds become `.000125`)" % (digits, spec))
    r.note("%d formatted sub-second values" % n)


def rule_post(ctx, rep):
    """What the renderer wrote is what echo prints: nothing between the renderer's buffer and the caller may edit the text (trim lines,
    replace, re-join): such passes cannot tell a blank inside a string literal from layout."""
    r = rep.rule("R-C10-post", "the rendered text is returned as the renderer wrote it: write_to_string / renderer::apply call no text-editing function "
                               "(trim*, replace*, lines, split*, join, retain, strip_*) on the result", floor=2, floor_what="functions between the renderer and the caller")
    EDIT = {"trim", "trim_end", "trim_start", "trim_matches", "trim_end_matches", "trim_start_matches", "replace", "replacen", "lines", "split", "split_terminator",
            "split_inclusive", "rsplit", "splitn", "join", "concat", "retain", "strip_suffix", "strip_prefix", "truncate", "pop", "remove", "to_uppercase", "to_lowercase",
            "split_whitespace", "chars", "char_indices", "bytes"}
    n = 0
    for name in ("ironplc_plc2plc::write_to_string", "ironplc_plc2plc::renderer::apply"):
        for b in ctx.prog.get(name):
            n += 1
            fam = [b] + [cb for cb in ctx.prog.bodies.values() if cb.f["dk"] == "Closure" and cb.f.get("parent") == b.id]
            # helpers of the same crate called from here (other than the renderer's walk)
            grew = True
            while grew:
                grew = False
                for bd in list(fam):
                    for c in bd.calls():
                        for t in (ctx.prog.get(c.callee) if c.callee else []):
                            if t.f["crate"] == "ironplc_plc2plc" and t.f["dk"] == "Fn" and "LibraryRenderer" not in norm(t.id) and t not in fam \
                                    and norm(t.id) not in ("ironplc_plc2plc::renderer::apply", "ironplc_plc2plc::write_to_string"):
                                fam.append(t)
                                fam += [cb for cb in ctx.prog.bodies.values() if cb.f["dk"] == "Closure" and cb.f.get("parent") == t.id]
                                grew = True
            bad = sorted({"%s() in %s" % ((c.callee or c.u or "").split("::")[-1], norm(bd.id).split("::")[-1]) for bd in fam for c in bd.calls()
                          if (c.callee or c.u or "").split("::")[-1] in EDIT and ("str" in (c.callee or "") or "String" in (c.callee or "") or "slice" in (c.callee or ""))})
            inst = name.replace("ironplc_plc2plc::", "")
            where = "%s:%d" % (b.f["file"], b.f["line"])
            if bad:
                r.finding(inst + "|edits-text", where, "the rendered text is edited after rendering (%s): blanks, line breaks or characters inside string literals and comments "
                          "are changed together with the layout" % ", ".join(bad))
            else:
                r.ok(inst, where)


def rule_wrapnode(ctx, rep):
    """parse(render(L)) = L needs more than the same text: a delimiter pair that the grammar turns into a node of its own (`( e )` is
    `ExprKind::Expression(e)`) may be written only where such a node is rendered.  A writer that brackets other nodes with that pair
    makes the re-parsed library contain a wrapper node the original did not have - for every such node."""
    r = rep.rule("R-C10-wrapnode", "delimiters that the grammar reads as a wrapper node of their own are written only when that node is rendered: no other "
                                   "visit method of the renderer writes both delimiters of a self-wrapping variant (Enum::V(Box<Enum>))", floor=1,
                 floor_what="self-wrapping variants with a delimiter production")
    g = ctx.peg
    adts = ctx.facts.adts
    wrappers = []
    for aid, a in adts.items():
        if a["crate"] != "ironplc_dsl" or len(a["variants"]) < 2:
            continue
        for v in a["variants"]:
            if len(v["fields"]) == 1 and re.sub(r"\s", "", v["fields"][0]["ty"]) in ("alloc::boxed::Box<%s>" % aid, aid):
                wrappers.append((aid, v["name"]))
    TOKTXT = {"LeftParen": "(", "RightParen": ")", "LeftBracket": "[", "RightBracket": "]", "LeftBrace": "{", "RightBrace": "}"}
    n = 0
    for aid, vname in sorted(wrappers):
        short = aid.split("::")[-1]
        # the production that builds it: a sequence whose action mentions Enum::Variant( and which has exactly two delimiter terminals
        delims = None
        for rule, sq in g.all_seqs():
            if sq.action is None:
                continue
            code = "".join(t.v for t in sq.action.code)
            if "%s::%s(" % (short, vname) not in code:
                continue
            terms = []
            for e in sq.elems:
                if e.prim.kind == "call":
                    tm = g.terminal(e.prim)
                    if tm and tm[0] == "tok" and tm[1] in TOKTXT:
                        terms.append(TOKTXT[tm[1]])
            if len(terms) == 2:
                delims = tuple(terms)
        if not delims:
            continue
        n += 1
        own = "visit_" + re.sub(r"(?<!^)(?=[A-Z])", "_", vname).lower()
        for b in sorted(ctx.prog.bodies.values(), key=lambda x: x.id):
            if b.f["crate"] != "ironplc_plc2plc" or not b.f["name"].startswith("visit_") or "::test" in norm(b.id):
                continue
            # only nodes that can stand where the wrapper can: payloads of the same enum's other variants
            ty = None
            m0 = re.search(r"visit_([a-z_]+)$", b.f["name"])
            payloads = {re.sub(r"^alloc::boxed::Box<(.*)>$", r"\1", re.sub(r"\s", "", f["ty"])) for v in adts[aid]["variants"] if v["name"] != vname for f in v["fields"]}
            cand = [t for t in payloads if m0 and re.sub(r"(?<!^)(?=[A-Z])", "_", t.split("::")[-1]).lower() == m0.group(1)]
            if not cand:
                continue
            # everything the method writes, in source order (calls that write, visits of children count as writes of unknown text)
            writes = []
            for c in sorted(b.calls(), key=lambda c: (c.loc[0], c.loc[1])):
                nm = (c.callee or c.u or "").split("::")[-1]
                if nm in ("write_ws", "write", "push_str", "write_char", "push") and len(c.args) >= 2:
                    writes.append(b.const_str(c.args[1]))
                elif nm.startswith("visit_") or nm == "recurse_visit":
                    writes.append(None)
            inst = "%s::%s|%s" % (short, vname, b.f["name"])
            if writes and writes[0] == delims[0] and writes[-1] == delims[1]:
                r.finding(inst + "|writes %s%s" % delims, "%s:%d" % (b.f["file"], b.f["line"]),
                          "%s writes `%s` .. `%s`; the grammar reads that pair as %s::%s, so the re-parsed library has a wrapper node here that the rendered library "
                          "did not have (the text is a fixed point, the library is not equal)" % (b.f["name"], delims[0], delims[1], short, vname))
        r.ok("%s::%s|delimiters %s %s" % (short, vname, delims[0], delims[1]), "dsl")
    r.note("%d self-wrapping variants with a delimiter production" % n)


def rule_listdelim(ctx, rep, rid="R-C10-listdelim"):
    """A list field (`a[i, j]`, `f(x, y)`) is written as one pair of delimiters around the elements, separated by commas - that is how the
    grammar reads it back into one list.  A delimiter written inside the loop over the elements (`a [ i ] [ j ]`) is text the grammar
    reads as nested nodes: accepted, stable under re-rendering, and a different tree."""
    from rules.c04_progress import natural_loops
    r = rep.rule(rid, "no bracket or parenthesis is written inside a loop over the elements of a list: the delimiters of a list enclose the whole list",
                 floor=0, floor_what="delimiters written inside loops")
    n = 0
    for b in sorted(ctx.prog.bodies.values(), key=lambda x: x.id):
        im = b.f.get("impl") or {}
        if b.f["crate"] != "ironplc_plc2plc" or not (im.get("self") == R or (b.f.get("parent") and R in b.f["parent"])) or "::test" in norm(b.id):
            continue
        loops = natural_loops(b)
        inloop = set()
        for h, body in loops.items():
            if any((c.u or "").endswith("Iterator::next") and c.bb in body for c in b.calls()):
                inloop |= body
        k = 0
        for c in sorted(b.calls(), key=lambda c: (c.loc[0], c.loc[1])):
            if c.bb in inloop and (c.callee or "").endswith(("::write_ws", "::write")) and len(c.args) > 1:
                kk = b.const_of(c.args[1])
                txt = kk[3].get("str", "") if kk is not None and len(kk) > 3 and isinstance(kk[3], dict) else ""
                if txt.strip() in ("[", "]", "(", ")"):
                    k += 1
                    n += 1
                    r.finding("%s|`%s` in loop#%d" % (b.f["name"], txt.strip(), k), loc_str(b.f, c.loc), "`%s` is written once per element of a list: the text parses as nested nodes, not as the list "
                              "that was rendered (`grid[1, 2]` -> `grid [ 1 ] [ 2 ]` -> array-of-array access)" % txt.strip())
    if not n:
        r.count_override = 1
        r.note("no delimiter is written inside a loop today (zero expected; positive example: seeded/C10-K)")


def rule_restructure(ctx, rep, rid="R-C10-restructure"):
    """The renderer writes the node it is given.  A writer for node type T that looks into a *nested* T (reads the fields of a T it reached
    through a child list) and writes it as part of the outer node changes the shape: `ELSE IF .. END_IF; END_IF` written as `ELSIF ..
    END_IF` is accepted, stable under re-rendering, and parses to a different tree."""
    r = rep.rule(rid, "a writer that is given a node of type T reads the fields of that node only, not of another T nested below it (no merging of a nested node into its parent)",
                 floor=20, floor_what="writers with a node parameter")
    n = 0
    for b in sorted(ctx.prog.bodies.values(), key=lambda x: x.id):
        im = b.f.get("impl") or {}
        if b.f["crate"] != "ironplc_plc2plc" or "::test" in norm(b.id) or b.f["dk"] == "Closure" or b.f["argc"] < 2:
            continue
        if not (im.get("self") == R or R in norm(b.id)):
            continue
        # the node parameter: the last parameter whose type is a reference to a DSL type
        nodep = None
        for l in range(b.f["argc"], 0, -1):
            m = re.match(r"&(?:'\w+ )?(ironplc_dsl::[A-Za-z_:]+)$", re.sub(r"'\{erased\} ", "", b.f["locals"][l][0]))
            if m:
                nodep = (l, m.group(1))
                break
        if nodep is None or ctx.facts.adts.get(nodep[1], {}).get("kind") != "struct":
            continue
        n += 1
        l, T = nodep
        foreign = set()
        for _, kind, pl in b.place_uses():
            if kind == "write":
                continue
            rt = b.root(pl)
            fs = [x for x in rt[1] if isinstance(x, list) and x[0] == "f"]
            if fs and any(x[3] == T for x in fs) and rt[0] != l:
                foreign |= {x[2] for x in fs if x[3] == T}
        # ... or hands a nested T straight to a writer that takes a T (itself, or the visit method for T): the text that the enclosing
        # variant would put around the nested node (`IF` .. `END_IF`) is skipped
        passes = []
        for c in b.calls():
            tg = ctx.prog.get(c.callee) if c.callee else []
            if not tg or tg[0].f["crate"] != "ironplc_plc2plc" or len(c.args) < 2:
                continue
            tb = tg[0]
            want = None
            for l2 in range(tb.f["argc"], 0, -1):
                m2 = re.match(r"&(?:'\w+ )?(ironplc_dsl::[A-Za-z_:]+)$", re.sub(r"'\{erased\} ", "", tb.f["locals"][l2][0]))
                if m2:
                    want = (l2, m2.group(1))
                    break
            if not want or want[1] != T or want[0] - 1 >= len(c.args):
                continue
            ap = op_place(c.args[want[0] - 1])
            art = b.root(ap) if ap is not None else None
            if art is not None and not (art[0] == l and not [x for x in art[1] if x != "*"]):
                passes.append(norm(tb.id).split("::")[-1])
        inst = "%s|%s" % (norm(b.id).split("::")[-1], T.split("::")[-1])
        where = "%s:%d" % (b.f["file"], b.f["line"])
        if passes:
            r.finding(inst + "|writes a nested %s in place" % T.split("::")[-1], where, "the writer for %s passes another %s (one nested below its own node) directly to %s: the nested node is written "
                      "without the text its enclosing kind puts around it, which the parser reads back as part of the outer node" % (T.split("::")[-1], T.split("::")[-1], ", ".join(sorted(set(passes)))))
        elif foreign:
            r.finding(inst + "|reads a nested %s" % T.split("::")[-1], where, "the writer for %s reads the fields %s of another %s than the one it was given: a nested node is written as part of "
                      "its parent, which the parser reads back as a different tree" % (T.split("::")[-1], ", ".join(sorted(foreign)), T.split("::")[-1]))
        else:
            r.ok(inst, where)


def rule_intwidth(ctx, rep, rid="R-C10-intwidth"):
    """The renderer writes every integer in decimal, whatever base it was read in.  The rendered text is accepted only if the decimal
    reader accepts every value the based readers (16#, 8#, 2#) can produce: all readers of `Integer` parse into the same integer type."""
    r = rep.rule(rid, "all readers of an integer literal (decimal, 16#, 8#, 2#) parse into the same integer type: a value read in one base and written in decimal is accepted again",
                 floor=4, floor_what="integer readers")
    from rules.panics import TY_MAX
    found = []
    for b in sorted(ctx.prog.bodies.values(), key=lambda x: x.id):
        if b.f["crate"] != "ironplc_dsl" or "common::Integer::" not in norm(b.id) or "::test" in norm(b.id):
            continue
        for c in b.calls():
            nm = (c.callee or "")
            if nm.endswith(("num::from_str_radix", "str::parse")) or (c.u or "").endswith("FromStr::from_str"):
                m = re.search(r"Result<([iu](?:8|16|32|64|128|size))\b", b.local_ty(c.dest[0]) or "")
                if m:
                    found.append((norm(b.id).split("::")[-1], m.group(1), b, c))
    if not found:
        rep.error(rid, "no integer reader found in ironplc_dsl::common::Integer")
        return
    widest = max(TY_MAX.get(t, 0) for _, t, _, _ in found)
    for fn, t, b, c in found:
        if TY_MAX.get(t, 0) == widest and not t.startswith("i"):
            r.ok("Integer::%s|%s" % (fn, t), loc_str(b.f, c.loc))
        else:
            r.finding("Integer::%s|%s|narrower" % (fn, t), loc_str(b.f, c.loc), "Integer::%s parses into %s while another reader accepts values up to %d: such a value is written in decimal by the "
                      "renderer and then rejected by this reader (`16#8000_0000_0000_0000` -> `9223372036854775808` -> syntax error)" % (fn, t, widest))


def rule_durprec(ctx, rep, rid="R-C10-durprec"):
    """A duration is written from one accessor of time::Duration.  An accessor that counts whole seconds (or minutes, hours, days,
    weeks) drops the sub-second part, so a writer that uses one must also read the sub-second part (subsec_*) - otherwise `T#60.5s`
    is written as a text that parses to 60 s.  (whole_milliseconds drops what is below a millisecond: recorded under not_decided.)"""
    r = rep.rule(rid, "the duration writer never derives its number from whole seconds or a coarser unit alone: a function under visit_duration_literal that "
                      "calls Duration::whole_seconds/minutes/hours/days/weeks also reads the sub-second part", floor=1, floor_what="Duration accessor calls under visit_duration_literal")
    start = [b for b in ctx.prog.bodies.values() if b.f["crate"] == "ironplc_plc2plc" and b.f["name"] == "visit_duration_literal"]
    if not start:
        rep.error(rid, "visit_duration_literal not found in the renderer")
        return
    seen, st = {}, list(start)
    while st:
        b = st.pop()
        if b.id in seen:
            continue
        seen[b.id] = b
        for c in b.calls():
            if c.callee and c.callee.startswith("ironplc_plc2plc::") and not c.callee.endswith(("write_ws", "::write")):
                st.extend(ctx.prog.get(c.callee) or [])
        st.extend(cb for cb in ctx.prog.bodies.values() if cb.f["dk"] == "Closure" and cb.f.get("parent") == b.id)
    n = 0
    for bid, b in sorted(seen.items()):
        acc = [(c, (c.callee or "").split("::")[-1]) for c in b.calls() if (c.callee or "").startswith("time::duration::Duration::")]
        coarse = [(c, a) for c, a in acc if a in ("whole_seconds", "whole_minutes", "whole_hours", "whole_days", "whole_weeks", "as_seconds_f32")]
        fine = [a for c, a in acc if a.startswith("subsec_") or a in ("whole_milliseconds", "whole_microseconds", "whole_nanoseconds", "as_seconds_f64")]
        sub = [a for a in fine if a.startswith("subsec_")]
        n += len(acc)
        fn = norm(b.id).split("::")[-1]
        for k, (c, a) in enumerate(coarse, 1):
            if sub:
                r.ok("%s|%s#%d" % (fn, a, k), loc_str(b.f, c.loc), "together with %s" % ", ".join(sorted(set(sub))))
            else:
                r.finding("%s|%s#%d|sub-second part not read" % (fn, a, k), loc_str(b.f, c.loc), "the number written for a duration comes from %s() and the function never reads the "
                          "sub-second part: `T#60.5s` is rendered as a text that parses to a different duration" % a)
        for a in sorted(set(fine)):
            r.ok("%s|%s" % (fn, a), "%s:%d" % (b.f["file"], b.f["line"]))
    r.note("%d Duration accessor call(s) in %d function(s) under visit_duration_literal" % (n, len(seen)))


def rule_delimcount(ctx, rep, rid="R-C10-delimcount"):
    """The renderer spells a tree with more delimiters than the source had (every binary node gets its own parentheses, R-C10-paren).  So
    the front end must accept or reject by the tree, never by the delimiters that happen to spell it: a token-level pass that singles out
    bracket tokens (to count nesting, to limit it, to pair them) can accept a source and reject its rendering.  Outside the grammar, no
    function of the parser compares a token type with a bracket token.  Zero expected."""
    TT = "ironplc_parser::token::TokenType"
    DELIMS = {"LeftParen", "RightParen", "LeftBracket", "RightBracket"}
    r = rep.rule(rid, "outside the grammar no function of the parser singles out bracket tokens ( ( ) [ ] ): acceptance depends on the tree, not on how many delimiters spell it",
                 floor=0, floor_what="token-level functions that look at bracket tokens")
    n = 0
    for b in sorted(ctx.prog.bodies.values(), key=lambda x: x.id):
        nb = norm(b.id)
        if b.f["crate"] != "ironplc_parser" or "::test" in nb or "::__parse_" in nb or "::plc_parser::" in nb or b.f.get("exp") or nb.startswith("ironplc_parser::token::"):
            continue
        found = set()
        for i, where, o in b.operands():
            if o[0] == "c" and len(o) > 3 and isinstance(o[3], dict) and o[1] == TT and o[3].get("variant") in DELIMS:
                found.add(o[3]["variant"])
        for pl in b.f.get("promoted", []):
            for o in pl:
                if len(o) > 3 and isinstance(o[3], dict) and o[3].get("variant") in DELIMS and TT in str(o[1]):
                    found.add(o[3]["variant"])
        # a match on the token type with arms for bracket variants
        for i in b.reachable(0):
            si = switch_info(b, i)
            if si and si["kind"] == "disc" and si.get("adt") == TT:
                otherwise = b.term(i)[3]
                for succ, labs in si["edges"].items():
                    if succ != otherwise:          # only the variants an arm names; `_ =>` covers the brackets without looking at them
                        found |= {l for l in labs if l in DELIMS}
        if found:
            n += 1
            r.finding("%s|looks at %s" % (nb.replace("ironplc_parser::", ""), ",".join(sorted(found))), "%s:%d" % (b.f["file"], b.f["line"]),
                      "a token-level function singles out bracket tokens: what it decides depends on how many delimiters spell a tree, and the renderer adds delimiters")
    if not n:
        r.count_override = 1
        r.note("no token-level function looks at bracket tokens today (zero expected; positive example: seeded/C10-O)")


def run(ctx, rep):
    rep.not_decided += ["parse(render(L)) == L itself (value-level)", "numeric formatting other than the fraction point of reals (durations truncated to whole ms)",
                        "multiplicity of the terminals a writer spells, and their order where a terminal is written in a helper, a closure or at several places (R-C10-tokens decides *which* terminals of a production are spelled by a writer of its node; R-C10-order decides the order of those written once in the override's own body, among themselves and relative to the children)",
                        "terminals of sequences that build no node of their own (lists, tuples, values handed up to the caller): attributed only through one-alternative bracketing rules"]
    rep.assumptions += ["C10 findings whose output is pinned byte-for-byte by a *_rendered.st fixture are recorded as known findings and cannot be repaired without editing the suite"]
    rule_fields(ctx, rep)
    rule_vocab(ctx, rep)
    rule_quotes(ctx, rep)
    rule_paren(ctx, rep)
    rule_uncond(ctx, rep)
    rule_real(ctx, rep)
    rule_raw(ctx, rep)
    rule_fracpad(ctx, rep)
    rule_post(ctx, rep)
    rule_wrapnode(ctx, rep)
    rule_durprec(ctx, rep)
    rule_listdelim(ctx, rep)
    rule_intwidth(ctx, rep)
    rule_restructure(ctx, rep)
    from rules import c10_tokens
    c10_tokens.run(ctx, rep)
    c10_tokens.run_glue(ctx, rep)
    from rules import c10_debug
    c10_debug.run(ctx, rep)
    from rules import c10_order
    c10_order.run(ctx, rep)
    from rules import c10_seplist
    c10_seplist.run(ctx, rep)
    rule_delimcount(ctx, rep)
    # rendering is total: a renderer that panics on a library the parser produced yields no text at all, so there is nothing to parse back
    from rules import c04
    from rules.panic_triage import TRIAGE
    from rules.c04 import entry_bodies
    entries = entry_bodies(ctx, rep, ["ironplc_plc2plc::write_to_string"])
    r_p = rep.rule("R-C10-panic", "the renderer itself (crate ironplc_plc2plc) contains no panic-capable construct that is not discharged on the MIR or justified by a listed "
                                  "invariant: a library the parser accepted always renders to some text", floor=1, floor_what="panic-capable sites in the renderer")
    sites_, _ = c04.run_inventory(ctx, rep, r_p, entries, TRIAGE, only=lambda s_: s_.body.f["crate"] == "ironplc_plc2plc")
    # the indentation counter: every indent() is matched by an outdent() on every path (an unmatched outdent underflows and panics)
    c04.rule_pair(ctx, rep, rid="R-C10-pair")
    # the renderer never parenthesises a unary expression: that is only right while the grammar binds unary operators tightest
    from rules.c01 import rule_prec
    rule_prec(ctx, rep, ctx.peg, rid="R-C10-prec")
