"""R-C10-debugname: text produced with the Debug formatter is the Rust name of a variant, not source text.

`format!("{:?}", node.size)` writes `X` for SizePrefix::X - and `Nil` for SizePrefix::Nil, which the front end reads from *no* letter.
A derived Debug of a field-less variant writes exactly the variant's identifier, of any other variant `Name(..)` / `Name { .. }`, which
is never Structured Text.  The rule, per use of the Debug formatter on a DSL enum inside the renderer:

  * the variants that can reach the use are all variants of the type minus those a dominating match on the same value has sent elsewhere;
  * for each of them, the text the front end reads for it is collected from the code that constructs the variant in the dsl / parser crates
    (the construction sits on the edge of a comparison with a character or a string constant - `Some('X') => Ok(SizePrefix::X)`);
  * the variant's identifier must be one of those texts.

Zero uses are expected on today's tree (the renderer spells every enum itself); the positive example is seeded/C10-M."""
import re
from vlib.mir import norm, loc_str, op_place, switch_info
from rules import panics

DBG = "core::fmt::rt::Argument::new_debug"


def _formatted_type(c):
    ga = re.sub(r"\s", "", c.ga or "")
    m = re.search(r"(ironplc_dsl::[A-Za-z_0-9:]+)\]$", ga)
    return m.group(1) if m else None


def _deep_root(b, place, hops=6):
    """root of a place, looking through the argument tuple that format_args! builds (`args = (&x,)`, `args.0`)"""
    rt = b.root(place)
    for _ in range(hops):
        fs = rt[1]
        d = b.single_def(rt[0])
        if fs and isinstance(fs[0], list) and fs[0][0] == "f" and d and d[0] == "stmt" and d[3][0] == "agg" and isinstance(d[3][1], dict) and d[3][1].get("k") == "tuple":
            op = d[3][2][int(fs[0][1])]
            p = op_place(op)
            if p is None:
                break
            rt = b.root([p[0], list(p[1]) + list(fs[1:])])
            continue
        break
    return rt


def _possible_variants(b, c, adt):
    """variants of the value at the use: those a dominating discriminant test on the same place has not sent elsewhere"""
    names = [v["name"] for v in adt.get("variants", [])]
    possible = set(names)
    ap = op_place(c.args[0]) if c.args else None
    if ap is None:
        return possible
    rt = _deep_root(b, ap)
    key = (rt[0], [x for x in rt[1] if x != "*"])
    dom = b.dominators()
    for d_ in dom.get(c.bb, set()):
        si = switch_info(b, d_)
        if not si or si["kind"] != "disc" or si["subject"][0] != "place":
            continue
        srt = si["subject"][1]
        if (srt[0], [x for x in srt[1] if x != "*"]) != key:
            continue
        for succ, labs in si["edges"].items():
            if succ == c.bb or succ in dom.get(c.bb, set()):
                # only when this edge is the only way from the test to the use
                others = [s for s in si["edges"] if s != succ]
                if not any(c.bb in b.reachable(o, avoid={d_}) for o in others):
                    possible &= set(labs)
    return possible


def _reader_texts(ctx, adt_name):
    """variant -> set of texts on whose comparison edge the front end constructs the variant ('' for an absent-character edge)"""
    out = {}
    for b in ctx.prog.bodies.values():
        if b.f["crate"] not in ("ironplc_dsl", "ironplc_parser") or "::test" in norm(b.id) or b.f.get("exp"):
            continue
        dom = None
        for i, j, s in b.all_stmts():
            if not (s[0] == "=" and s[2][0] == "agg" and isinstance(s[2][1], dict) and s[2][1].get("adt") == adt_name):
                continue
            v = s[2][1].get("variant")
            dom = dom or b.dominators()
            texts = out.setdefault(v, set())
            for d_ in dom.get(i, set()):
                si = switch_info(b, d_)
                if not si:
                    continue
                for succ, labs in si["edges"].items():
                    if not (succ == i or succ in dom.get(i, set())):
                        continue
                    if si["kind"] == "int":
                        for l in labs:
                            if str(l).isdigit() and 0 < int(l) < 0x110000:
                                texts.add(chr(int(l)))
                    elif si["kind"] == "disc" and si.get("adt") == "core::option::Option" and labs == ["None"]:
                        texts.add("")
            for g in panics._cmp_guards(b, i):
                if g[0] == "call" and g[4] and (g[1].callee or "").split("::")[-1] in ("eq", "eq_ignore_ascii_case") and len(g[1].args) == 2:
                    for a in g[1].args:
                        t = b.const_str(a)
                        if t is not None:
                            texts.add(t)
    return out


def run(ctx, rep, rid="R-C10-debugname"):
    r = rep.rule(rid, "where the renderer writes a DSL enum with the Debug formatter, the identifier of every variant that can reach that place is the text "
                      "the front end reads for the variant (a derived Debug writes the Rust name, not source text)", floor=0, floor_what="Debug-formatted DSL values in the renderer")
    n = 0
    cache = {}
    for b in sorted(ctx.prog.bodies.values(), key=lambda x: x.id):
        if b.f["crate"] != "ironplc_plc2plc" or "::test" in norm(b.id):
            continue
        k = 0
        for c in sorted(b.calls(), key=lambda c: (c.loc[0], c.loc[1])):
            if c.callee != DBG:
                continue
            ty = _formatted_type(c)
            if ty is None:
                continue
            k += 1
            n += 1
            fn = norm(b.id).split("::")[-1]
            adt = ctx.facts.adts.get(ty)
            inst = "%s|{:?} of %s#%d" % (fn, ty.split("::")[-1], k)
            if not adt or adt.get("kind") != "enum":
                r.finding(inst + "|not-an-enum", loc_str(b.f, c.loc), "a %s is written with the Debug formatter: the output is Rust's rendering of the structure, not source text" % ty)
                continue
            if ty not in cache:
                cache[ty] = _reader_texts(ctx, ty)
            texts = cache[ty]
            bad = []
            for v in adt.get("variants", []):
                if v["name"] not in _possible_variants(b, c, adt):
                    continue
                if v.get("fields"):
                    bad.append("%s (written as `%s(..)`)" % (v["name"], v["name"]))
                elif v["name"] not in texts.get(v["name"], set()):
                    rd = sorted(texts.get(v["name"], set()))
                    bad.append("%s (read from %s)" % (v["name"], ", ".join(repr(t) for t in rd) if rd else "nothing the rule could find"))
            if bad:
                r.finding(inst + "|" + ",".join(x.split(" ")[0] for x in bad), loc_str(b.f, c.loc), "the Debug formatter writes the Rust identifier of the variant, which is not the text the front end "
                          "reads for it: %s - the output does not parse back to the same value" % "; ".join(bad))
            else:
                r.ok(inst, loc_str(b.f, c.loc), "every variant that reaches this place is named by the text that is read for it")
    if not n:
        r.count_override = len([b for b in ctx.prog.bodies.values() if b.f["crate"] == "ironplc_plc2plc" and "::test" not in norm(b.id)])
        r.note("no DSL value is written with the Debug formatter today (zero expected; positive example: seeded/C10-M)")
