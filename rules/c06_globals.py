"""R-C0x-globals: the result of a run is a function of its inputs - product code keeps no mutable global.

A `static` with interior mutability (atomics, Mutex/RwLock, Cell/RefCell, OnceCell/OnceLock set from data, thread_local!,
`static mut`) carries information from one file, one request or one run of a function to the next: the second file is then
decoded, parsed or checked differently depending on what came first.  Every static that product code refers to is listed; the
immutable kinds that exist today (logos tables, phf sets, encoding_rs constants, lazily compiled constant regexes) pass, any
other kind is reported."""
import re
from vlib.mir import norm
from vlib import facts as F

MUTABLE = re.compile(r"\b(Atomic[A-Za-z0-9]*|Mutex|RwLock|RefCell|Cell|UnsafeCell|OnceCell|OnceLock|LazyCell|LazyLock|LocalKey|Condvar|Once)\b")
IMMUTABLE_LAZY = re.compile(r"lazy_static::lazy::Lazy<regex::")


def run(ctx, rep, rid="R-C06-globals"):
    r = rep.rule(rid, "product code refers to no mutable global state: every static it names is an immutable table/constant or a lazily built constant "
                      "regex; no atomics, locks, cells, once-cells filled from data, thread-locals or `static mut`", floor=6, floor_what="statics referenced from product code")
    seen = {}
    for b in ctx.prog.bodies.values():
        if b.f["crate"] not in F.PRODUCT or "::test" in norm(b.id):
            continue
        for i, where, o in b.operands():
            if o[0] == "c" and len(o) > 3 and isinstance(o[3], dict) and "static" in o[3]:
                seen.setdefault((o[3]["static"], o[1], bool(o[3].get("mutable"))), []).append(b)
    for (name, ty, mut), users in sorted(seen.items()):
        b = sorted(users, key=lambda x: x.id)[0]
        inst = "static %s" % re.sub(r"<ironplc_parser::token::TokenType as logos::Logos<'s>>::lex::", "logos::", name)
        where = "%s:%d" % (b.f["file"], b.f["line"])
        if IMMUTABLE_LAZY.search(ty) or name.endswith("__stability::LAZY") and "regex::" in ty:
            r.ok(inst, where, "lazily compiled constant regex")
        elif mut or MUTABLE.search(ty) or MUTABLE.search(name.split("::")[-1]) and False:
            r.finding(inst + "|mutable", where, "a global of type %s is used by %s: what it holds after one file/request changes how the next one is handled "
                      "(the result depends on the order and history of the inputs)" % (ty, norm(b.id).split("::")[-1]))
        else:
            r.ok(inst, where, ty[:80])
