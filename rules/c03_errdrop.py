"""R-C0x-errdrop: an error value is never thrown away by an adaptor.

`Result` implements IntoIterator (an Err yields nothing), and has `.ok()`, `.unwrap_or*()`, `.is_ok()`, `.map_or()`: each
turns a failure into "no value" or a default without anybody seeing the error.  In this code base every failure of a
conversion or of a rule is supposed to become a diagnostic, and today exactly one such adaptor exists in product code
(the directory listing, decided under R-C13-dir).  The rule lists every call that consumes a Result this way, anywhere in
the product crates outside generated parser code."""
from vlib.mir import norm, loc_macro
from vlib import facts as F

ON_RESULT = {"ok", "unwrap_or", "unwrap_or_default", "unwrap_or_else", "into_iter", "iter", "iter_mut", "map_or", "map_or_else"}
OVER_RESULTS = {"flat_map", "flatten", "filter_map", "find_map"}
EXEMPT = {
    "ironplcc::cli::enumerate_files|filter_map#1": "directory entries that cannot be read are skipped on purpose; what the directory expansion may drop is decided by R-C13-dir",
    "ironplcc::cli::enumerate_files::{closure#3}|unwrap_or_else#1": "canonicalize(entry) falls back to the entry's own path: the file stays in the set under its directory spelling and a failure to read it is reported when it is read (P0026); nothing is dropped",
}


def run(ctx, rep, rid="R-C03-errdrop", crates=None):
    r = rep.rule(rid, "no failure is swallowed by an adaptor: no Result is consumed through IntoIterator (flat_map/flatten/into_iter), .ok(), "
                      ".unwrap_or*() or .map_or*() in product code (two listed exemptions)", floor=300,
                 floor_what="calls on / over Result values scanned")
    n = 0
    found = 0
    for b in sorted(ctx.prog.bodies.values(), key=lambda x: x.id):
        if b.f["crate"] not in (crates or F.PRODUCT) or "::test" in norm(b.id):
            continue
        cnt = {}
        for c in sorted(b.calls(), key=lambda c: (c.loc[0], c.loc[1])):
            cal = c.callee or c.u or ""
            nm = cal.split("::")[-1]
            ga = c.ga or ""
            if "Result" in cal or "Result<" in ga or "ControlFlow" in cal:
                n += 1
            m = loc_macro(c.loc)
            if m and (m[0] in ("Bang:parser",) or str(m[0]).startswith("Derive:")):
                continue            # generated code: the traversal's own propagation is R-C02-propagate's subject
            hit = ("result::Result" in cal and nm in ON_RESULT) or (nm in OVER_RESULTS and "result::Result<" in ga)
            if not hit:
                continue
            k = cnt[nm] = cnt.get(nm, 0) + 1
            key = "%s|%s#%d" % (norm(b.id), nm, k)
            found += 1
            where = "%s:%d" % (b.f["file"], c.loc[0])
            if key in EXEMPT:
                r.justified(key, EXEMPT[key], where)
            else:
                r.finding(key, where, "%s() consumes a Result and forgets its Err: the failure (an unrepresentable literal component, a rule violation, an unreadable "
                          "file) produces no diagnostic" % nm)
    r.count_override = n
    r.note("%d calls on/over Result values scanned, %d error-dropping adaptors" % (n, found))
