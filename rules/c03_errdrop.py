"""R-C0x-errdrop: an error value is never thrown away by an adaptor.

`Result` implements IntoIterator (an Err yields nothing), and has `.ok()`, `.unwrap_or*()`, `.is_ok()`, `.map_or()`: each
turns a failure into "no value" or a default without anybody seeing the error.  In this code base every failure of a
conversion or of a rule is supposed to become a diagnostic, and today exactly one such adaptor exists in product code
(the directory listing, decided under R-C13-dir).  The rule lists every call that consumes a Result this way, anywhere in
the product crates outside generated parser code."""
from vlib.mir import norm, loc_macro
from vlib import facts as F

ON_RESULT = {"ok", "unwrap_or", "unwrap_or_default", "unwrap_or_else", "into_iter", "iter", "iter_mut", "map_or", "map_or_else"}
OVER_RESULTS = {"flat_map", "flatten", "filter_map", "find_map"}
EXEMPT = {
    "ironplcc::cli::enumerate_files|filter_map#1": "directory entries that cannot be read are skipped on purpose; what the directory expansion may drop is decided by R-C13-dir",
    "ironplcc::cli::enumerate_files::{closure#3}|unwrap_or_else#1": "canonicalize(entry) falls back to the entry's own path: the file stays in the set under its directory spelling and a failure to read it is reported when it is read (P0026); nothing is dropped",
}


def _closure_body(ctx, b, op):
    from vlib.mir import op_place
    p = op_place(op)
    d = b.single_def(p[0]) if p is not None and not p[1] else None
    if d and d[0] == "stmt" and d[3][0] == "agg" and d[3][1].get("k") == "closure":
        bs = ctx.prog.get(norm(d[3][1]["def"]))
        return bs[0] if bs else None
    return None


def over_results(ctx, b, c, nm, ga):
    """does this adaptor iterate *into* Results (so that an Err yields no item)?  `filter_map(|x| f(x).err())` and a `flatten()` of the lists
    of diagnostics it yields keep every error: only adaptors whose flattened item type is a Result, or whose mapping function is
    `Result::ok` itself, drop errors (an `.ok()` / `.unwrap_or()` inside a closure is reported at its own call)."""
    import re
    args = [x.strip() for x in split_top(ga.strip("[]"))] if ga else []
    if nm == "flat_map":
        # Iterator::flat_map::<U, F>: U is what the closure returns and is iterated into
        return any(a.startswith("core::result::Result<") for a in args[1:2]) or (len(args) > 1 and args[1].startswith("core::result::Result<"))
    if nm in ("filter_map", "find_map"):
        if len(c.args) > 1:
            k = b.const_of(c.args[1])
            if (k is not None and len(k) > 3 and isinstance(k[3], dict) and str(k[3].get("rfn", "")).endswith(("Result::<T, E>::ok", "result::Result::ok"))) or re.search(r"FnDef\([^)]*result::\{impl#\d+\}::ok\)", ga):
                # ... unless the Err items were split off before: `partition(Result::is_ok)` and then `filter_map(Result::ok)` on the Ok part
                from vlib.mir import op_place
                p0 = op_place(c.args[0])
                d0 = b.single_def(b.root(p0)[0]) if p0 is not None else None
                for _ in range(3):
                    if d0 and d0[0] == "call" and (d0[2].callee or "").split("::")[-1] in ("into_iter", "iter") and d0[2].args:
                        pp = op_place(d0[2].args[0])
                        rt0 = b.root(pp) if pp is not None else None
                        d0 = b.single_def(rt0[0]) if rt0 is not None else None
                        continue
                    break
                if d0 and d0[0] == "call" and (d0[2].callee or "").endswith("Iterator::partition") and "is_ok" in (d0[2].ga or ""):
                    return False
                return True
            # a closure that matches on a Result item and returns None on the Err arm (directory entries): decided by the closure's own shape
            cl = _closure_body(ctx, b, c.args[1])
            pty = (cl.f["locals"][2][0] or "") if cl is not None and cl.f["argc"] >= 2 else ""
            if re.match(r"^&?(?:'\w+ |'\{erased\} )?core::result::Result<", pty):
                return True
        return False
    if nm == "flatten":
        # the receiver's items: a closure upstream that returns a Result, or a collection of Results
        if re.match(r"^\[?(alloc::vec::into_iter::IntoIter|core::slice::iter::Iter(Mut)?)<('\w+, |'\{erased\}, )?core::result::Result<", ga):
            return True
        from vlib.mir import op_place
        p = op_place(c.args[0]) if c.args else None
        d = b.single_def(b.root(p)[0]) if p is not None else None
        if d and d[0] == "call" and (d[2].callee or "").split("::")[-1] in ("map",) and len(d[2].args) > 1:
            cl = _closure_body(ctx, b, d[2].args[1])
            if cl is not None and (cl.f["locals"][0][0] or "").startswith("core::result::Result<"):
                return True
        return False
    return "result::Result<" in ga


def split_top(s):
    out, depth, cur = [], 0, ""
    for ch in s:
        if ch in "<([":
            depth += 1
        elif ch in ">)]":
            depth -= 1
        if ch == "," and depth == 0:
            out.append(cur)
            cur = ""
        else:
            cur += ch
    if cur.strip():
        out.append(cur)
    return out


def exempt_construct(b, c, nm, ga):
    """exemptions described by what the construct is, so that they survive a move of the code to another function"""
    from vlib.mir import op_place
    if nm in ("filter_map",) and "std::fs::ReadDir" in ga:
        return "directory entries that cannot be read are skipped on purpose; what the directory expansion may drop is decided by R-C13-dir"
    if nm in ("unwrap_or_else", "unwrap_or") and c.args:
        p = op_place(c.args[0])
        d = b.single_def(b.root(p)[0]) if p is not None else None
        if d and d[0] == "call" and (d[2].callee or "") == "std::fs::canonicalize":
            return "canonicalize(path) falls back to the path itself: the file stays in the set under its own spelling and a failure to read it is reported when it is read (P0026)"
    if nm in ("ok", "unwrap_or", "unwrap_or_else", "unwrap_or_default", "map_or", "map_or_else") and c.args:
        p = op_place(c.args[0])
        d = b.single_def(b.root(p)[0]) if p is not None else None
        if d and d[0] == "call" and (d[2].callee or "") == "url::Url::parse":
            return "a URL built from a constant prefix (the link to the documentation of a problem code): the problem is reported with or without the link, nothing about the analysed program is lost"
    return None


def run(ctx, rep, rid="R-C03-errdrop", crates=None):
    r = rep.rule(rid, "no failure is swallowed by an adaptor: no Result is consumed through IntoIterator (flat_map/flatten/into_iter), .ok(), "
                      ".unwrap_or*() or .map_or*() in product code (two listed exemptions)", floor=300,
                 floor_what="calls on / over Result values scanned")
    n = 0
    found = 0
    for b in sorted(ctx.prog.bodies.values(), key=lambda x: x.id):
        if b.f["crate"] not in (crates or F.PRODUCT) or "::test" in norm(b.id):
            continue
        cnt = {}
        for c in sorted(b.calls(), key=lambda c: (c.loc[0], c.loc[1])):
            cal = c.callee or c.u or ""
            nm = cal.split("::")[-1]
            ga = c.ga or ""
            if "Result" in cal or "Result<" in ga or "ControlFlow" in cal:
                n += 1
            m = loc_macro(c.loc)
            if m and (m[0] in ("Bang:parser",) or str(m[0]).startswith("Derive:")):
                continue            # generated code: the traversal's own propagation is R-C02-propagate's subject
            hit = ("result::Result" in cal and nm in ON_RESULT) or (nm in OVER_RESULTS and over_results(ctx, b, c, nm, ga))
            if not hit:
                continue
            k = cnt[nm] = cnt.get(nm, 0) + 1
            key = "%s|%s#%d" % (norm(b.id), nm, k)
            found += 1
            where = "%s:%d" % (b.f["file"], c.loc[0])
            why = exempt_construct(b, c, nm, ga)
            if why:
                r.justified(key, why, where)
            elif key in EXEMPT:
                r.justified(key, EXEMPT[key], where)
            else:
                r.finding(key, where, "%s() consumes a Result and forgets its Err: the failure (an unrepresentable literal component, a rule violation, an unreadable "
                          "file) produces no diagnostic" % nm)
    r.count_override = n
    r.note("%d calls on/over Result values scanned, %d error-dropping adaptors" % (n, found))
