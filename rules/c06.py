"""C06 — Result independent of declaration order, file partition, file order and run (DESIGN.md §3 C06)."""
import re
from vlib.mir import norm, loc_str, op_place, loc_macro
from vlib.facts import PRODUCT

ITER = ("iter", "iter_mut", "keys", "values", "values_mut", "into_iter", "drain", "retain", "into_keys", "into_values", "extract_if")

# hash iterations whose consumer is insensitive to order (frozen, one reason each); key = function|method#ordinal
ORDER_FREE = {
    "ironplcc::cli::handle_diagnostics|into_iter#1": "for file_id in diagnostic.file_ids(): only inserts into the HashSet unique_files",
    "ironplcc::cli::handle_diagnostics|into_iter#2": "for file_id in unique_files: files.add + files_to_ids.insert; the numeric ids are opaque keys used only through files_to_ids",
    "ironplcc::cli::handle_diagnostics|into_iter#3": "as #2 (project-less branch)",
    "<ironplc_analyzer::symbol_table::Scope<'a, K, V> as core::fmt::Debug>::fmt|fmt#1": "Debug rendering of a scope, only used in trace logging",
}


def is_hash_iter(c):
    n = c.callee or ""
    m = n.split("::")[-1]
    hashy = ("hash::map::HashMap" in n or "hash::set::HashSet" in n) or (
        ("IntoIterator" in n or "Debug" in n) and ("HashMap" in (c.ga or "") or "HashSet" in (c.ga or "")))
    if hashy and (m in ITER or "Debug" in n):
        return m
    return None


def flows_to_vec(b, c):
    """does the iterator produced by call c reach a collect()/from_iter into a Vec, a push loop, or a String join?"""
    frontier = [c]
    seen = set()
    chain = []
    while frontier:
        x = frontier.pop()
        if x.bb in seen:
            continue
        seen.add(x.bb)
        chain.append((x.callee or "").split("::")[-1])
        if x.callee and x.callee.endswith(("Iterator::collect", "FromIterator<T>>::from_iter", "::join", "::concat")):
            if "alloc::vec::Vec" in (x.ga or "") or "String" in (x.ga or ""):
                return chain
        dl = x.dest[0]
        for c2 in b.calls():
            for a in c2.args:
                p = op_place(a)
                if p is not None and b.root(p)[0] == dl:
                    frontier.append(c2)
    return None


def rule_hash(ctx, rep):
    r = rep.rule("R-C06-hash", "no iteration over a std HashMap/HashSet feeds an order-sensitive consumer (Vec/String construction, first-match, output)",
                 floor=4, floor_what="hash iteration sites")
    for b in sorted(ctx.prog.bodies.values(), key=lambda x: x.id):
        if b.f["crate"] not in PRODUCT:
            continue
        n = {}
        for c in sorted(b.calls(), key=lambda c: (c.loc[0], c.loc[1], c.bb)):
            m = is_hash_iter(c)
            if not m:
                continue
            k = n[m] = n.get(m, 0) + 1
            inst = "%s|%s#%d" % (norm(b.id), m, k)
            where = loc_str(b.f, c.loc)
            chain = flows_to_vec(b, c)
            if chain:
                r.finding(inst, where, "hash-ordered iteration is collected into an ordered container (%s): the order differs between runs and insertion histories" % ">".join(chain))
            elif inst in ORDER_FREE:
                if "handle_diagnostics|into_iter#2" in inst or "handle_diagnostics|into_iter#3" in inst:
                    # "the numeric ids are opaque" holds only if no id is special: map_label falls back to id 0 for a label without a
                    # known file, so id 0 must have been given out before this hash-ordered loop
                    adds = [c2 for c2 in b.calls() if (c2.callee or "").endswith("SimpleFiles::add") or (c2.callee or "").endswith("files::SimpleFiles::<Name, Source>::add")]
                    dom = b.dominators()
                    pre = [c2 for c2 in adds if c2.bb in dom.get(c.bb, set()) and c2.bb != c.bb]
                    fallback = any((c3.callee or "").endswith("Option::unwrap_or") and "usize" in (c3.ga or "") for b3 in ctx.prog.bodies.values() if norm(b3.id).startswith("ironplcc::cli::map_label") for c3 in b3.calls())
                    if fallback and not pre:
                        r.finding(inst + "|first-id-in-hash-order", where, "map_label falls back to file id 0 for a label without a known file, and id 0 is given to whichever file the hash set "
                                  "yields first: a file-less diagnostic (P0030) is shown at a different file from run to run")
                        continue
                r.justified(inst, "order-free: " + ORDER_FREE[inst], where)
            else:
                r.finding(inst, where, "unclassified iteration over a hash collection (not in the order-free table)")
    # ordered containers keyed by position: also flag BTreeMap/sort? no - those are deterministic.


def rule_types(ctx, rep, rid="R-C06-fileid"):
    """containers that hold the compilation set must be insertion/sorted-ordered or only be accessed by key"""
    r = rep.rule(rid, "the key of the file table identifies a file structurally: FileId's PartialEq/Eq/Hash/Ord are the derived "
                                 "(field-wise) ones, so two different paths never collide and equal paths always do", floor=3)
    for tr in ("core::cmp::PartialEq", "core::hash::Hash", "core::cmp::Ord"):
        impl = [b for b in ctx.prog.bodies.values() if (b.f.get("impl") or {}).get("self") == "ironplc_dsl::core::FileId"
                and (b.f.get("impl") or {}).get("trait_def") == tr]
        inst = "FileId|" + tr.split("::")[-1]
        if not impl:
            r.finding(inst + "|missing", None, "no impl of %s for FileId found" % tr)
            continue
        b = impl[0]
        derived = False
        for c in b.calls():
            m = loc_macro(c.loc)
            if m and m[0] in ("Derive:PartialEq", "Derive:Hash", "Derive:Ord"):
                derived = True
        for i, j, s in b.all_stmts():
            m = loc_macro(s[3])
            if m and m[0] in ("Derive:PartialEq", "Derive:Hash", "Derive:Ord"):
                derived = True
        if derived and b.f.get("exp"):
            r.ok(inst, "%s:%d" % (b.f["file"], b.f["line"]), "derived")
        else:
            r.finding(inst + "|hand-written", "%s:%d" % (b.f["file"], b.f["line"]),
                      "FileId has a hand-written %s: distinct files may compare equal (one silently replaces the other in the file table)" % tr.split("::")[-1])


def call_blocks(b, suffix):
    return [c for c in b.calls() if c.callee and c.callee.endswith(suffix)]


def dominates(b, a_bb, b_bb):
    return a_bb in b.dominators().get(b_bb, set())


def rule_pipeline(ctx, rep, rid="R-C06-pipeline"):
    r = rep.rule(rid, "all libraries are concatenated before any transform; the first transform is the topological sort; "
                                   "global tables are complete (full walk / collection loop) before resolution or checking starts", floor=5, floor_what="ordering obligations")
    A = "ironplc_analyzer::"
    rt = ctx.prog.get(A + "stages::resolve_types")
    if not rt:
        rep.error(rid, "resolve_types not found")
        return
    b = rt[0]
    # (1) the xform table: ordered function constants of the vec![] literal
    order = []
    for i, j, s in b.all_stmts():
        if s[0] == "=" and s[2][0] == "agg" and s[2][1].get("k") == "array":
            for o in s[2][2]:
                k = b.const_of(o)
                if k and len(k) > 3 and isinstance(k[3], dict) and "rfn" in k[3]:
                    order.append(norm(k[3]["rfn"]))
                else:
                    # function pointers are reified through a cast of the constant
                    p = op_place(o)
                    d = b.single_def(p[0]) if p and not p[1] else None
                    if d and d[0] == "stmt" and d[3][0] == "cast":
                        kk = d[3][2]
                        if kk[0] == "c" and len(kk) > 3 and "rfn" in kk[3]:
                            order.append(norm(kk[3]["rfn"]))
    where = "%s:%d" % (b.f["file"], b.f["line"])
    if order and order[0] == A + "xform_toposort_declarations::apply":
        r.ok("resolve_types|first-transform=toposort", where, " -> ".join(x.split("::")[-2] for x in order))
    else:
        r.finding("resolve_types|first-transform", where, "the first transform is %s, not the topological sort" % (order[0] if order else "?"))
    # (2) every extend() of the library happens before the first indirect (transform) call
    #     (calls inside closures count at the place where the closure is consumed: `sources.iter().fold(.., |l, x| l.extend(..))`)
    from vlib import units
    uc = units.calls_in_unit(ctx, b)
    ext = [site for bd, c, site in uc if c.callee == "ironplc_dsl::common::Library::extend" and site is not None]
    ind = [site for bd, c, site in uc if c.callee is None and not (c.u or "") and site is not None]
    if ext and ind and all(not (e.bb in b.reachable(i.target) if i.target is not None else False) and e is not i for e in ext for i in ind):
        r.ok("resolve_types|concatenate-before-transform", where)
    else:
        r.finding("resolve_types|concatenate-before-transform", where, "a library is appended after (or interleaved with) a transform, or the shape changed")
    # (3) table-before-use inside transforms and rules
    obligations = [
        (A + "xform_resolve_late_bound_type_initializer::apply", "Visitor::walk", "fold_library", "type table walk before the resolving fold"),
        (A + "xform_resolve_late_bound_data_decl::apply", "Visitor::walk", "fold_library", "declaration graph walk before the resolving fold"),
        (A + "xform_toposort_declarations::apply", "Visitor::walk", "sorted_ids", "graph walk before the sort"),
    ]
    for fn, first, second, what in obligations:
        bs = ctx.prog.get(fn)
        if not bs:
            rep.error(rid, fn + " not found")
            continue
        bb = bs[0]
        fs = [c for c in bb.calls() if (c.callee or "").endswith(first) or (c.u or "").endswith(first)]
        ss = [c for c in bb.calls() if (c.callee or "").endswith(second) or (c.u or "").endswith(second)]
        inst = "%s|%s" % (fn.split("::")[-2], what)
        w = "%s:%d" % (bb.f["file"], bb.f["line"])
        if fs and ss and all(any(dominates(bb, f.bb, s.bb) for f in fs) for s in ss):
            r.ok(inst, w)
        else:
            r.finding(inst, w, "`%s` does not dominate `%s`" % (first, second))
    # rules that pre-collect declarations in a loop over lib.elements before walking
    for fn in (A + "rule_function_block_invocation::apply", A + "rule_use_declared_enumerated_value::apply"):
        bs = ctx.prog.get(fn)
        if not bs:
            rep.error(rid, fn + " not found")
            continue
        bb = bs[0]
        # what fills the lookup table: insert calls, or a collect()/extend()/from_iter() into a map or set (the loop written as an iterator chain)
        def fills_table(c):
            nm = c.callee or c.u or ""
            if nm.endswith(("HashMap::insert", "BTreeMap::insert", "HashSet::insert", "BTreeSet::insert")):
                return True
            last = nm.split("::")[-1]
            ty = (bb.local_ty(c.dest[0]) or "") if not c.dest[1] else ""
            if last in ("collect", "from_iter") and re.search(r"(Hash|BTree)(Map|Set)<", ty):
                return True
            if last == "extend" and c.args:
                p0 = op_place(c.args[0])
                t0 = bb.local_ty(bb.root(p0)[0]) if p0 is not None else ""
                return bool(re.search(r"(Hash|BTree)(Map|Set)<", t0 or ""))
            return False
        ins = [c for c in bb.calls() if fills_table(c)]
        walks = [c for c in bb.calls() if (c.u or c.callee or "").endswith("Visitor::walk")]
        inst = "%s|collection loop before walk" % fn.split("::")[-2]
        w = "%s:%d" % (bb.f["file"], bb.f["line"])
        # the walk must not be inside the collection loop: no insert reachable from the walk
        ok = ins and walks and all(i.bb not in bb.reachable(wk.target) for i in ins for wk in walks if wk.target is not None)
        if ok:
            r.ok(inst, w)
        else:
            r.finding(inst, w, "the rule starts walking before its lookup table is complete")
    # (4) nothing but the sort indexes Library.elements by position
    n = 0
    for bd in ctx.prog.bodies.values():
        if bd.f["crate"] != "ironplc_analyzer":
            continue
        n += 1
        for c in bd.calls():
            if (c.callee or "").endswith("::index") and "LibraryElementKind" in (c.ga or ""):
                r.finding("%s|positional-index" % norm(bd.id), loc_str(bd.f, c.loc), "Library.elements indexed by position")
    r.note("%d analyzer functions scanned for positional indexing of Library.elements" % n)


STABLE_OK = ("slice::<impl [T]>::sort", "slice::<impl [T]>::sort_by", "slice::<impl [T]>::sort_by_key", "slice::<impl [T]>::sort_by_cached_key")


def rule_stable(ctx, rep, rid="R-C06-stable"):
    """Elements that compare equal under a sort key keep their relative order only under a stable sort.  An unstable sort
    (sort_unstable*, select_nth_unstable*) of declarations, diagnostics or tokens makes the order of equal-keyed elements
    an artefact of the algorithm and of the input length.  Unstable sorts of plain integers/strings are harmless (equal elements
    are indistinguishable) and are accepted."""
    r = rep.rule(rid, "no unstable sort of structured elements in product code (equal keys would be ordered by the algorithm, not by the input)",
                 floor=0, floor_what="sort call sites")
    n = 0
    for b in sorted(ctx.prog.bodies.values(), key=lambda x: x.id):
        if b.f["crate"] not in PRODUCT or "::test" in norm(b.id):
            continue
        k = 0
        for c in sorted(b.calls(), key=lambda c: (c.loc[0], c.loc[1])):
            nm = c.callee or ""
            m = nm.split("::")[-1]
            if not (m.startswith("sort") or m.startswith("select_nth_unstable")) or "slice" not in nm:
                continue
            n += 1
            k += 1
            inst = "%s|%s#%d" % (norm(b.id), m, k)
            elem = (c.ga or "").strip("[]").split(",")[0].strip()
            plain = elem in ("u8", "u16", "u32", "u64", "u128", "usize", "i8", "i16", "i32", "i64", "i128", "isize", "char", "bool", "alloc::string::String", "&str")
            if "unstable" in m and not plain:
                r.finding(inst + "|unstable", loc_str(b.f, c.loc), "%s over %s: elements with equal keys come out in an order that depends on the algorithm and the number of elements, "
                          "not only on the input" % (m, elem or "structured elements"))
            else:
                r.ok(inst, loc_str(b.f, c.loc), "stable" if "unstable" not in m else "unstable over indistinguishable equal elements (%s)" % elem)
    if not n:
        r.count_override = 1
        r.note("no sort call in product code today (rule expects zero unstable sorts; the positive example is seeded/C06-J)")


def rule_toporder(ctx, rep, rid="R-C06-toporder"):
    """The later transforms rely on dependencies coming first.  The order handed out by DeclarationsGraph::sorted_ids is the order petgraph's
    toposort produced, mapped to names: nothing re-ranks it (a second sort by some depth or index is an order that is topological only for
    the inputs it was tried on)."""
    r = rep.rule(rid, "sorted_ids returns the topological order as petgraph produced it (mapped to names): no further sort, reverse or re-ranking of that list",
                 floor=1, floor_what="toposort call")
    bs = [b for b in ctx.prog.bodies.values() if b.f["crate"] == "ironplc_analyzer" and "DeclarationsGraph::sorted_ids" in norm(b.id) and "::test" not in norm(b.id)]
    if not bs:
        rep.error(rid, "DeclarationsGraph::sorted_ids not found")
        return
    ts = [c for b in bs for c in b.calls() if (c.callee or "") == "petgraph::algo::toposort"]
    if len(ts) != 1:
        r.finding("sorted_ids|toposort-calls=%d" % len(ts), "%s:%d" % (bs[0].f["file"], bs[0].f["line"]), "expected exactly one petgraph::algo::toposort call")
    else:
        r.ok("sorted_ids|toposort", "%s:%d" % (bs[0].f["file"], bs[0].f["line"]))
    for b in sorted(bs, key=lambda x: x.id):
        k = 0
        for c in sorted(b.calls(), key=lambda c: (c.loc[0], c.loc[1])):
            m = (c.callee or "").split("::")[-1]
            if m in ("sort", "sort_by", "sort_by_key", "sort_by_cached_key", "sort_unstable", "sort_unstable_by", "sort_unstable_by_key", "reverse", "rev", "swap", "dedup") and re.search(r"slice|vec::Vec|Iterator|iter::", c.callee or ""):
                k += 1
                r.finding("%s|%s#%d" % (norm(b.id).split("DeclarationsGraph::")[-1], m, k), loc_str(b.f, c.loc), "%s() inside sorted_ids: the list that is returned is no longer the order toposort "
                          "produced; whether dependencies still come first depends on the order in which the declarations were written" % m)


def run(ctx, rep):
    rep.not_decided += ["that verdicts/codes are invariant under permutation and partition (value-level; e.g. which node of a cycle toposort reports)",
                        "petgraph's toposort determinism for a given insertion order (trusted)"]
    rep.assumptions += ["std HashMap/HashSet iteration order is unspecified and seeded per process (RandomState)"]
    rule_hash(ctx, rep)
    rule_types(ctx, rep)
    rule_pipeline(ctx, rep)
    rule_stable(ctx, rep)
    rule_toporder(ctx, rep)
    # the files named first are still there when the last one has been added (the set does not depend on the order of the arguments)
    from rules.c03 import rule_grow
    rule_grow(ctx, rep, rid="R-C06-grow")
    # what a pre-processing step does to a file does not depend on how many elements share the file
    from rules.c08 import rule_everyblock
    rule_everyblock(ctx, rep, rid="R-C06-everyblock")
    # which of two same-named declarations survives must not depend on the order of the files: a duplicate is always an error
    from rules.c03 import rule_dupreport
    rule_dupreport(ctx, rep, rid="R-C06-dupreport")
    # the sort only removes the dependence on the order of declarations if every reference is an edge
    from rules.c07 import rule_decl_edges
    rule_decl_edges(ctx, rep, rid="R-C06-decledges", order_only=True)
    from rules.c03 import rule_allsources
    rule_allsources(ctx, rep, rid="R-C06-allsources")
    from rules.c02 import rule_stackend
    rule_stackend(ctx, rep, rid="R-C06-stackend")
    from rules.c11 import rule_keyorder
    rule_keyorder(ctx, rep, rid="R-C06-keyorder")
    from rules import c06_globals
    c06_globals.run(ctx, rep, rid="R-C06-globals")
    from rules.c02 import rule_scope
    rule_scope(ctx, rep, rid="R-C06-scope")
    from rules.c02 import rule_bracket
    rule_bracket(ctx, rep, rid="R-C06-bracket")
    # the topological sort is what makes the later transforms independent of the order of declarations: a reference and its
    # declaration must be one node however they are spelled
    from rules.c08 import rule_keys
    rule_keys(ctx, rep, rid="R-C06-keys", files=("xform_toposort_declarations",), floor=2,
              what="the declaration sort that removes the dependence on declaration order identifies names case-insensitively: every name table of xform_toposort_declarations")
