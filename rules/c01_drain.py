"""R-C01-drain: a declaration action that splits its VAR blocks with VarDeclarations::drain_* keeps every block kind its
sub-rules can produce.

For each grammar action that calls drain_* functions: the set of VarDeclarations variants that can reach it (variants
constructed anywhere in the grammar functions reachable from the rule) minus the variants the called drain functions
extract must be empty - or the last remainder must be handed on."""
from vlib.mir import norm, op_place, switch_info

GRAM = "ironplc_parser::parser::plc_parser::__parse_"
VD = "ironplc_parser::vars::VarDeclarations"


def extracted_variants(ctx, fn_body):
    """variants whose arm of the drain function moves the payload into the FIRST result (not back into the remainder)"""
    b = fn_body
    out = set()
    for i in sorted(b.reachable(0)):
        si = switch_info(b, i)
        if not (si and si["kind"] == "disc" and si.get("adt") == VD):
            continue
        arms = {}
        for succ, labs in si["edges"].items():
            for l in labs:
                arms[l] = succ
        entries = set(arms.values())
        for l, succ in arms.items():
            region = b.reachable(succ, avoid=entries - {succ})
            # an arm that re-wraps the payload into a VarDeclarations::<same variant> aggregate pushes it back
            rewrap = any(s[0] == "=" and s[2][0] == "agg" and s[2][1].get("adt") == VD for bi, _, s in b.all_stmts() if bi in region)
            if not rewrap:
                out.add(l)
    return out


def run(ctx, rep, g):
    r = rep.rule("R-C01-drain", "a declaration action that splits VAR blocks with VarDeclarations::drain_* extracts every block kind its sub-rules can "
                                "produce, or hands the remainder on", floor=3, floor_what="declaration actions using drain_*")
    drains = {}
    for b in ctx.prog.bodies.values():
        n = norm(b.id)
        if n.startswith(VD + "::drain_"):
            drains[n] = extracted_variants(ctx, b)
    for b in sorted(ctx.prog.bodies.values(), key=lambda x: x.id):
        n = norm(b.id)
        if not n.startswith(GRAM) or b.f["dk"] != "Closure":
            continue
        dc = [c for c in b.calls() if c.callee in drains]
        if not dc:
            continue
        rule = n[len(GRAM):].split("::")[0]
        extracted = set()
        for c in dc:
            extracted |= drains[c.callee]
        # is the remainder (.1) of the last drain call used?
        last = sorted(dc, key=lambda c: (c.loc[0], c.loc[1]))[-1]
        rem_used = False
        for _, k, p in b.place_uses():
            if k in ("write", "drop"):
                continue
            rt = b.root(p)
            if rt[0] == last.dest[0]:
                fl = [x[2] for x in rt[1] if isinstance(x, list) and x[0] == "f"]
                if fl[:1] == ["1"]:
                    rem_used = True
        # which variants can the rule's sub-rules produce?  (grammar-level reachability from this rule, then the MIR of those rules)
        reach = set()
        st = [rule]
        while st:
            x = st.pop()
            if x in reach or x not in g.rules:
                continue
            reach.add(x)

            def f(e, seq, c):
                for p in (e.prim, e.sep):
                    if p is not None and p.kind == "call":
                        st.append(p.name)
            g.walk_elems(g.rules[x].expr, f)
        produced = set()
        helper_fns = set()
        for fb in ctx.prog.bodies.values():
            fn = norm(fb.id)
            if fn.startswith(GRAM) and fn[len(GRAM):].split("::")[0] in reach:
                for _, _, s in fb.all_stmts():
                    if s[0] == "=" and s[2][0] == "agg" and s[2][1].get("adt") == VD:
                        produced.add(s[2][1]["variant"])
                for c in fb.calls():
                    if (c.callee or "").startswith(VD + "::") and "drain" not in c.callee:
                        helper_fns.add(c.callee)
        # VarDeclarations helpers (flat_map, with, ...) keep or re-wrap the variant they are given: no new kinds
        lost = sorted(produced - extracted)
        inst = "rule %s" % rule
        where = "parser/src/parser.rs:%d" % last.loc[0]
        if not lost or rem_used:
            r.ok(inst, where, "produced %s, extracted %s" % (sorted(produced), sorted(extracted)))
        else:
            for v in lost:
                r.finding("%s|drops VarDeclarations::%s" % (inst, v), where,
                          "sub-rules of %s can produce a %s block, no drain_* call of the action extracts it and the remainder is discarded: those variables vanish" % (rule, v))
