"""C15 — Semantic tokens decode to the highlighted lexemes (DESIGN.md §3 C15)."""
import re
from vlib.mir import norm, loc_str, op_place, switch_info, rvalue_operands
from rules.c08 import parse_attr
from rules import panics

LP = "ironplcc::lsp_project::"
TOK = "ironplc_parser::token::TokenType"
MODIFIER_WORDS = {"RETAIN", "NON_RETAIN", "CONSTANT"}
WORD_OPERATORS = {"AND", "OR", "XOR", "NOT", "MOD"}


def legend(ctx, rep, r):
    c = ctx.facts.consts.get(LP + "TOKEN_TYPE_LEGEND")
    if not c:
        rep.error("R-C15-legend", "TOKEN_TYPE_LEGEND not found")
        return None, {}
    names = re.findall(r"SemanticTokenType::([A-Z_]+)", c["src"].split("=", 1)[1])
    idx = {}
    for k, cc in ctx.facts.consts.items():
        m = re.match(re.escape(LP) + r"([A-Z_]+)_INDEX$", k)
        if m:
            v = re.search(r"=\s*(\d+)", cc["src"])
            if v:
                idx[m.group(1)] = int(v.group(1))
    return names, idx


def rule_legend(ctx, rep):
    r = rep.rule("R-C15-legend", "TOKEN_TYPE_LEGEND[i] and the *_INDEX constants agree by name, and the legend advertised in server_capabilities is that constant",
                 floor=7, floor_what="legend entries + advertisement")
    names, idx = legend(ctx, rep, r)
    if names is None:
        return None, {}
    where = "plc2x/src/lsp_project.rs"
    for n, i in sorted(idx.items()):
        inst = "%s_INDEX=%d" % (n, i)
        if i < len(names) and names[i] == n:
            r.ok(inst, where)
        else:
            r.finding(inst, where, "legend position %d holds %s, not %s" % (i, names[i] if i < len(names) else "<out of range>", n))
    for n in names:
        if n not in idx:
            r.finding("legend entry %s|no index constant" % n, where, "legend entry without *_INDEX constant")
    if len(set(names)) != len(names):
        r.finding("legend|duplicate entries", where, "duplicate legend entries")
    # advertisement
    sc = ctx.prog.get("ironplcc::lsp::LspServer::server_capabilities")
    ok = False
    if sc:
        b = sc[0]
        for _, _, o in b.operands():
            if o[0] == "c" and "TOKEN_TYPE_LEGEND" in o[2]:
                ok = True
        for pl in b.f.get("promoted", []):
            for o in pl:
                if "TOKEN_TYPE_LEGEND" in o[2]:
                    ok = True
    # ... the whole constant, in its order: the indices in the token data are positions in the *advertised* list
    whole = False
    altered = []
    if sc:
        b = sc[0]
        bodies = [b] + [cb for cb in ctx.prog.bodies.values() if cb.f["dk"] == "Closure" and cb.f.get("parent") == b.id]
        ALTER = {"filter", "filter_map", "retain", "skip", "take", "skip_while", "take_while", "step_by", "rev", "reverse", "sort", "sort_by", "sort_by_key",
                 "dedup", "remove", "swap_remove", "truncate", "pop", "drain", "split_off", "insert", "push", "extend", "chain"}
        for bd in bodies:
            for c in bd.calls():
                nm = (c.callee or c.u or "").split("::")[-1]
                if nm in ALTER:
                    altered.append("%s() at line %d" % (nm, c.loc[0]))
        for i, j, st in b.all_stmts():
            if st[0] == "=" and st[2][0] == "agg" and isinstance(st[2][1], dict) and (st[2][1].get("adt") or "").endswith("SemanticTokensLegend"):
                ops = dict(zip(st[2][1]["fields"], st[2][2]))
                p0 = op_place(ops.get("token_types")) if ops.get("token_types") else None
                d = b.single_def(b.root(p0)[0]) if p0 is not None else None
                if d and d[0] == "call" and (d[2].callee or d[2].u or "").split("::")[-1] in ("into", "to_vec", "from", "into_vec", "to_owned", "clone", "collect") and d[2].args:
                    k = b.const_of(d[2].args[0])
                    a0 = d[2].args[0]
                    txt = (k[2] if k else "") + " " + (a0[2] if a0[0] == "c" else "")
                    if "TOKEN_TYPE_LEGEND" in txt:
                        whole = True
                    else:
                        # promoted reference to the constant
                        for pl in b.f.get("promoted", []):
                            for o in pl:
                                if "TOKEN_TYPE_LEGEND" in o[2] and a0[0] == "c" and "promoted" in a0[2]:
                                    whole = True
    if ok and whole and not altered:
        r.ok("server_capabilities advertises TOKEN_TYPE_LEGEND", "plc2x/src/lsp.rs", "token_types is the constant itself")
    elif ok and (altered or not whole):
        r.finding("server_capabilities|legend-altered", "plc2x/src/lsp.rs", "the advertised legend is derived from TOKEN_TYPE_LEGEND but not the constant as it is (%s): "
                  "the *_INDEX constants in the token data index the full list, so every class after a dropped or moved entry is decoded as another one"
                  % (", ".join(altered) or "token_types is not TOKEN_TYPE_LEGEND.into()/to_vec()"))
    else:
        r.finding("server_capabilities|legend", "plc2x/src/lsp.rs", "the advertised legend is not the TOKEN_TYPE_LEGEND constant")
    return names, idx


def derived_class(vname, attrs):
    """allowed classes for a TokenType variant, derived from the lexer's own attributes"""
    toks = [parse_attr(a) for a in attrs]
    toks = [t for t in toks if t]
    if vname == "Identifier":
        return {"VARIABLE"}
    if vname == "Comment":
        return {"COMMENT"}
    if vname in ("Whitespace", "Newline"):
        return {None}
    if vname in ("SingleByteString", "DoubleByteString"):
        return {"STRING", None}
    if vname.startswith("DirectAddress"):
        return {"OPERATOR", None}
    lits = [t[1] for t in toks if t[0] == "token"]
    if lits:
        lettered = [l for l in lits if any(c.isalpha() for c in l)]
        if lettered:
            allowed = {"KEYWORD"}
            if any(l.upper() in MODIFIER_WORDS for l in lettered):
                allowed.add("MODIFIER")
            if any(l.upper() in WORD_OPERATORS for l in lettered):
                allowed.add("OPERATOR")
            return allowed
        return {"OPERATOR", None}
    # regex-only tokens: numbers and other literals
    return {None}


def rule_class(ctx, rep, names, idx):
    r = rep.rule("R-C15-class", "the token-kind -> legend-index match is exhaustive without a wildcard arm and every arm agrees with the class derived "
                                "from the lexer's own attributes (lettered #[token] = KEYWORD/MODIFIER/word-OPERATOR, Identifier = VARIABLE, Comment = COMMENT, "
                                "symbols = OPERATOR or none, literals = STRING or none)", floor=134, floor_what="TokenType variants")
    bs = [b for k, b in ctx.prog.bodies.items() if "LspTokenType" in k and b.f["name"] == "from" and b.f["crate"] == "ironplcc" and b.f["dk"] == "AssocFn"]
    if not bs:
        rep.error("R-C15-class", "impl From<LspTokenType> for Option<SemanticToken> not found")
        return
    b = bs[0]
    a = ctx.facts.astattrs.get(TOK)
    adt = ctx.facts.adts.get(TOK)
    lines = {v["name"]: v["line"] for v in adt["variants"]}
    byval = {v: k for k, v in idx.items()}
    sw = None
    for i in sorted(b.reachable(0)):
        si = switch_info(b, i)
        if si and si["kind"] == "disc" and si.get("adt") == TOK:
            sw = si
            break
    if sw is None:
        rep.error("R-C15-class", "no match on TokenType in the conversion")
        return
    arm = {}
    for succ, labs in sw["edges"].items():
        # value assigned in the arm block: Option::Some(const IDX) or None
        val = "?"
        for s in b.stmts(succ):
            if s[0] == "=" and s[2][0] == "agg" and s[2][1].get("adt") == "core::option::Option":
                if s[2][1]["variant"] == "None":
                    val = None
                else:
                    k = b.const_of(s[2][2][0])
                    if k and len(k) > 3 and "int" in k[3]:
                        val = byval.get(int(k[3]["int"]), "index %s" % k[3]["int"])
        for l in labs:
            arm[l] = val
    where0 = "%s:%d" % (b.f["file"], b.f["line"])
    if "otherwise" in arm:
        r.finding("match|wildcard-arm", where0, "the match has a reachable wildcard arm: a new token kind would be classified silently")
    for vname in [v["name"] for v in adt["variants"]]:
        inst = "TokenType::%s" % vname
        if vname not in arm:
            if "otherwise" in arm:
                got = arm["otherwise"]
            else:
                r.finding(inst + "|unhandled", where0, "variant not handled by the match")
                continue
        else:
            got = arm[vname]
        allowed = derived_class(vname, a["variants"].get(vname, {}).get("attrs", []))
        where = "%s:%d" % (adt["file"], lines.get(vname, 0))
        if got in allowed:
            r.ok(inst + "=>" + str(got), where)
        elif got is None:
            # not highlighting a lexeme is an omission, not a wrong legend entry (the property does not demand completeness)
            r.ok(inst + "=>None", where, "unclassified")
            r.note("keyword/identifier-like token %s is not highlighted at all (allowed: the property demands correct, not complete, classes)" % vname)
        else:
            r.finding(inst + "=>" + str(got), where, "classified as %s, but its lexer attributes make it %s" % (got, sorted(str(x) for x in allowed)))


STATE_PARAMS = {}      # body id -> parameters that are the `&mut state` of an Iterator::scan (the position of the previous token)


def _carried(b, o):
    """is the operand state carried from one token to the next: a captured variable of a closure, or a local that is assigned more than
    once (initialised before the loop, updated in it)?  `tok.span.start - tok.col` subtracts two values of the current token."""
    p = op_place(o)
    if p is None:
        return False
    rt = b.root(p)
    if b.f["dk"] == "Closure" and rt[0] == 1:
        return True
    if rt[0] in STATE_PARAMS.get(norm(b.id), ()):
        return True         # read through the state that scan() carries from one item to the next
    return len(b.defs.get(rt[0], [])) > 1 and not rt[1]


def depends_on_sub(b, op, depth=8, carried=False):
    """does the operand's value depend (through casts/moves/calls) on a subtraction?  With carried=True only a subtraction one of whose
    operands is state carried over from the previous token counts."""
    seen = set()
    st = [op]
    while st and depth:
        o = st.pop()
        p = op_place(o)
        if p is None:
            continue
        rt = b.root(p)
        if rt[0] in seen:
            continue
        seen.add(rt[0])
        for d in b.defs.get(rt[0], []):
            if d[0] == "stmt":
                rv = d[3]
                if rv[0] == "bin" and rv[1] in ("Sub", "SubWithOverflow", "SubUnchecked") and (not carried or _carried(b, rv[2]) or _carried(b, rv[3])):
                    return True
                st.extend(rvalue_operands(rv))
                if rv[0] == "ref":
                    st.append(["cp", rv[2]])
            elif d[0] == "call":
                c = d[2]
                if (c.callee or "").split("::")[-1] in ("abs_diff", "checked_sub", "wrapping_sub", "saturating_sub", "sub", "overflowing_sub") \
                        and (not carried or any(_carried(b, a) for a in c.args)):
                    return True
                st.extend(c.args)
    return False


CONVERT_STEP = [None]      # id of the filter_map closure whose every output goes through the re-encoding map


def reencoded_in_tokenize(ctx):
    """LspProject::tokenize builds its Ok list as  filter_map(<closure building LspTokenType and converting>)
    .map(<closure that rebuilds each SemanticToken with subtraction-dependent deltas>).collect()  -- returns (ok, detail)"""
    STATE_PARAMS.clear()
    tb = ctx.prog.get(LP + "LspProject::tokenize")
    if not tb:
        return False, "LspProject::tokenize not found"
    b = tb[0]
    closures = {norm(cb.id): cb for cb in ctx.prog.bodies.values() if cb.f.get("parent") == b.id}

    def closure_of(call, argi):
        p = op_place(call.args[argi]) if len(call.args) > argi else None
        d = b.single_def(p[0]) if p and not p[1] else None
        if d and d[0] == "stmt" and d[3][0] == "agg" and d[3][1].get("k") == "closure":
            return closures.get(norm(d[3][1]["def"]))
        return None
    fm = [c for c in b.calls() if (c.callee or "").endswith("Iterator::filter_map")]
    mp = [c for c in b.calls() if (c.callee or "").endswith("Iterator::map")]
    co = [c for c in b.calls() if (c.callee or "").endswith("Iterator::collect")]
    for f in fm:
        fc = closure_of(f, 1)
        if not fc or not any(s[0] == "=" and s[2][0] == "agg" and s[2][1].get("adt") == LP + "LspTokenType" for _, _, s in fc.all_stmts()):
            continue
        for m in mp:
            mp0 = op_place(m.args[0])
            if mp0 is None or b.root(mp0)[0] != f.dest[0]:
                continue
            mc = closure_of(m, 1)
            if not mc:
                continue
            good = False
            for _, _, s in mc.all_stmts():
                if s[0] == "=" and s[2][0] == "agg" and s[2][1].get("adt") == "lsp_types::semantic_tokens::SemanticToken":
                    ops = dict(zip(s[2][1]["fields"], s[2][2]))
                    if depends_on_sub(mc, ops["delta_line"], carried=True) and depends_on_sub(mc, ops["delta_start"], carried=True):
                        good = True
            if not good:
                continue
            for c in co:
                cp = op_place(c.args[0])
                if cp is not None and b.root(cp)[0] == m.dest[0]:
                    CONVERT_STEP[0] = norm(fc.id)
                    return True, "filter_map(convert) -> map(re-encode with differences) -> collect"
    # the same with the carried state made explicit: filter_map(convert).scan(first, |prev, tok| Some(re-encode(prev, tok))).collect()
    sc = [c for c in b.calls() if (c.callee or "").endswith("Iterator::scan")]
    for f in fm:
        fc = closure_of(f, 1)
        if not fc or not any(s[0] == "=" and s[2][0] == "agg" and s[2][1].get("adt") == LP + "LspTokenType" for _, _, s in fc.all_stmts()):
            continue
        for sc_ in sc:
            sp0 = op_place(sc_.args[0]) if sc_.args else None
            if sp0 is None or b.root(sp0)[0] != f.dest[0] or len(sc_.args) < 3:
                continue
            cl = closure_of(sc_, 2)
            if cl is None:
                continue
            # the body that re-encodes: the closure itself (state = its parameter 2) or the function it hands the state to
            cands = [(cl, 2)]
            for c2 in cl.calls():
                for k_, a in enumerate(c2.args):
                    ap = op_place(a)
                    if ap is not None and cl.root(ap)[0] == 2 and (c2.callee or "").startswith("ironplcc::"):
                        for hb in ctx.prog.get(c2.callee):
                            cands.append((hb, k_ + 1))
            for eb, sp in cands:
                STATE_PARAMS[norm(eb.id)] = {sp}
                good = False
                for _, _, s in eb.all_stmts():
                    if s[0] == "=" and s[2][0] == "agg" and s[2][1].get("adt") == "lsp_types::semantic_tokens::SemanticToken":
                        ops = dict(zip(s[2][1]["fields"], s[2][2]))
                        if depends_on_sub(eb, ops["delta_line"], carried=True) and depends_on_sub(eb, ops["delta_start"], carried=True):
                            good = True
                # the state is replaced by the position of the current token
                updated = any(s[0] == "=" and s[1][0] == sp and "*" in s[1][1] for _, _, s in eb.all_stmts())
                if not (good and updated):
                    STATE_PARAMS.pop(norm(eb.id), None)
                    continue
                for c in co:
                    cp = op_place(c.args[0])
                    if cp is not None and b.root(cp)[0] == sc_.dest[0]:
                        CONVERT_STEP[0] = norm(fc.id)
                        return True, "filter_map(convert) -> scan(previous position, re-encode with differences and update) -> collect"
    CONVERT_STEP[0] = None
    # the same written as a loop: the returned vector is filled by push() only, and every pushed token is built right there with
    # subtraction-dependent deltas (whatever was converted before is an intermediate value of the same function)
    # (a re-encoding helper of the same file - `Ok(encode_relative(absolute))` - is part of tokenize: it is spliced in)
    from vlib.inline import inlined
    bi = inlined(ctx.prog, b)
    fin = pushed_final_tokens(bi)
    if fin and all(depends_on_sub(bi, ops["delta_line"], carried=True) and depends_on_sub(bi, ops["delta_start"], carried=True) for _, ops in fin):
        CONVERT_STEP[0] = norm(b.id)
        return True, "loop: every token pushed into the returned vector is built with differences" + (" (in %s)" % ", ".join(x.split("::")[-1] for x in bi.f.get("inlined", [])) if bi.f.get("inlined") else "")
    return False, "no filter_map(convert).map(re-encode).collect() chain (or push loop) with subtraction-dependent deltas in LspProject::tokenize"


def pushed_final_tokens(b):
    """LspProject::tokenize in loop form: [(stmt, {field: operand})] of the SemanticToken aggregates pushed into the vector that is returned in
    Ok(..); [] when the returned vector is not filled by pushes of tokens built in this body alone"""
    ST = "lsp_types::semantic_tokens::SemanticToken"
    vecs = set()
    for i, j, st in b.all_stmts():
        if st[0] == "=" and st[1] == [0, []] and st[2][0] == "agg" and st[2][1].get("variant") == "Ok" and st[2][2]:
            p = op_place(st[2][2][0])
            if p is not None:
                vecs.add(b.root(p)[0])
    out = []
    for v in vecs:
        if ST not in (b.f["locals"][v][0] or ""):
            continue
        defs = b.defs.get(v, [])
        if not (defs and all(d[0] == "call" and (d[2].callee or "").endswith(("Vec::new", "Vec::with_capacity")) for d in defs)):
            return []
        for c in b.calls():
            if not c.args:
                continue
            p0 = op_place(c.args[0])
            if p0 is None or b.root(p0)[0] != v:
                continue
            nm = (c.callee or "").split("::")[-1]
            if nm in ("len", "is_empty", "iter", "as_slice", "deref", "capacity", "reserve"):
                continue
            if nm != "push" or len(c.args) < 2:
                return []
            xp = op_place(c.args[1])
            d = b.single_def(xp[0]) if xp is not None and not xp[1] else None
            if not (d and d[0] == "stmt" and d[3][0] == "agg" and d[3][1].get("adt") == ST):
                return []
            out.append((d, dict(zip(d[3][1]["fields"], d[3][2]))))
    return out


def rule_verbatim(ctx, rep, rid="R-C15-verbatim"):
    """Every position the server reports (diagnostic ranges, token starts and lengths) is computed in the text the server stored and
    is interpreted by the client in the text it sent.  They are the same text only if `Source` stores what it is given and
    `as_string` returns what is stored: no normalisation of line endings, no trimming, no re-encoding in between."""
    r = rep.rule(rid, "the document text is stored and handed out verbatim: every Source {..} aggregate takes `data` from the constructor's parameter by move, "
                      "Source::as_string returns a borrow of `data`, and neither calls a text-transforming function", floor=2)
    SRC = "ironplcc::source::Source"
    EDIT = {"replace", "replacen", "lines", "trim", "trim_end", "trim_start", "trim_matches", "trim_end_matches", "trim_start_matches", "to_lowercase", "to_uppercase",
            "split", "join", "retain", "truncate", "pop", "remove", "insert", "insert_str", "push", "push_str", "strip_prefix", "strip_suffix", "nfc", "chars", "bytes"}
    n = 0
    for b in sorted(ctx.prog.bodies.values(), key=lambda x: x.id):
        if b.f["crate"] != "ironplcc" or "::test" in norm(b.id):
            continue
        for i, j, st in b.all_stmts():
            if st[0] == "=" and st[2][0] == "agg" and isinstance(st[2][1], dict) and st[2][1].get("adt") == SRC:
                n += 1
                ops = dict(zip(st[2][1]["fields"], st[2][2]))
                p0 = op_place(ops.get("data")) if ops.get("data") else None
                rt = b.root(p0) if p0 is not None else None
                fn = norm(b.id).replace("ironplcc::", "")
                inst = "%s|Source { data }" % fn
                fam = [b] + [cb for cb in ctx.prog.bodies.values() if cb.f["dk"] == "Closure" and cb.f.get("parent") == b.id]
                edits = sorted({(c.callee or c.u or "").split("::")[-1] for bd in fam for c in bd.calls() if (c.callee or c.u or "").split("::")[-1] in EDIT
                                and ("str" in (c.callee or "") or "String" in (c.callee or ""))})
                # helpers of the same module called here that edit text
                for c in b.calls():
                    for t in (ctx.prog.get(c.callee) if c.callee else []):
                        if t.f["crate"] == "ironplcc" and "::source::" in norm(t.id) and t.id != b.id and (t.local_ty(0) or "").endswith("String"):
                            edits.append("%s()" % norm(t.id).split("::")[-1])
                if rt is not None and 1 <= rt[0] <= b.f["argc"] and not rt[1] and not edits:
                    r.ok(inst, loc_str(b.f, st[3]), "data = parameter, moved")
                else:
                    r.finding(inst + "|text-transformed", loc_str(b.f, st[3]), "the stored text is not the text that was passed in (%s): positions computed in the stored text "
                              "do not fit the client's document (a multi-line comment in a CRLF file is one unit short per line break)" % (", ".join(edits) or "data is not the parameter"))
    ab = ctx.prog.get(SRC + "::as_string")
    if ab:
        b = ab[0]
        n += 1
        bad = sorted({(c.callee or c.u or "").split("::")[-1] for c in b.calls()} - {"borrow", "as_str", "deref", "as_ref"})
        if bad:
            r.finding("Source::as_string|transforms", "%s:%d" % (b.f["file"], b.f["line"]), "as_string calls %s" % ", ".join(bad))
        else:
            r.ok("Source::as_string|borrow of data", "%s:%d" % (b.f["file"], b.f["line"]))


def rule_delta(ctx, rep):
    r = rep.rule("R-C15-delta", "delta_line / delta_start of the SemanticTokens that reach the response are differences: they data-depend on a "
                                "subtraction (relative encoding). A conversion that stores absolute positions is accepted only when its input type is built "
                                "solely inside LspProject::tokenize and tokenize re-encodes every converted token", floor=2, floor_what="delta fields")
    reenc, detail = reencoded_in_tokenize(ctx)
    # LspTokenType (the conversion's input) is constructed only inside LspProject::tokenize
    outside = []
    for b in ctx.prog.bodies.values():
        if b.f["crate"] != "ironplcc":
            continue
        for _, _, s in b.all_stmts():
            if s[0] == "=" and s[2][0] == "agg" and s[2][1].get("adt") == LP + "LspTokenType" and not norm(b.id).startswith(LP + "LspProject::tokenize"):
                outside.append(norm(b.id))

    for b in sorted(ctx.prog.bodies.values(), key=lambda x: x.id):
        if b.f["crate"] != "ironplcc":
            continue
        for i, j, s in b.all_stmts():
            if s[0] == "=" and s[2][0] == "agg" and s[2][1].get("adt") == "lsp_types::semantic_tokens::SemanticToken":
                ops = dict(zip(s[2][1]["fields"], s[2][2]))
                for fld in ("delta_line", "delta_start"):
                    fn = "From<LspTokenType>::from" if "LspTokenType" in b.id else norm(b.id).replace("ironplcc::", "")
                    inst = "%s|SemanticToken.%s" % (fn, fld)
                    if depends_on_sub(b, ops[fld], carried=True):
                        r.ok(inst, loc_str(b.f, s[3]))
                    elif "LspTokenType" in b.id and reenc and not outside:
                        r.justified(inst, "absolute position, but this conversion's input (LspTokenType) is only built inside LspProject::tokenize, "
                                          "which re-encodes every converted token: " + detail, loc_str(b.f, s[3]))
                    elif reenc and CONVERT_STEP[0] and norm(b.id).startswith(CONVERT_STEP[0]):
                        r.justified(inst, "absolute position built inside the conversion step of LspProject::tokenize, every output of which goes through "
                                          "the re-encoding step: " + detail, loc_str(b.f, s[3]))
                    else:
                        r.finding(inst, loc_str(b.f, s[3]), "%s is an absolute position (no subtraction of the previous token's position feeds it): the response decodes to wrong ranges after the first token" % fld)
        for i, j, s in b.all_stmts():
            if s[0] == "=":
                fl = [x for x in s[1][1] if isinstance(x, list) and x[0] == "f"]
                if fl and fl[-1][3] == "lsp_types::semantic_tokens::SemanticToken" and fl[-1][2] in ("delta_line", "delta_start"):
                    inst = "%s|assign SemanticToken.%s" % (norm(b.id).replace("ironplcc::", ""), fl[-1][2])
                    srcs = rvalue_operands(s[2])
                    if s[2][0] == "bin" and s[2][1].startswith("Sub") or any(depends_on_sub(b, o) for o in srcs):
                        r.ok(inst, loc_str(b.f, s[3]))
                    else:
                        r.finding(inst, loc_str(b.f, s[3]), "assigned without a subtraction")


MEASURING = {"index", "get", "get_unchecked", "chars", "char_indices", "encode_utf16", "len", "is_char_boundary", "is_empty", "bytes", "as_bytes", "as_str", "deref", "borrow",
             "as_ref", "clone", "to_string", "to_owned", "into", "from", "fmt", "lines", "split_at", "starts_with", "ends_with", "eq", "ne", "find", "rfind", "contains",
             "count", "next", "into_iter", "iter", "map", "fold", "sum", "filter", "take_while", "rev", "last", "nth", "split", "rsplit", "rsplit_once", "split_once",
             "len_utf16", "len_utf8", "new_display", "new_debug", "as_string", "unwrap", "expect", "unwrap_or", "unwrap_or_default", "map_or", "and_then", "ok_or"}


def rule_measured(ctx, rep, rid="R-C15-measured"):
    """Every position the server reports is a position in the text the client has.  lsp_project obtains that text with Source::as_string and
    measures in it (slices it at token / label offsets, counts characters and UTF-16 units).  Any *other* function applied to the text
    inside lsp_project that hands back text - a preprocessing pass, a normalisation, a replacement - makes the measured text a different
    one: every position after the first changed character is off (the comment blanker writes one blank per byte, so non-ASCII text in an
    OSCAT block shifts what follows on its line)."""
    from vlib import units
    r = rep.rule(rid, "inside lsp_project the text obtained from Source::as_string is only sliced, iterated and measured: it is handed to no function that returns another text "
                      "before positions are computed in it", floor=2, floor_what="uses of Source::as_string in lsp_project")
    n = 0
    for b in sorted(ctx.prog.bodies.values(), key=lambda x: x.id):
        if b.f["crate"] != "ironplcc" or "::lsp_project::" not in norm(b.id) or "::test" in norm(b.id):
            continue
        seeds = {c.dest[0] for c in b.calls() if (c.callee or "").endswith("source::Source::as_string") and not c.dest[1]}
        if not seeds:
            continue
        taint = units.forward(b, seeds)
        fn = norm(b.id).replace("ironplcc::lsp_project::", "")
        k = 0
        for c in sorted(b.calls(), key=lambda c: (c.loc[0], c.loc[1])):
            if (c.callee or "").endswith("source::Source::as_string"):
                n += 1
                r.ok("%s|as_string#%d" % (fn, n), loc_str(b.f, c.loc), "the document text")
                continue
            if not any(op_place(a) is not None and op_place(a)[0] in taint for a in c.args):
                continue
            nm = (c.callee or c.u or "?").split("::")[-1]
            ty = re.sub(r"\s", "", b.local_ty(c.dest[0]) or "")
            texty = ("str" in ty or "String" in ty) and "Iter" not in ty and "Chars" not in ty and "Split" not in ty and "Option<usize>" not in ty
            if nm in MEASURING or not texty:
                continue
            k += 1
            r.finding("%s|%s applied to the document text#%d" % (fn, nm, k), loc_str(b.f, c.loc), "the text of the document is handed to %s, which returns another text (%s); positions computed in "
                      "that text are positions in a text the client does not have" % (c.callee or c.u or "?", b.local_ty(c.dest[0])))
    if not n:
        rep.error(rid, "no call of Source::as_string in lsp_project (anchor moved)")


def rule_null(ctx, rep):
    r = rep.rule("R-C15-null", "a document with a lexical error yields a null result: LspProject::tokenize builds the Ok list only when the tokenizer's "
                               "diagnostics are empty, and handle_request answers Err with None", floor=2)
    tb = ctx.prog.get(LP + "LspProject::tokenize")
    if not tb:
        rep.error("R-C15-null", "LspProject::tokenize not found")
        return
    b = tb[0]
    tk = [c for c in b.calls() if (c.u or c.callee or "").endswith("Project::tokenize")]
    oks = [i for i, j, s in b.all_stmts() if s[0] == "=" and s[1] == [0, []] and s[2][0] == "agg" and s[2][1].get("variant") == "Ok"]
    good = bool(tk) and bool(oks)
    for i in oks:
        ok1 = False
        for g in panics._cmp_guards(b, i):
            if g[0] == "call" and g[1].callee in ("alloc::vec::Vec::is_empty", "core::slice::is_empty") and g[4]:
                rt = b.root(op_place(g[1].args[0]))
                if tk and rt[0] == tk[0].dest[0] and [x[2] for x in rt[1] if isinstance(x, list) and x[0] == "f"] == ["1"]:
                    ok1 = True
        good = good and ok1
    where = "%s:%d" % (b.f["file"], b.f["line"])
    if good:
        r.ok("LspProject::tokenize|Ok only when diagnostics empty", where)
    else:
        r.finding("LspProject::tokenize|partial-list", where, "an Ok token list can be returned although the tokenizer reported diagnostics")
    # the function of the server that asks for the tokens: handle_request itself, or the helper it hands the request to
    hbs = [h for h in ctx.prog.bodies.values() if norm(h.id).startswith("ironplcc::lsp::") and "::test" not in norm(h.id)
           and any(c.callee == LP + "LspProject::tokenize" for c in h.calls())]
    if not hbs:
        r.finding("handle_request|no-tokenize", "plc2x/src/lsp.rs", "no function of the language server calls LspProject::tokenize (anchor moved)")
    for h in hbs:
        hname = norm(h.id).split("::")[-1]
        good = False
        for i in sorted(h.reachable(0)):
            si = switch_info(h, i)
            if si and si["kind"] == "disc" and si["subject"][0] == "call" and si["subject"][1].callee == LP + "LspProject::tokenize":
                for succ, labs in si["edges"].items():
                    if labs == ["Err"]:
                        # on the Err arm a send_response with a None result: sent from the arm itself, or after the arms joined with a
                        # value that the Err arm (and nothing after it) set to None
                        region = h.reachable(succ)
                        others = set()
                        for s2, l2 in si["edges"].items():
                            if l2 != ["Err"]:
                                others |= h.reachable(s2)
                        only_err = region - others
                        for c in h.calls():
                            if c.bb in region and c.callee == "ironplcc::lsp::LspServer::send_response" and len(c.args) > 2:
                                p = op_place(c.args[2])
                                for _ in range(4):
                                    d = h.single_def(p[0]) if p and not p[1] else None
                                    if d and d[0] == "stmt" and d[3][0] == "use" and d[3][1][0] in ("cp", "mv") and not d[3][1][1][1]:
                                        p = d[3][1][1]
                                    else:
                                        break
                                if d and d[0] == "stmt" and d[3][0] == "agg" and d[3][1].get("variant") == "None" and (c.bb in only_err or d[1] in only_err):
                                    good = True
                                elif p is not None and not p[1] and c.bb not in only_err:
                                    ds = [d_ for d_ in h.defs.get(p[0], []) if d_[1] in region]
                                    in_err = [d_ for d_ in ds if d_[1] in only_err]
                                    after = [d_ for d_ in ds if d_[1] not in only_err and c.bb in h.reachable(d_[1]) and d_[1] != c.bb]
                                    if in_err and all(d_[0] == "stmt" and d_[3][0] == "agg" and d_[3][1].get("variant") == "None" for d_ in in_err) and not after:
                                        good = True
        if not good:
            # the function hands the result back (`fn semantic_tokens_full(&self, uri) -> Option<SemanticTokensResult>`): None is what it returns
            # on the Err arm, and every caller in the server sends what it got as the result of the response
            for i in sorted(h.reachable(0)):
                si = switch_info(h, i)
                if not (si and si["kind"] == "disc" and si["subject"][0] == "call" and si["subject"][1].callee == LP + "LspProject::tokenize"):
                    continue
                for succ, labs in si["edges"].items():
                    if labs != ["Err"]:
                        continue
                    others = set()
                    for s2, l2 in si["edges"].items():
                        if l2 != ["Err"]:
                            others |= h.reachable(s2)
                    only_err = h.reachable(succ) - others
                    rets = [(i2, st) for i2, _, st in h.all_stmts() if st[0] == "=" and st[1] == [0, []]]
                    err_rets = [st for i2, st in rets if i2 in only_err]
                    if err_rets and all(st[2][0] == "agg" and isinstance(st[2][1], dict) and st[2][1].get("variant") == "None" for st in err_rets):
                        callers = [(cb, c) for cb in ctx.prog.bodies.values() if norm(cb.id).startswith("ironplcc::lsp::") for c in cb.calls() if norm(c.callee or "") == norm(h.id)]
                        sent = 0
                        for cb, c in callers:
                            for c2 in cb.calls():
                                if c2.callee == "ironplcc::lsp::LspServer::send_response" and len(c2.args) > 2:
                                    p2 = op_place(c2.args[2])
                                    if p2 is not None and cb.root(p2)[0] == c.dest[0] and not cb.root(p2)[1]:
                                        sent += 1
                        if callers and sent == len(callers):
                            good = True
        if good:
            r.ok("%s|Err => None result" % hname, "%s:%d" % (h.f["file"], h.f["line"]))
        else:
            r.finding("%s|Err-arm" % hname, "%s:%d" % (h.f["file"], h.f["line"]), "the Err arm of tokenize does not answer with a null result")


VEC_DROPPERS = ("dedup", "dedup_by", "dedup_by_key", "retain", "retain_mut", "truncate", "remove", "swap_remove", "pop", "drain", "clear", "split_off",
                "sort", "sort_by", "sort_by_key", "sort_unstable", "sort_unstable_by", "sort_unstable_by_key", "reverse", "insert", "extract_if")


def rule_linecomment(ctx, rep, rid="R-C15-linecomment"):
    """A `//` comment is the text up to, not including, the end of the line.  A pattern that also takes the line terminator yields a token
    that is one (or two) units longer than its lexeme and extends into the next line - which a client without multi-line token support
    cannot even represent.  The pattern is read from the lexer's attributes and tried on all strings over {/, x, CR, LF} up to length 6."""
    import itertools
    r = rep.rule(rid, "the pattern of a `//` comment matches no string that contains a line terminator", floor=1, floor_what="line comment patterns")
    a = ctx.facts.astattrs.get("ironplc_parser::token::TokenType")
    pats = []
    for at in (a or {"variants": {}})["variants"].get("Comment", {}).get("attrs", []):
        m = re.search(r'#\[regex\(r"(.*?)"(?:,|\))', at)
        if m and m.group(1).startswith("//"):
            pats.append(m.group(1))
    if not pats:
        r.count_override = 1
        r.note("the lexer has no `//` comment pattern")
        return
    for ptn in pats:
        try:
            rxp = re.compile(ptn)
        except re.error as e:
            r.finding("TokenType::Comment|%s|not-analysable" % ptn, "parser/src/token.rs", "cannot compile the pattern: %s" % e)
            continue
        bad = None
        for n in range(2, 7):
            for tup in itertools.product("/x\r\n", repeat=n):
                w = "".join(tup)
                if ("\n" in w or "\r" in w) and rxp.fullmatch(w):
                    bad = w
                    break
            if bad:
                break
        if bad:
            r.finding("TokenType::Comment|line comment|takes the line break", "parser/src/token.rs", "the pattern `%s` matches `%s`: the comment token includes its line terminator, so its range is longer than "
                      "the comment and ends on the next line" % (ptn, bad.replace("\r", "\\r").replace("\n", "\\n")))
        else:
            r.ok("TokenType::Comment|%s" % ptn, "parser/src/token.rs", "no match contains CR or LF")


def rule_nodrop(ctx, rep, rid="R-C15-nodrop"):
    """The relative encoding makes every token's position depend on all tokens before it.  Once the list is encoded, removing,
    reordering or inserting an element shifts every later token.  No Vec<SemanticToken> in the language-server crate is modified in
    place (only built by collect/push), and no dropping/reordering iterator adaptor runs over already encoded tokens."""
    r = rep.rule(rid, "a list of (relative-encoded) SemanticTokens is never edited in place: no dedup/retain/remove/sort/... on a Vec<SemanticToken>",
                 floor=0, floor_what="in-place edits of token lists")
    n = 0
    for b in sorted(ctx.prog.bodies.values(), key=lambda x: x.id):
        if b.f["crate"] != "ironplcc" or "::test" in norm(b.id):
            continue
        k = 0
        for c in sorted(b.calls(), key=lambda c: (c.loc[0], c.loc[1])):
            nm = c.callee or ""
            m = nm.split("::")[-1]
            if m in VEC_DROPPERS and ("alloc::vec::Vec" in nm or "slice" in nm) and "SemanticToken" in (c.ga or ""):
                k += 1
                n += 1
                r.finding("%s|%s#%d" % (norm(b.id).replace("ironplcc::", ""), m, k), loc_str(b.f, c.loc), "%s() on a list of semantic tokens: positions are relative to the previous token, so "
                          "removing or moving one element shifts every token after it" % m)
    if not n:
        r.count_override = 1
        r.note("no in-place edit of a Vec<SemanticToken> today (zero expected; positive example: seeded/C15-K)")


def rule_newline(ctx, rep, rid="R-C15-newline"):
    """The line of a token is what the lexer's counter says; the client splits the same text at the protocol's line terminators
    (LF, CR LF, lone CR).  The two agree on the Newline token only if every string that token can match contains as many characters
    the counter counts as it contains protocol line terminators.  The counter's set is read from lexer::tokenize (the character
    tests that lead to an advance of `line`), the token's language from its patterns (enumerated up to length 3 over CR, LF, FF, other)."""
    import itertools
    from vlib.mir import switch_info
    from vlib.mir import rvalue_operands
    r = rep.rule(rid, "every string the Newline token can match has as many line breaks for the lexer's line counter as for an LSP client (LF, CR LF, lone CR): "
                      "a lone CR taken as a Newline would leave all later tokens on the old line", floor=2, floor_what="Newline patterns")
    lb = ctx.prog.get("ironplc_parser::lexer::tokenize")
    a = ctx.facts.astattrs.get("ironplc_parser::token::TokenType")
    if not lb or not a:
        rep.error(rid, "lexer::tokenize or TokenType attributes not found")
        return
    from vlib.inline import inlined
    b = inlined(ctx.prog, lb[0])
    from rules.c05 import lexer_counters
    LINE = lexer_counters(b).get("line")
    if LINE is None:
        rep.error(rid, "cannot find the counter that fills Token.line in lexer::tokenize")
        return
    dom = b.dominators()
    counted = set()
    unconditional = False
    for i, j, st in b.all_stmts():
        if st[0] == "=" and st[1] == [LINE, []] and i != 0 and not (st[2][0] == "use" and st[2][1][0] == "c"):
            found = False
            for d_ in dom.get(i, set()):
                si = switch_info(b, d_)
                if si and si["kind"] == "int":
                    for succ, labs in si["edges"].items():
                        if (succ == i or succ in dom.get(i, set())) and all(str(x).isdigit() for x in labs):
                            sp = si["subject"][1] if si["subject"][0] == "place" else None
                            sty = None
                            if sp is not None:
                                fs = [x for x in sp[1] if isinstance(x, list) and x[0] == "f"]
                                sty = fs[-1][5] if fs else b.local_ty(sp[0])
                            if sty == "char":
                                counted |= {chr(int(x)) for x in labs}
                                found = True
                if si and si["kind"] == "bool" and si["subject"][0] == "bin" and si["subject"][1] == "Eq":
                    # `if c == '\n'`
                    from rules.c05 import panics_int
                    for succ, labs in si["edges"].items():
                        if labs == [True] and (succ == i or succ in dom.get(i, set())):
                            for o in si["subject"][2:4]:
                                v = panics_int(b, o)
                                if v is not None and o[0] == "c" and o[1] == "char":
                                    counted.add(chr(v))
                                    found = True
            if not found:
                unconditional = True
    if not counted:
        r.finding("lexer::tokenize|line-break characters", "%s:%d" % (b.f["file"], b.f["line"]), "cannot find the character test that guards the advance of `line`")
        return
    pats = []
    for at in a["variants"].get("Newline", {}).get("attrs", []):
        m = re.search(r'#\[regex\(r"(.*?)"(?:,|\))', at) or re.search(r'#\[token\("(.*?)"', at)
        if m:
            pats.append(m.group(1))
    if not pats:
        r.finding("TokenType::Newline|no-pattern", "parser/src/token.rs", "no pattern found on the Newline token")
        return

    def lsp_breaks(w):
        return len(re.findall(r"\r\n|\r|\n", w))
    for ptn in pats:
        try:
            rxp = re.compile(ptn)
        except re.error as e:
            r.finding("TokenType::Newline|%s|not-analysable" % ptn, "parser/src/token.rs", "cannot compile the pattern: %s" % e)
            continue
        bad = None
        nacc = 0
        for n in range(1, 4):
            for tup in itertools.product("\r\n\fa", repeat=n):
                w = "".join(tup)
                if rxp.fullmatch(w):
                    nacc += 1
                    lx = sum(1 for ch in w if ch in counted)
                    if lx != lsp_breaks(w) and bad is None:
                        bad = (w, lx, lsp_breaks(w))
        shown = lambda w: w.replace("\r", "\\r").replace("\n", "\\n").replace("\f", "\\f")
        if bad:
            r.finding("TokenType::Newline|%s|line-count-differs" % ptn, "parser/src/token.rs", "the pattern matches `%s`: the lexer's counter (advances on %s) counts %d line break(s) in it, "
                      "an LSP client %d; tokens after it are reported on the wrong line, and text that is not valid (a lone CR) is tokenized" % (
                          shown(bad[0]), ",".join(sorted(repr(c) for c in counted)), bad[1], bad[2]))
        else:
            r.ok("TokenType::Newline|%s" % ptn, "parser/src/token.rs", "%d matching string(s) up to length 3; counter and client agree on each" % nacc)
    r.note("the line counter advances on %s%s" % (sorted(counted), " (and somewhere unconditionally)" if unconditional else ""))


def run(ctx, rep):
    rep.not_decided += ["strict monotonicity / non-overlap of the decoded ranges (value-level)", "lengths in UTF-16 units, multi-line comment tokens",
                        "behaviour after edit histories beyond R-C11-cache (the tokenizer reads the current text)"]
    rep.assumptions += ["LSP relative encoding: deltaLine/deltaStart are differences to the previous token", "logos attributes are the lexer's definition of a token kind"]
    names, idx = rule_legend(ctx, rep)
    if names is not None:
        rule_class(ctx, rep, names, idx)
    rule_delta(ctx, rep)
    rule_null(ctx, rep)
    rule_measured(ctx, rep)
    # the tokens are those of the text the document has now: of several whole-document events in one notification the last one counts
    from rules.c11 import rule_last
    rule_last(ctx, rep, rid="R-C15-last")
    # "of the current document text ... after arbitrary edit histories": tokens are computed from the project's current
    # sources, which are replaced wholesale on every change, and the adapter keeps no history of its own
    from rules.c11 import rule_cache, rule_stateless, rule_scheme
    # "of the current document text": the text of *this* document, not of another document that has the same path under another URL scheme
    rule_scheme(ctx, rep, rid="R-C15-scheme")
    rule_cache(ctx, rep, rid="R-C15-current")
    rule_stateless(ctx, rep, rid="R-C15-stateless")
    # spans are byte offsets into the pre-processed text but are applied to the original text: the pre-processor must keep every byte position
    from rules import c05_blank
    c05_blank.run(ctx, rep, rid="R-C15-blank")
    from rules.c05 import rule_linecol
    rule_linecol(ctx, rep, rid="R-C15-linecol")
    from rules.c05 import rule_tile
    rule_tile(ctx, rep, rid="R-C15-tile")
    from rules import c15_units
    c15_units.run(ctx, rep)
    rule_verbatim(ctx, rep)
    rule_newline(ctx, rep)
    rule_nodrop(ctx, rep)
    rule_linecomment(ctx, rep)
    # a comment token must be exactly one comment (a pattern that runs on to a later `*)` paints code as comment)
    from rules import c08_trivia
    c08_trivia.run_comment(ctx, rep, rid="R-C15-comment")
    # R-C05-noop (column after a comment) is decided under C05
