"""C05 — Every reported position points at the text it is about (DESIGN.md §3 C05): structural necessary conditions."""
import re, json
from vlib.mir import norm, loc_str, op_place, loc_macro, rvalue_operands
from vlib.traversal import Traversal, snake

SPAN = "ironplc_dsl::core::SourceSpan"
TOKEN = "ironplc_parser::token::Token"
TOKTYPE = "ironplc_parser::token::TokenType"


def span_fields(ctx):
    out = []
    for aid, a in ctx.facts.adts.items():
        if a["crate"] != "ironplc_dsl":
            continue
        for v in a["variants"]:
            for fl in v["fields"]:
                if fl["ty"] == SPAN:
                    out.append((aid, fl["name"], v["name"]))
    return out


class Prov:
    """provenance of SourceSpan values: 'token' (from a token span / position!() / join), 'default' (SourceSpan::default, range(0,0)),
    or the set of other span fields / parameters it is copied from (resolved to a fixed point)."""

    def __init__(self, ctx):
        self.ctx = ctx
        self.prog = ctx.prog
        self.bodies = [b for b in ctx.prog.bodies.values() if b.f["crate"] in ("ironplc_parser", "ironplc_dsl")]
        self.callers = {}
        for b in self.bodies:
            for c in b.calls():
                if c.callee:
                    self.callers.setdefault(c.callee, []).append((b, c))
        self.memo = {}

    def of_operand(self, b, op, depth=8):
        if depth == 0:
            return {"unknown"}
        if op[0] == "c":
            return {"unknown"}
        p = op[1]
        rt = b.root(p)
        flds = [x for x in rt[1] if isinstance(x, list) and x[0] == "f"]
        if flds:
            last = flds[-1]
            if last[5] in (SPAN, "&" + SPAN):
                if last[3] == TOKEN:
                    return {"token"}
                if last[3].startswith("ironplc_dsl::") or last[3] == "(tuple)" or last[3] == "(closure)":
                    if last[3] in ("(tuple)", "(closure)"):
                        # captured / tuple component: try the debug name -> defining local in the parent
                        return self.of_capture(b, rt, depth)
                    return {("field", last[3], last[2])}
            if last[3] == "(closure)":
                return self.of_capture(b, rt, depth)
        if rt[0] <= b.f["argc"] and rt[0] > 0 and not flds:
            return {("param", norm(b.id), rt[0])}
        out = set()
        defs = b.defs.get(rt[0], [])
        if not defs:
            return {"unknown"}
        for d in defs:
            if d[0] == "call":
                c = d[2]
                cal = c.callee or ""
                if cal in ("<%s as core::default::Default>::default" % SPAN, SPAN + "::default") or (cal == "core::default::Default::default" and SPAN in (c.ga or "")):
                    out.add("default")
                elif cal == SPAN + "::range":
                    from rules import panics
                    a0, a1 = panics._int_const(b, c.args[0]), panics._int_const(b, c.args[1])
                    if a0 == 0 and a1 == 0:
                        out.add("default")
                    else:
                        # numbers that are peg positions are indices into the token list, not byte offsets
                        from vlib.numflow import sources_of
                        src = sources_of(self.prog, b, c.args[0]) | sources_of(self.prog, b, c.args[1])
                        if any(x[0] == "field" and x[1].startswith("peg_runtime::RuleResult") for x in src):
                            out.add("index")
                        else:
                            out.add("token")
                elif cal in (SPAN + "::join", SPAN + "::join2"):
                    out.add("token")
                elif cal.endswith("Clone>::clone") or cal == SPAN + "::with_file_id" or cal.endswith("::borrow") or cal.endswith("::deref"):
                    out |= self.of_operand(b, c.args[0], depth - 1)
                elif cal.endswith("Located>::span") or cal.endswith("Located::span"):
                    out.add(("located", c.st or "?"))
                else:
                    out.add("unknown")
            elif d[0] == "stmt":
                rv = d[3]
                if rv[0] in ("use", "cast"):
                    out |= self.of_operand(b, rv[1] if rv[0] == "use" else rv[2], depth - 1)
                elif rv[0] == "ref":
                    out |= self.of_operand(b, ["cp", rv[2]], depth - 1)
                elif rv[0] == "agg" and rv[1].get("adt") == SPAN:
                    # SourceSpan { start, end, file_id } built from numbers: positions
                    out.add("token")
                else:
                    out.add("unknown")
        return out

    def of_capture(self, b, rt, depth):
        """a closure environment field: find the operand the parent stored there"""
        if b.f["dk"] != "Closure":
            return {"unknown"}
        idx = [x for x in rt[1] if isinstance(x, list) and x[0] == "f"][0][1]
        rest = [x for x in rt[1] if isinstance(x, list) and x[0] == "f"][1:]
        out = set()
        for pb in self.prog.get(norm(b.f["parent"])):
            for i, j, s in pb.all_stmts():
                if s[0] == "=" and s[2][0] == "agg" and s[2][1].get("k") == "closure" and norm(s[2][1]["def"]) == norm(b.id):
                    op = s[2][2][idx]
                    if rest:
                        pl = op_place(op)
                        if pl is None:
                            continue
                        prt = pb.root(pl)
                        op = ["cp", [prt[0], list(prt[1]) + rest]]
                    out |= self.of_operand(pb, op, depth - 1)
        return out or {"unknown"}

    def field(self, adt, fld, stack=()):
        key = (adt, fld)
        if key in self.memo:
            return self.memo[key]
        if key in stack:
            return set()
        raw = set()
        for b in self.bodies:
            for i, j, s in b.all_stmts():
                if s[0] != "=":
                    continue
                if s[2][0] == "agg" and s[2][1].get("adt") == adt and fld in s[2][1].get("fields", []):
                    m = loc_macro(s[3])
                    if m and m[0] in ("Derive:Clone", "Derive:Recurse"):
                        continue   # copies / folds of an existing value
                    op = s[2][2][s[2][1]["fields"].index(fld)]
                    raw |= self.of_operand(b, op)
                fl = [x for x in s[1][1] if isinstance(x, list) and x[0] == "f"]
                if fl and fl[-1][3] == adt and fl[-1][2] == fld and s[2][0] == "use":
                    raw |= self.of_operand(b, s[2][1])
        res = self.resolve(raw, stack + (key,))
        self.memo[key] = res
        return res

    def resolve(self, raw, stack):
        out = set()
        for x in raw:
            if isinstance(x, tuple) and x[0] == "field":
                out |= self.field(x[1], x[2], stack)
            elif isinstance(x, tuple) and x[0] == "param":
                fn, idx = x[1], x[2]
                sites = self.callers.get(fn, [])
                # a constructor nobody in the parse pipeline calls writes nothing that can reach a label
                for (cb, c) in sites:
                    if idx - 1 < len(c.args):
                        out |= self.resolve(self.of_operand(cb, c.args[idx - 1]), stack)
            elif isinstance(x, tuple) and x[0] == "located":
                out.add("token")   # a span computed from another located node
            else:
                out.add(x)
        return out


def located_sources(ctx, ty, seen=None):
    """base span fields that <ty as Located>::span reads (following delegation to other Located impls)"""
    seen = seen if seen is not None else set()
    if ty in seen:
        return set()
    seen.add(ty)
    out = set()
    for b in ctx.prog.bodies.values():
        im = b.f.get("impl") or {}
        if im.get("trait_def") != "ironplc_dsl::core::Located" or im.get("self") != ty:
            continue
        for _, k, p in b.place_uses():
            if k == "write":
                continue
            fl = [x for x in p[1] if isinstance(x, list) and x[0] == "f"]
            if fl and fl[-1][5] in (SPAN, "&" + SPAN):
                out.add((fl[-1][3], fl[-1][2]))
        for c in b.calls():
            if (c.callee or "").endswith("Located>::span") and c.st:
                out |= located_sources(ctx, c.st, seen)
            if c.callee == SPAN + "::join2":
                # join2 takes &dyn Located: the static types of its arguments
                for a in c.args:
                    p = op_place(a)
                    if p is None:
                        continue
                    d = b.single_def(p[0])
                    if d and d[0] == "stmt" and d[3][0] == "cast":
                        m = re.match(r"&(.*)", d[3][3])
                        if m:
                            out |= located_sources(ctx, m.group(1).strip(), seen)
    return out


def rule_prov(ctx, rep):
    r = rep.rule("R-C05-prov", "a span used for a diagnostic label originates from token spans: no Label::span in the analyzer reads a span field "
                               "whose every writer in the parse pipeline is SourceSpan::default()/range(0,0)", floor=30, floor_what="Label::span sites in the analyzer")
    pv = Prov(ctx)
    fields = span_fields(ctx)
    prov = {}
    for adt, fld, var in fields:
        prov[(adt, fld)] = pv.field(adt, fld)
    r.note("span field provenance: " + "; ".join("%s.%s=%s" % (a.split("::")[-1], f, "/".join(sorted(str(x) for x in p)) or "never-written")
                                                  for (a, f), p in sorted(prov.items())))
    counts = {}
    for b in sorted(ctx.prog.bodies.values(), key=lambda x: x.id):
        if b.f["crate"] != "ironplc_analyzer":
            continue
        for c in sorted(b.calls(), key=lambda c: (c.loc[0], c.loc[1])):
            if c.callee != "ironplc_dsl::diagnostic::Label::span":
                continue
            fn = norm(b.id).replace("ironplc_analyzer::", "")
            k = counts[fn] = counts.get(fn, 0) + 1
            # what does the span argument come from?
            srcs = set()
            p = op_place(c.args[0])
            d = b.single_def(b.root(p)[0]) if p else None
            if d and d[0] == "call":
                cal = d[2].callee or ""
                if cal.endswith("Located>::span") and d[2].st:
                    srcs = located_sources(ctx, d[2].st)
                elif cal.endswith("Clone>::clone"):
                    ap = op_place(d[2].args[0])
                    fl = [x for x in b.root(ap)[1] if isinstance(x, list) and x[0] == "f"] if ap else []
                    if fl and fl[-1][5] in (SPAN, "&" + SPAN):
                        srcs = {(fl[-1][3], fl[-1][2])}
                elif cal in (SPAN + "::with_file_id", SPAN + "::range", SPAN + "::default"):
                    srcs = {("synthetic", cal.split("::")[-1])}
            inst = "%s|Label::span#%d" % (fn, k)
            where = loc_str(b.f, c.loc)
            bad = [s for s in srcs if s[0] != "synthetic" and prov.get(s) and prov[s] <= {"default", "index"}]
            if bad:
                for s in sorted(bad):
                    if "index" in prov[s]:
                        r.finding("%s|reads %s.%s|token-index" % (inst, s[0].split("::")[-1], s[1]), where,
                                  "the label's span comes from %s.%s, which the grammar fills with peg position!() values - indices into the token list, not byte "
                                  "offsets: the label covers unrelated text near the top of the file" % (s[0].split("::")[-1], s[1]))
                    else:
                        r.finding("%s|reads %s.%s" % (inst, s[0].split("::")[-1], s[1]), where,
                                  "the label's span comes from %s.%s, which the parser only ever fills with SourceSpan::default(): the diagnostic points at offset 0..0" % (s[0].split("::")[-1], s[1]))
            else:
                r.ok(inst, where, ",".join("%s.%s" % (s[0].split("::")[-1], s[1]) for s in sorted(srcs)) or "span source not a DSL field")
    # a label that is the *join* of two spans: if one of them can be the default span (0..0, written by some fold or constructor for nodes
    # it synthesises) the join starts at 0 or ends before it starts.  Looked at with the helpers of the same file spliced in
    # (`declaration_span(node, &x.keyword_span)`).
    from vlib.inline import inlined
    # fields that a transform of the analyzer fills with the default span when it builds a node in place of a parsed one
    synth_default = {}
    for ab in ctx.prog.bodies.values():
        if ab.f["crate"] != "ironplc_analyzer" or "::test" in norm(ab.id):
            continue
        for _, _, st in ab.all_stmts():
            if not (st[0] == "=" and st[2][0] == "agg" and isinstance(st[2][1], dict) and (st[2][1].get("adt") or "").startswith("ironplc_dsl::") and st[2][1].get("adt") != SPAN):
                continue
            for fname, o in zip(st[2][1].get("fields", []), st[2][2]):
                op_ = op_place(o)
                dd = ab.single_def(ab.root(op_)[0]) if op_ is not None else None
                if dd and dd[0] == "call":
                    cal = dd[2].callee or ""
                    if cal in ("<%s as core::default::Default>::default" % SPAN, SPAN + "::default") or (cal == "core::default::Default::default" and SPAN in (dd[2].ga or "")):
                        synth_default[(st[2][1]["adt"], fname)] = loc_str(ab.f, st[3])
    kj = 0
    for b0 in sorted(ctx.prog.bodies.values(), key=lambda x: x.id):
        if b0.f["crate"] != "ironplc_analyzer" or "::test" in norm(b0.id):
            continue
        if not any((c.callee or "") == "ironplc_dsl::diagnostic::Label::span" for c in b0.calls()):
            continue
        b = inlined(ctx.prog, b0)
        for c in sorted(b.calls(), key=lambda c: (c.loc[0], c.loc[1])):
            if c.callee != "ironplc_dsl::diagnostic::Label::span":
                continue
            p = op_place(c.args[0])
            d = b.single_def(b.root(p)[0]) if p else None
            if not (d and d[0] == "call" and (d[2].callee or "") in (SPAN + "::join", SPAN + "::join2")):
                continue
            kj += 1
            fn = norm(b0.id).replace("ironplc_analyzer::", "")
            maybe = []
            for a in d[2].args:
                ap = op_place(a)
                if ap is None:
                    continue
                rt = b.root(ap)
                fl = [x for x in rt[1] if isinstance(x, list) and x[0] == "f"]
                srcs = set()
                if fl and (fl[-1][5] or "").replace("&", "") == SPAN:
                    srcs = {(fl[-1][3], fl[-1][2])}
                else:
                    dd = b.single_def(rt[0])
                    if dd and dd[0] == "call" and (dd[2].callee or "").endswith("Located>::span") and dd[2].st:
                        srcs = located_sources(ctx, dd[2].st)
                maybe += [s_ for s_ in sorted(srcs) if s_ in synth_default]
            inst = "%s|Label::span(join)#%d" % (fn, kj)
            if maybe:
                r.finding(inst + "|joins " + ",".join("%s.%s" % (s_[0].split("::")[-1], s_[1]) for s_ in maybe) + "|may-be-default", loc_str(b.f, c.loc),
                          "the label is the join of two spans one of which comes from %s, which a transform of the analyzer fills with SourceSpan::default() when it builds the node "
                          "(%s): for such a node the label runs from offset 0 or ends before it starts" % (", ".join("%s.%s" % (s_[0].split("::")[-1], s_[1]) for s_ in maybe), synth_default[maybe[0]]))
            else:
                r.ok(inst, loc_str(b.f, c.loc), "neither end comes from a field that an analyzer transform fills with the default span")
    # join2: `end` must be fed from an `.end`
    rule_join(ctx, rep)


def rule_join(ctx, rep, rid="R-C05-join"):
    rj = rep.rule(rid, "SourceSpan::join/join2 build `start` from a start, `end` from an end and keep the file id of their input "
                       "(a joined span without file id belongs to no file: the editor drops the diagnostic)", floor=2)
    for name in ("join", "join2"):
        for b in ctx.prog.get(SPAN + "::" + name):
            aggs = [s for i, j, s in b.all_stmts() if s[0] == "=" and s[2][0] == "agg" and isinstance(s[2][1], dict) and s[2][1].get("adt") == SPAN]
            if not aggs:
                # built by some other constructor: only with_file_id(..) of an input's id keeps the file
                wf = [c for c in b.calls() if (c.callee or "").endswith("SourceSpan::with_file_id")]
                if wf:
                    rj.ok("SourceSpan::%s" % name, "%s:%d" % (b.f["file"], b.f["line"]), "file id re-attached with with_file_id")
                else:
                    rj.finding("SourceSpan::%s|file-id-lost" % name, "%s:%d" % (b.f["file"], b.f["line"]),
                               "the joined span is not assembled from its inputs (no SourceSpan {..} and no with_file_id): it carries FileId::default()")
                continue
            for i, j, s in b.all_stmts():
                if s[0] == "=" and s[2][0] == "agg" and s[2][1].get("adt") == SPAN:
                    ops = dict(zip(s[2][1]["fields"], s[2][2]))
                    probs = []
                    for fld in ("start", "end"):
                        p = op_place(ops[fld])
                        rt = b.root(p) if p else None
                        fl = [x[2] for x in rt[1] if isinstance(x, list) and x[0] == "f"] if rt else []
                        if fl and fl[-1] in ("start", "end") and fl[-1] != fld:
                            probs.append("`%s` is fed from a `.%s`" % (fld, fl[-1]))
                    fo = ops.get("file_id")
                    fp = op_place(fo) if fo else None
                    okf = False
                    if fp is not None:
                        d = b.single_def(b.root(fp)[0])
                        src = op_place(d[2].args[0]) if d and d[0] == "call" and (d[2].callee or d[2].u or "").split("::")[-1] == "clone" and d[2].args else fp
                        rt = b.root(src) if src else None
                        okf = bool(rt) and any(isinstance(x, list) and x[0] == "f" and x[2] == "file_id" for x in rt[1])
                    if not okf:
                        probs.append("`file_id` is not taken from an input span")
                    if probs:
                        rj.finding("SourceSpan::%s|%s" % (name, ";".join(probs)), loc_str(b.f, s[3]), "; ".join(probs) + ": joined labels do not cover first..last construct of their own file")
                    else:
                        rj.ok("SourceSpan::%s" % name, loc_str(b.f, s[3]))


def rule_fold(ctx, rep):
    r = rep.rule("R-C05-fold", "the file-id fold reaches every Id and span: TransformFileId overrides only fold_source_span and keeps start/end; "
                               "parse_program returns xform_assign_file_id::apply(parsed library, caller's file_id); no containment edge to Id is "
                               "hidden from the default fold", floor=4)
    T = Traversal(ctx, "fold")
    impls = T.impls({"ironplc_parser"})
    tf = [(k, v) for k, v in impls.items() if "TransformFileId" in k]
    if not tf:
        rep.error("R-C05-fold", "TransformFileId not found")
        return
    name, ms = tf[0]
    where = "parser/src/xform_assign_file_id.rs"
    if set(ms) == {"fold_source_span"}:
        r.ok("TransformFileId|overrides only fold_source_span", where)
    else:
        r.finding("TransformFileId|overrides %s" % sorted(ms), where, "overriding other fold methods can cut the traversal short of some spans")
    b = ms.get("fold_source_span")
    if b:
        ok = False
        for i, j, s in b.all_stmts():
            if s[0] == "=" and s[2][0] == "agg" and s[2][1].get("adt") == SPAN:
                ops = dict(zip(s[2][1]["fields"], s[2][2]))
                good = True
                for fld in ("start", "end"):
                    p = op_place(ops[fld])
                    rt = b.root(p) if p else None
                    fl = [x[2] for x in rt[1] if isinstance(x, list) and x[0] == "f"] if rt else []
                    good = good and rt is not None and rt[0] == 2 and fl == [fld]
                p = op_place(ops["file_id"])
                d = b.single_def(b.root(p)[0]) if p else None
                fid_ok = False
                if d and d[0] == "call" and d[2].callee.endswith("Clone>::clone"):
                    ap = op_place(d[2].args[0])
                    fl = [x[2] for x in b.root(ap)[1] if isinstance(x, list) and x[0] == "f"] if ap else []
                    fid_ok = fl == ["file_id"] and b.root(ap)[0] == 1
                ok = good and fid_ok
        if ok:
            r.ok("fold_source_span|start<-start,end<-end,file_id<-self.file_id", where)
        else:
            r.finding("fold_source_span|fields", where, "the folded span does not keep start/end or does not take the transform's file id")
    # reach: every fold_* for a type that contains an Id/SourceSpan is reached from Library
    R = T.reach([("rv", "ironplc_dsl::common::Library")], ms)
    meth = {x for k, x in R if k == "v"}
    if "fold_id" in meth and "fold_source_span" in meth:
        r.ok("fold reaches fold_id and fold_source_span from Library", where, "%d fold methods reached" % len(meth))
    else:
        r.finding("fold|unreached", where, "fold_id / fold_source_span are not reached from Library")
    cont = T.containment()
    hidden = []
    for ty, kids in sorted(cont.items()):
        if ty not in T.recurse:
            continue
        visited = {x for k, x in T.recurse[ty] if k == "v"}
        for u in sorted(kids):
            if u not in ("ironplc_dsl::core::Id", SPAN):
                continue
            want = "fold_" + snake(u.split("::")[-1])
            if want not in visited:
                hidden.append((ty, u))
    for ty, u in hidden:
        # is the hidden field read as a span source anywhere in analyzer / plc2x?
        flds = [fl["name"] for v in ctx.facts.adts[ty]["variants"] for fl in v["fields"] if u in fl["ty"]]
        read = False
        for b2 in ctx.prog.bodies.values():
            if b2.f["crate"] not in ("ironplc_analyzer", "ironplcc"):
                continue
            for _, k, p in b2.place_uses():
                for x in p[1]:
                    if isinstance(x, list) and x[0] == "f" and x[3] == ty and x[2] in flds and k != "write":
                        read = True
        inst = "%s -> %s" % (ty.split("::")[-1], u.split("::")[-1])
        a = ctx.facts.adts[ty]
        if read or ty in [s for s in []]:
            r.finding("hidden|" + inst, "%s:%d" % (a["file"], a["line"]), "the fold does not reach this %s, yet analyzer/CLI code reads it: its file id stays the default" % u.split("::")[-1])
        else:
            r.justified("hidden|" + inst, "not traversed by the fold, and never read by analyzer or CLI code", "%s:%d" % (a["file"], a["line"]))
    # Located::span impls may also expose such hidden spans
    # parse_program
    pb = ctx.prog.get("ironplc_parser::parse_program")
    if pb:
        b = pb[0]
        ap = [c for c in b.calls() if c.callee == "ironplc_parser::xform_assign_file_id::apply"]
        ok = False
        if len(ap) == 1 and ap[0].dest == [0, []]:
            fp = op_place(ap[0].args[1])
            ok = fp is not None and b.root(fp)[0] == 2
        other_ok = [s for _, _, s in b.all_stmts() if s[0] == "=" and s[1] == [0, []] and s[2][0] == "agg" and s[2][1].get("variant") == "Ok"]
        if ok and not other_ok:
            r.ok("parse_program|returns xform_assign_file_id::apply(library, file_id)", "parser/src/lib.rs:%d" % b.f["line"])
        else:
            r.finding("parse_program|file-id-assignment", "parser/src/lib.rs:%d" % b.f["line"], "the parsed library can be returned without passing through the file-id transform with the caller's file id")


def rule_copy(ctx, rep):
    r = rep.rule("R-C05-copy", "identifier() builds the Id from text and span of the same token; the lexer builds each Token from span()/slice() of the "
                               "same lexer state and from the running line/col counters", floor=2)
    FROM = ("ironplc_dsl::core::Id::from", "ironplc_dsl::common::Type::from")
    WITH = ("ironplc_dsl::core::Id::with_position", "ironplc_dsl::common::Type::with_position")
    # every name the grammar builds from a token's text (today: rule identifier), in any action closure of any rule
    for b in sorted((x for x in ctx.prog.bodies.values() if x.f["crate"] == "ironplc_parser" and "::plc_parser::" in norm(x.id)), key=lambda x: x.id):
        fr = [c for c in b.calls() if c.callee in FROM]
        wp = [c for c in b.calls() if c.callee in WITH]
        if not fr:
            continue

        def tok_root(op, want):
            cur = op_place(op)
            for _ in range(5):
                if cur is None:
                    return None
                rt = b.root(cur)
                fl = [x for x in rt[1] if isinstance(x, list) and x[0] == "f"]
                if fl and fl[-1][3] == TOKEN:
                    return (rt[0], tuple(x[2] for x in fl[:-1]), fl[-1][2])
                d = b.single_def(rt[0])
                if d and d[0] == "call" and d[2].args:
                    cur = op_place(d[2].args[0])
                else:
                    return None
            return None
        rname = norm(b.id).split("::__parse_")[-1]
        for k, f0 in enumerate(fr):
            t1 = tok_root(f0.args[0], "text")
            if t1 is None:
                continue            # not built from a token (placeholder constants are R-C01-ident's business)
            t2 = tok_root(wp[0].args[1], "span") if wp else None
            where = "parser/src/parser.rs:%d" % f0.loc[0]
            inst = "identifier" if rname == "identifier::{closure#0}" else rname
            if t1 and t2 and t1[2] == "text" and t2[2] == "span" and t1[:2] == t2[:2]:
                r.ok("%s|Id::from(i.text).with_position(i.span) on one token" % inst, where)
            else:
                r.finding("%s|text/span" % inst, where, "a name is built from a token's text but does not get that token's span (text from %s, span from %s): "
                          "diagnostics about it point at offset 0" % (t1, t2))
    lb = ctx.prog.get("ironplc_parser::lexer::tokenize")
    if lb:
        b = lb[0]
        ok = 0
        for i, j, s in b.all_stmts():
            if s[0] == "=" and s[2][0] == "agg" and s[2][1].get("adt") == TOKEN:
                ops = dict(zip(s[2][1]["fields"], s[2][2]))
                probs = []
                # line / col from the counters
                for fld in ("line", "col"):
                    p = op_place(ops[fld])
                    rt = b.root(p) if p else None
                    if not (rt and b.local_name(rt[0]) == fld):
                        probs.append("%s is not the `%s` counter" % (fld, fld))
                # text from lexer.slice()
                p = op_place(ops["text"])
                cur, seen_slice = p, False
                for _ in range(5):
                    if cur is None:
                        break
                    d = b.single_def(b.root(cur)[0])
                    if d and d[0] == "call":
                        if d[2].callee == "logos::lexer::Lexer::slice":
                            seen_slice = True
                            break
                        cur = op_place(d[2].args[0]) if d[2].args else None
                    else:
                        break
                if not seen_slice:
                    probs.append("text is not lexer.slice()")
                # span.start / span.end from lexer.span()
                sp = op_place(ops["span"])
                sd = b.single_def(sp[0]) if sp else None
                if sd and sd[0] == "stmt" and sd[3][0] == "agg" and sd[3][1].get("adt") == SPAN:
                    sops = dict(zip(sd[3][1]["fields"], sd[3][2]))
                    for fld in ("start", "end"):
                        pp = op_place(sops[fld])
                        rt = b.root(pp) if pp else None
                        d2 = b.single_def(rt[0]) if rt else None
                        fl = [x[2] for x in rt[1] if isinstance(x, list) and x[0] == "f"] if rt else []
                        if not (d2 and d2[0] == "call" and d2[2].callee == "logos::lexer::Lexer::span" and fl == [fld]):
                            probs.append("span.%s is not lexer.span().%s" % (fld, fld))
                else:
                    probs.append("span is not built from lexer.span()")
                if probs:
                    r.finding("lexer::tokenize|Token{..}", loc_str(b.f, s[3]), "; ".join(probs))
                else:
                    ok += 1
                    r.ok("lexer::tokenize|Token{span<-lexer.span(),text<-lexer.slice(),line,col<-counters}", loc_str(b.f, s[3]))
        if not ok and not any(i["verdict"] == "finding" and "lexer::tokenize" in i["instance"] for i in r.instances):
            rep.error("R-C05-copy", "no Token aggregate found in lexer::tokenize")


def rule_end(ctx, rep):
    r = rep.rule("R-C05-end", "both map_label functions use the label's start and its end", floor=2)
    for fn in ("ironplcc::lsp_project::map_label", "ironplcc::cli::map_label"):
        bs = ctx.prog.get(fn)
        if not bs:
            rep.error("R-C05-end", fn + " not found")
            continue
        b = bs[0]
        read = set()
        for _, k, p in b.place_uses():
            if k == "write":
                continue
            rt = b.root(p)
            fl = [x[2] for x in rt[1] if isinstance(x, list) and x[0] == "f"]
            if "location" in fl and fl[-1] in ("start", "end"):
                read.add(fl[-1])
        inst = fn.replace("ironplcc::", "")
        where = "%s:%d" % (b.f["file"], b.f["line"])
        if read == {"start", "end"}:
            r.ok(inst, where)
        else:
            r.finding(inst + "|reads only " + ",".join(sorted(read)), where, "label.location.%s is never read: every converted range is empty / ends where it starts" % ",".join(sorted({"start", "end"} - read)))


def _label_reads(b):
    """{root local of a Label place: set of Label-relative fields read ('file_id', 'start', 'end')}"""
    out = {}
    for _, k, p in b.place_uses():
        if k == "write":
            continue
        rt = b.root(p)
        pj = rt[1]
        for i, x in enumerate(pj):
            if isinstance(x, list) and x[0] == "f" and x[3] == "ironplc_dsl::diagnostic::Label":
                key = (rt[0], json.dumps(pj[:i]))
                if x[2] == "file_id":
                    out.setdefault(key, set()).add("file_id")
                elif x[2] == "location":
                    for y in pj[i + 1:]:
                        if isinstance(y, list) and y[0] == "f" and y[2] in ("start", "end"):
                            out.setdefault(key, set()).add(y[2])
                    if len(pj) == i + 1:
                        out.setdefault(key, set()).update(("start", "end"))     # the whole location is handed on
    return out


def rule_pair(ctx, rep, rid="R-C05-pair"):
    """Byte offsets mean nothing without the file they index.  Wherever the front ends (cli.rs, lsp_project.rs) consume a Label's
    offsets, the same function also consumes that label's file_id - or, when the label is a parameter, every caller reads the
    file_id of the very label it passes.  Pairing a label's offsets with some other label's file puts the underline into the wrong
    file (or panics when slicing the wrong text)."""
    r = rep.rule(rid, "a label's byte offsets are only ever combined with that label's own file: every front-end function reading "
                               "Label.location also reads the same label's file_id (itself, or each caller for the label it passes)", floor=2,
                 floor_what="front-end functions reading Label.location")
    n = 0
    for b in sorted(ctx.prog.bodies.values(), key=lambda x: x.id):
        if b.f["crate"] != "ironplcc" or "::test" in norm(b.id):
            continue
        reads = _label_reads(b)
        for (root, pj), fs in sorted(reads.items()):
            if not (fs & {"start", "end"}):
                continue
            n += 1
            inst = "%s|label _%d%s" % (norm(b.id).replace("ironplcc::", ""), root, "" if pj in ("[]", '["*"]') else " " + pj[:40])
            where = "%s:%d" % (b.f["file"], b.f["line"])
            if "file_id" in fs:
                r.ok(inst, where, "offsets and file_id of the same label are read here")
                continue
            is_param = 1 <= root <= b.f["argc"] and b.f["dk"] != "Closure"
            if not is_param:
                r.finding(inst + "|file-not-from-label", where, "the label's offsets are used but its file_id is never read here")
                continue
            # callers
            bad, good = [], 0
            for cb in ctx.prog.bodies.values():
                for c in cb.calls():
                    if c.callee != norm(b.id) or len(c.args) < root:
                        continue
                    ap = op_place(c.args[root - 1])
                    if ap is None:
                        bad.append((cb, c))
                        continue
                    art = cb.root(ap)
                    # the caller must read .file_id below the same place (modulo the reference taken for the call)
                    base = [x for x in art[1] if x != "*"]
                    ok = False
                    for (rl, rpj), rfs in _label_reads(cb).items():
                        if rl == art[0] and [x for x in json.loads(rpj) if x != "*"] == base and "file_id" in rfs:
                            ok = True
                    if ok:
                        good += 1
                    else:
                        bad.append((cb, c))
            if bad or not good:
                for cb, c in bad[:3]:
                    r.finding(inst + "|caller %s passes a label whose file_id nobody reads" % norm(cb.id).replace("ironplcc::", ""), loc_str(cb.f, c.loc),
                              "the offsets of this label are combined with a file that was not looked up from this label's file_id")
                if not bad:
                    r.finding(inst + "|no-caller", where, "no caller found that reads the label's file_id")
            else:
                r.ok(inst, where, "every caller (%d) reads the file_id of the label it passes" % good)
    r.note("%d (function, label) pairs reading Label.location in the front ends" % n)


def rule_noop(ctx, rep):
    r = rep.rule("R-C05-noop", "no position counter of the lexer is advanced by the literal 0 on a path that consumed input", floor=2, floor_what="counter updates in lexer::tokenize")
    lb = ctx.prog.get("ironplc_parser::lexer::tokenize")
    if not lb:
        rep.error("R-C05-noop", "lexer::tokenize not found")
        return
    from vlib.inline import inlined
    b = inlined(ctx.prog, lb[0])
    from rules import panics
    n = {}
    role = {l: nm for nm, l in lexer_counters(b).items()}
    for i, j, s in sorted(b.all_stmts(), key=lambda t: (t[2][3][0], t[2][3][1])):
        if s[0] != "=" or s[2][0] != "bin" or not s[2][1].startswith("Add"):
            continue
        # operands: one of the two position counters (found by role) and something
        names = []
        for o in (s[2][2], s[2][3]):
            p = op_place(o)
            if p is not None:
                rt = b.root(p)
                names.append(role.get(rt[0]) if not rt[1] else None)
        cnt = [x for x in names if x in ("line", "col")]
        if not cnt:
            continue
        k = n[cnt[0]] = n.get(cnt[0], 0) + 1
        consts = [panics._int_const(b, o) for o in (s[2][2], s[2][3])]
        inst = "lexer::tokenize|%s += #%d" % (cnt[0], k)
        if 0 in consts:
            r.finding(inst + "|+= 0", loc_str(b.f, s[3]), "`%s += 0`: the counter does not advance over consumed characters (tokens after a comment on the same line get a stale column)" % cnt[0])
        else:
            r.ok(inst, loc_str(b.f, s[3]))


def rule_syntaxlabel(ctx, rep, rid="R-C05-syntaxlabel"):
    """The syntax diagnostic says "Found text '..' that matched token ..": its label must lie on that very token.  In parse_library's
    error mapping every field of a Token that is read (span for the label, text and token_type for the message) belongs to one and
    the same token value."""
    r = rep.rule(rid, "the P0002 label and its message are taken from one token: in parse_library's error mapping all Token fields read (span, text, "
                      "token_type) have the same root value", floor=1)
    # the error mapping: whatever parse_library calls outside the generated grammar (today a closure; a helper function is the same thing)
    reach = {norm(k) for k in ctx.prog.reachable_from(ctx.prog.get("ironplc_parser::parser::parse_library") or [])}
    bodies = [b for b in ctx.prog.bodies.values() if b.f["crate"] == "ironplc_parser" and not norm(b.id).startswith("ironplc_parser::parser::plc_parser::")
              and (norm(b.id).startswith("ironplc_parser::parser::parse_library") or norm(b.id) in reach)]
    found = False
    for b in sorted(bodies, key=lambda x: x.id):
        ls = [c for c in b.calls() if c.callee == "ironplc_dsl::diagnostic::Label::span"]
        if not ls:
            continue
        found = True
        roots = {}
        for _, k, pl in b.place_uses():
            if k == "write":
                continue
            rt = b.root(pl)
            fs = [x for x in rt[1] if isinstance(x, list) and x[0] == "f"]
            if fs and fs[-1][3] == TOKEN or (len(fs) >= 2 and fs[-2][3] == TOKEN):
                tf = [x for x in fs if x[3] == TOKEN][0]
                base = (rt[0], tuple(str(x) for x in rt[1][:rt[1].index(tf)]))
                roots.setdefault(base, set()).add(tf[2])
        where = loc_str(b.f, ls[0].loc)
        span_roots = [k for k, v in roots.items() if "span" in v]
        text_roots = [k for k, v in roots.items() if v & {"text", "token_type"}]
        if len(span_roots) == 1 and set(text_roots) <= set(span_roots):
            r.ok("parse_library|label and message from one token", where, "fields read: " + ",".join(sorted(roots[span_roots[0]])))
        else:
            r.finding("parse_library|label-and-message-from-different-tokens", where,
                      "the label's span is read from one token value and the quoted text / token kind from another (%d token values are read): the underline "
                      "is not on the text the message quotes" % len(roots))
    if not found:
        rep.error(rid, "no Label::span call in parse_library's error mapping")


def rule_tile(ctx, rep, rid="R-C05-tile"):
    """Tokens can only tile the source, and the running line/column can only be right, if the lexer hands out a token for every
    character it consumes: `tokenize` advances its counters per yielded token.  logos consumes text silently in exactly two ways:
    an item-level `#[logos(skip <regex>)]` and a variant callback that returns `logos::Skip` / `logos::skip`."""
    r = rep.rule(rid, "the lexer consumes nothing silently: TokenType has no #[logos(skip ..)] attribute and no token callback is logos::skip / returns "
                      "logos::Skip (every consumed character belongs to a yielded token, which is what advances line/col)", floor=100,
                 floor_what="lexer attributes scanned")
    a = ctx.facts.astattrs.get(TOKTYPE)
    if not a:
        rep.error(rid, "no attribute facts for TokenType")
        return
    n = 0
    bad = 0
    for at in a.get("attrs", []):
        n += 1
        if re.search(r"#\[\s*logos\s*\(.*\bskip\b", at):
            bad += 1
            r.finding("TokenType|#[logos(skip)]", "parser/src/token.rs", "text matching %s is consumed without a token: the tokens no longer tile the source and every later "
                      "token of the line has a column that is too small" % at[:80])
    for vn, v in sorted(a["variants"].items()):
        for at in v.get("attrs", []):
            n += 1
            if re.search(r"logos::skip|logos::Skip|,\s*skip\b|Skip\b", at):
                bad += 1
                r.finding("TokenType::%s|skip-callback" % vn, "parser/src/token.rs", "token %s is skipped by its callback (%s)" % (vn, at[:80]))
    for b in ctx.prog.bodies.values():
        if b.f["crate"] == "ironplc_parser" and (b.local_ty(0) or "").endswith("logos::Skip"):
            bad += 1
            r.finding("%s|returns-Skip" % norm(b.id), "%s:%d" % (b.f["file"], b.f["line"]), "a lexer callback returns logos::Skip")
    if not bad:
        r.ok("TokenType|no skip", "parser/src/token.rs", "%d attributes" % n)
    r.count_override = n


def rule_rangeend(ctx, rep, rid="R-C05-rangeend"):
    """An LSP range is two (line, character) positions.  The end of a label that spans a line break is on a later line: the line of the end
    position must come from a scan of the label's text that advances on a line break, not be the start's line plus a length."""
    from vlib.mir import switch_info
    r = rep.rule(rid, "map_label: the end position of a range has its own line counter, advanced over the line breaks inside the label (a label that spans "
                      "lines must not end on its start line, past the end of that line)", floor=1, floor_what="ranges built from label offsets")
    bs = ctx.prog.get("ironplcc::lsp_project::map_label")
    if not bs:
        rep.error(rid, "lsp_project::map_label not found")
        return
    # a helper that scans the text and returns (line, character) is part of map_label
    from vlib.inline import inlined
    b = inlined(ctx.prog, bs[0])
    ranges = [c for c in b.calls() if (c.callee or "") == "lsp_types::Range::new"]
    n = 0
    def folder_bodies(fc):
        """the bodies of the function a fold call applies to each item: a closure, a closure bound to a variable, or a function item"""
        cp = op_place(fc.args[2])
        cd = b.single_def(cp[0]) if cp is not None and not cp[1] else None
        if cd and cd[0] == "stmt" and cd[3][0] == "agg" and isinstance(cd[3][1], dict) and cd[3][1].get("k") == "closure":
            return ctx.prog.get(norm(cd[3][1]["def"]))
        if cd and cd[0] == "stmt" and cd[3][0] in ("use", "ref"):
            # a closure bound to a variable and used for both folds
            q = op_place(cd[3][1]) if cd[3][0] == "use" else cd[3][2]
            qd = b.single_def(b.root(q)[0]) if q is not None else None
            if qd and qd[0] == "stmt" and qd[3][0] == "agg" and isinstance(qd[3][1], dict) and qd[3][1].get("k") == "closure":
                return ctx.prog.get(norm(qd[3][1]["def"]))
        c0 = b.const_of(fc.args[2])
        if c0 is not None and len(c0) > 3 and isinstance(c0[3], dict) and "rfn" in c0[3]:
            return ctx.prog.get(norm(c0[3]["rfn"]))
        return []

    def folder_advances(fc):
        """the folder adds one (to the line) where the character is known to be a line feed"""
        for cb in folder_bodies(fc):
            cdom = cb.dominators()
            for i, j, st in cb.all_stmts():
                if st[0] == "=" and st[2][0] == "bin" and st[2][1].startswith("Add") and 1 in (panics_int(cb, st[2][2]), panics_int(cb, st[2][3])):
                    for d_ in cdom.get(i, set()):
                        si = switch_info(cb, d_)
                        if si and si["kind"] == "int" and any("10" in [str(x) for x in labs] for labs in si["edges"].values()):
                            return True
                        if si and si["kind"] == "bool" and si["subject"][0] == "bin" and si["subject"][1] == "Eq" and 10 in (panics_int(cb, si["subject"][2]), panics_int(cb, si["subject"][3])):
                            return True
        return False

    def is_fold(d):
        return bool(d and d[0] == "call" and (d[2].u or d[2].callee or "").split("::")[-1] in ("fold", "try_fold") and len(d[2].args) > 2)
    for rc in sorted(ranges, key=lambda c: (c.loc[0], c.loc[1])):
        pos = []
        defs_ = []
        for a in rc.args[:2]:
            p = op_place(a)
            d = b.single_def(b.root(p)[0]) if p is not None and not b.root(p)[1] else None
            defs_.append((b.root(p)[0] if p is not None else None, d))
            pos.append(d[2] if d and d[0] == "call" and (d[2].callee or "") == "lsp_types::Position::new" else None)
        if is_fold(defs_[1][1]) and "Position" in b.local_ty(defs_[1][0]):
            # the positions themselves are the accumulators: `start = text[..s].chars().fold(Position(0,0), f)`, `end = text[s..e].chars().fold(start, f)`
            n += 1
            inst = "map_label|range#%d" % n
            if defs_[0][0] == defs_[1][0]:
                r.finding(inst + "|end-on-start-line", loc_str(b.f, rc.loc), "the end position is the start position: a label that contains a line break (a call written over two lines, an "
                          "unterminated comment) gets an end that is not where the label ends")
            elif not folder_advances(defs_[1][1][2]):
                r.finding(inst + "|end-line-not-advanced", loc_str(b.f, rc.loc), "the line of the end position is never advanced on a line break inside the label")
            else:
                r.ok(inst, loc_str(b.f, rc.loc), "the end is folded over the label's characters by a function that advances the line on '\\n'")
            continue
        if None in pos or any(a[0] == "c" for a in pos[0].args + pos[1].args):
            continue        # the fallback range 0:0-0:0
        n += 1
        inst = "map_label|range#%d" % n

        def line_local(pc):
            """the variable that holds the line: through moves and through a (line, character) pair that a helper returned"""
            p = op_place(pc.args[0])
            for _ in range(6):
                if p is None:
                    return None
                rt = b.root(p)
                fs = [x for x in rt[1] if isinstance(x, list) and x[0] == "f"]
                d = b.single_def(rt[0])
                if len(fs) == 1 and str(fs[0][2]).isdigit() and d and d[0] == "stmt" and d[3][0] == "agg" and d[3][1].get("k") == "tuple":
                    p = op_place(d[3][2][int(fs[0][2])])
                    continue
                return rt[0]
            return None
        ls, le = line_local(pos[0]), line_local(pos[1])
        # is the end's line variable advanced in a loop body under a character test?
        adv = False
        dom = b.dominators()
        for i, j, st in b.all_stmts():
            if st[0] == "=" and st[1] == [le, []] and st[2][0] != "use" or (st[0] == "=" and st[1] == [le, []] and st[2][0] == "use" and st[2][1][0] != "c" and i != 0):
                for d_ in dom.get(i, set()):
                    si = switch_info(b, d_)
                    if si and si["kind"] == "int" and any("10" in [str(x) for x in labs] for labs in si["edges"].values()):
                        adv = True
                    if si and si["kind"] == "bool" and si["subject"][0] == "bin" and si["subject"][1] == "Eq" and 10 in (panics_int(b, si["subject"][2]), panics_int(b, si["subject"][3])):
                        adv = True
        if not adv and le is not None:
            # the same scan written as `chars().fold((line, col), |(line, col), ch| if ch == '\n' { (line + 1, 0) } else { .. })`
            d = b.single_def(le)
            if is_fold(d):
                adv = folder_advances(d[2])
        if ls is not None and ls == le:
            r.finding(inst + "|end-on-start-line", loc_str(b.f, rc.loc), "the end position uses the start's line: a label that contains a line break (a call written over two lines, an "
                      "unterminated comment) gets an end past the end of its first line - a position that does not exist in the document")
        elif not adv:
            r.finding(inst + "|end-line-not-advanced", loc_str(b.f, rc.loc), "the line of the end position is never advanced on a line break inside the label")
        else:
            r.ok(inst, loc_str(b.f, rc.loc), "the end has its own line counter, advanced on '\\n'")
    if not n:
        rep.error(rid, "no Range::new over computed positions in map_label")


def rule_fileidx(ctx, rep, rid="R-C05-fileidx"):
    """The terminal shows a label in the text of file number N.  N is whatever `SimpleFiles::add` returned for that file: the table
    file id -> N must store exactly that return value (a counter kept on the side diverges as soon as some file is not added)."""
    r = rep.rule(rid, "the number stored for a file in handle_diagnostics is the value returned by SimpleFiles::add for that file", floor=2, floor_what="entries of the file number table")
    bs = ctx.prog.get("ironplcc::cli::handle_diagnostics")
    if not bs:
        rep.error(rid, "cli::handle_diagnostics not found")
        return
    b = bs[0]
    k = 0
    for c in sorted(b.calls(), key=lambda c: (c.loc[0], c.loc[1])):
        if not (c.callee or "").endswith("HashMap::insert") or "usize" not in (c.ga or "") or len(c.args) < 3:
            continue
        k += 1
        vp = op_place(c.args[2])
        d = b.single_def(b.root(vp)[0]) if vp is not None else None
        inst = "handle_diagnostics|files_to_ids.insert#%d" % k
        if d and d[0] == "call" and "SimpleFiles" in (d[2].callee or "") and (d[2].callee or "").endswith("::add"):
            r.ok(inst, loc_str(b.f, c.loc), "the id returned by add()")
        else:
            r.finding(inst + "|not-the-returned-id", loc_str(b.f, c.loc), "the number stored for the file is not what SimpleFiles::add returned: when a file without problems is skipped the two numberings "
                      "diverge and a problem is shown in the text of another file")


def rule_display(ctx, rep, rid="R-C05-display"):
    """The terminal renderer shows a label inside the text registered for the label's file.  handle_diagnostics registers the real text
    only when it is given the project; without it every file is registered with empty text and every label is shown at line 1,
    column 1 of an empty line.  So: a call that passes no project is only acceptable where no project exists yet."""
    r = rep.rule(rid, "every call of cli::handle_diagnostics made where a FileBackedProject exists (a local of that type whose definition dominates the call, "
                      "the value itself or a Result it is unwrapped from) passes the project: otherwise the labels are shown against empty text", floor=4,
                 floor_what="calls of handle_diagnostics")
    k = {}
    for b in sorted(ctx.prog.bodies.values(), key=lambda x: x.id):
        if b.f["crate"] != "ironplcc":
            continue
        dom = None
        for c in sorted(b.calls(), key=lambda c: (c.loc[0], c.loc[1])):
            if c.callee != "ironplcc::cli::handle_diagnostics" or len(c.args) < 2:
                continue
            fn = norm(b.id).replace("ironplcc::", "")
            k[fn] = k.get(fn, 0) + 1
            inst = "%s|handle_diagnostics#%d" % (fn, k[fn])
            where = loc_str(b.f, c.loc)
            # is the project argument None?
            p = op_place(c.args[1])
            d = b.single_def(p[0]) if p is not None and not p[1] else None
            is_none = bool(d and d[0] == "stmt" and d[3][0] == "agg" and d[3][1].get("variant") == "None")
            if not is_none:
                r.ok(inst, where, "passes a project")
                continue
            if dom is None:
                dom = b.dominators()
            have = []
            for l, ds in b.defs.items():
                ty = b.local_ty(l)
                if "FileBackedProject" not in ty or ty.startswith("&") or "Option<" in ty:
                    continue
                for dd in ds:
                    bb = dd[1]
                    if bb in dom.get(c.bb, ()) and bb != c.bb:
                        have.append(b.local_name(l) or "_%d" % l)
            # in a closure: the enclosing function's project counts when the closure is created after it
            if not have and b.f["dk"] == "Closure":
                par = ctx.prog.bodies.get(b.f.get("parent"))
                if par is not None:
                    # where the closure is created in the enclosing function: a project counts when its definition dominates that place
                    made = [i_ for i_, _, st_ in par.all_stmts() if st_[0] == "=" and st_[2][0] == "agg" and isinstance(st_[2][1], dict) and st_[2][1].get("k") == "closure" and norm(st_[2][1].get("def", "")) == norm(b.id)]
                    pdom = par.dominators()
                    for l in range(1, len(par.f["locals"])):
                        ty_ = par.local_ty(l)
                        if "FileBackedProject" not in ty_ or ty_.startswith("&") or "Option<" in ty_:
                            continue
                        for dd in par.defs.get(l, []):
                            if not made or any(dd[1] in pdom.get(m_, ()) and dd[1] != m_ for m_ in made):
                                have.append("(of the enclosing function)")
            if have:
                r.finding(inst + "|no-project", where, "a project exists here (%s) but the diagnostics are shown without it: every label is placed at 1:1 of an empty line instead of in the text it is about" % ", ".join(sorted(set(have))))
            else:
                r.ok(inst, where, "no project exists yet at this call")


def rule_synth(ctx, rep, rid="R-C05-synth"):
    """A transform of the analyzer replaces a node by another one (a late-bound name by a variable or an enumeration value).  The node it
    builds stands where the old one stood, so every part of it that carries a position (Id, Type, SourceSpan) must be taken from the node
    being replaced - not from the state of the transform, which holds names copied from *other* places (the declaration of the variable, the
    enclosing POU).  A part with a foreign position stretches the node's span (span() joins the parts) from that other place to here, and a
    label built from it covers text it is not about."""
    r = rep.rule(rid, "a node built by a fold of the analyzer takes its position-bearing parts (Id, Type, SourceSpan) from the node it replaces, never from the "
                      "state of the transform (names remembered from other places)", floor=3, floor_what="position-bearing parts of nodes built in fold methods")
    POS = ("ironplc_dsl::core::Id", "ironplc_dsl::common::Type", "ironplc_dsl::core::SourceSpan")

    def origins(b, op, depth=10, seen=None):
        """roots the value of an operand may come from (through clones, moves, Some(..)/tuple wrappers and every definition of a local)"""
        seen = seen if seen is not None else set()
        p = op_place(op)
        if p is None or depth <= 0:
            return set()
        rt = b.root(p)
        if rt[0] <= b.f["argc"]:
            return {(rt[0], tuple(x[2] for x in rt[1] if isinstance(x, list) and x[0] == "f"))}
        if rt[0] in seen:
            return set()
        seen.add(rt[0])
        out = set()
        ds = b.defs.get(rt[0], [])
        if not ds:
            return {(rt[0], ())}
        for d in ds:
            if d[0] == "call":
                nm = (d[2].callee or d[2].u or "").split("::")[-1]
                if nm in ("clone", "to_owned", "into", "from", "as_ref", "borrow", "deref", "unwrap", "expect", "cloned", "as_deref") and d[2].args:
                    out |= origins(b, d[2].args[0], depth - 1, seen)
                else:
                    out.add((rt[0], ()))
            elif d[3][0] == "use":
                out |= origins(b, d[3][1], depth - 1, seen)
            elif d[3][0] == "ref":
                out |= origins(b, ["cp", d[3][2]], depth - 1, seen)
            elif d[3][0] == "agg":
                for o2 in d[3][2]:
                    out |= origins(b, o2, depth - 1, seen)
            else:
                out.add((rt[0], ()))
        return out
    n = 0
    for b in sorted(ctx.prog.bodies.values(), key=lambda x: x.id):
        im = b.f.get("impl") or {}
        host = b
        if b.f["dk"] == "Closure":
            host = ctx.prog.bodies.get(b.f.get("parent")) or b
            im = host.f.get("impl") or {}
        if b.f["crate"] != "ironplc_analyzer" or im.get("trait_def") != "ironplc_dsl::fold::Fold" or "::test" in norm(b.id) or b.f["dk"] == "Closure":
            continue
        fn = norm(b.id).replace("ironplc_analyzer::", "")
        k = {}
        for i, j, st in sorted(b.all_stmts(), key=lambda t: (t[2][3][0], t[2][3][1]) if len(t[2]) > 3 else (0, 0)):
            if not (st[0] == "=" and st[2][0] == "agg" and isinstance(st[2][1], dict) and st[2][1].get("k") == "adt" and (st[2][1].get("adt") or "").startswith("ironplc_dsl::")):
                continue
            adt = ctx.facts.adts.get(st[2][1]["adt"])
            if not adt:
                continue
            var = [v for v in adt["variants"] if v["name"] == st[2][1]["variant"]]
            if not var:
                continue
            tys = {fl["name"]: fl["ty"] for fl in var[0]["fields"]}
            for fname, o in zip(st[2][1].get("fields", []), st[2][2]):
                ty = tys.get(fname, "")
                if not any(pt in ty for pt in POS):
                    continue
                n += 1
                node = "%s::%s.%s" % (st[2][1]["adt"].split("::")[-1], st[2][1]["variant"], fname)
                k[node] = k.get(node, 0) + 1
                inst = "%s|%s#%d" % (fn, node, k[node])
                where = loc_str(b.f, st[3])
                state = sorted(fs[0] for l, fs in origins(b, o) if l == 1 and fs)
                if state:
                    fld = state[0]
                    r.finding(inst + "|from-transform-state:" + fld, where, "this part of the new node is a copy of `self.%s`, a name remembered from another place: the node's span now reaches from there to here" % fld)
                else:
                    r.ok(inst, where)


def rule_doclabel(ctx, rep, rid="R-C05-doclabel"):
    """A problem can have labels in several files (a duplicate declaration: one label on each).  The language server publishes the problems
    of one document; the range it publishes must be the range of a label *in that document*.  So the function that turns a problem into an
    lsp_types::Diagnostic selects the label by the document's file id: it compares a label's file_id with a FileId it was given.  A
    conversion that always takes the primary label publishes, for the document with the secondary label, a position inside another file."""
    r = rep.rule(rid, "the function that converts a problem for a document (builds lsp_types::Diagnostic) chooses the label by comparing Label.file_id with the document's FileId "
                      "before it computes the range", floor=1, floor_what="problem-to-LSP conversions")
    n = 0
    for b in sorted(ctx.prog.bodies.values(), key=lambda x: x.id):
        if b.f["crate"] != "ironplcc" or "::test" in norm(b.id) or b.f["dk"] == "Closure":
            continue
        builds = any(st[0] == "=" and st[2][0] == "agg" and isinstance(st[2][1], dict) and st[2][1].get("adt") == "lsp_types::Diagnostic" for _, _, st in b.all_stmts())
        if not builds:
            continue
        n += 1
        fn = norm(b.id).replace("ironplcc::", "")
        where = "%s:%d" % (b.f["file"], b.f["line"])
        unit = [b] + [cb for cb in ctx.prog.bodies.values() if cb.f.get("parent") == b.id]
        has_id_param = any("ironplc_dsl::core::FileId" in (b.local_ty(l) or "") for l in range(1, b.f["argc"] + 1))
        compares = False
        for bd in unit:
            for c in bd.calls():
                u = c.u or c.callee or ""
                if not (u.endswith("PartialEq::eq") or u.endswith("PartialEq::ne")) or "FileId" not in (c.ga or ""):
                    continue
                for a in c.args:
                    p = op_place(a)
                    if p is None:
                        continue
                    rt = bd.root(p)
                    if any(isinstance(x, list) and x[0] == "f" and x[2] == "file_id" and (x[3] or "").endswith("diagnostic::Label") for x in rt[1]):
                        compares = True
        if has_id_param and compares:
            r.ok(fn, where, "label chosen by the document's file id")
        else:
            r.finding(fn + "|label-not-chosen-by-document", where, "the conversion does not know which document the problem is published for (%s): it publishes the primary label's range even "
                      "when that label is in another file" % ("no FileId parameter" if not has_id_param else "no comparison of a label's file id with it"))
    if not n:
        rep.error(rid, "no function of ironplcc builds an lsp_types::Diagnostic")


def rule_signspan(ctx, rep, rid="R-C05-signspan"):
    """A number written with a sign is the sign and the digits.  The grammar action that builds a signed number from a sign token and a
    digits token must give it a span that starts at the sign: the span operand of the constructor comes from SourceSpan::join/join2 (or
    `range`) fed by the sign token's span, not from the digits token alone - otherwise "Expected smaller value" underlines `1` of `-1`."""
    r = rep.rule(rid, "a signed number built from a sign token and a digits token gets a span that covers both (the constructor's span comes from a join that reads the sign token's span)",
                 floor=1, floor_what="grammar actions that build a number from a sign and digits")
    GRAM = "ironplc_parser::parser::plc_parser::__parse_"
    g = ctx.peg
    n = 0
    for rule, sq in g.all_seqs():
        if sq.action is None:
            continue
        toks = [(e.label, g.terminal(e.prim)) for e in sq.elems if g.terminal(e.prim) and g.terminal(e.prim)[0] == "tok" and not e.look]
        signs = [t for t in toks if t[1][1] in ("Minus", "Plus") and True]
        digits = [t for t in toks if t[1][1] in ("Digits",)]
        # a sign that the action can be given: `-` (always there in its rule) or an optional `+` - written or not, it is part of the number
        mandatory_sign = [e for e in sq.elems if g.terminal(e.prim) and g.terminal(e.prim)[0] == "tok" and g.terminal(e.prim)[1] in ("Minus", "Plus") and e.rep in (None, "?") and not e.look]
        if not mandatory_sign or not digits or len(toks) != 2:
            continue
        # the action closure(s) of this rule
        for b in ctx.prog.bodies.values():
            if not norm(b.id).startswith(GRAM + rule.name + "::{closure") or b.f.get("parent") is None:
                continue
            for c in b.calls():
                cal = c.callee or ""
                if "::SignedInteger::" not in cal or not c.args or cal.split("::")[-1] in ("clone", "fmt", "span"):
                    continue
                n += 1
                inst = "rule %s|span of the number" % rule.name
                where = "parser/src/parser.rs:%d" % sq.line
                joined = False
                for a in c.args[1:]:
                    p = op_place(a)
                    # (for an optional sign the span has two definitions: joined when the sign is there, the digits alone when it is not)
                    for d in (b.defs.get(b.root(p)[0], []) if p is not None else []):
                        if d[0] == "call" and (d[2].callee or "").split("::")[-1] in ("join", "join2", "range"):
                            joined = True
                        elif d[0] == "call" and (d[2].callee or "").startswith("ironplc_parser::") and "::__parse_" not in (d[2].callee or ""):
                            # a helper of the parser that computes the span from the sign and the digits it is handed
                            for hb in ctx.prog.get(d[2].callee):
                                sign_arg = any("Option" in (hb.local_ty(k_) or "") or "Token" in (hb.local_ty(k_) or "") for k_ in range(1, hb.f["argc"] + 1))
                                if sign_arg and len(d[2].args) >= 2 and any((c2.callee or "").split("::")[-1] in ("join", "join2", "range") for c2 in hb.calls()):
                                    joined = True
                if joined:
                    r.ok(inst, where, "joined from the sign and the digits")
                else:
                    r.finding(inst + "|not-from-sign-and-digits", where, "the number is built from a sign and digits but the constructor is given %s: a label on it leaves out the sign"
                              % ("the span of the digits alone" if len(c.args) > 1 else "no span at all"))
    if not n:
        rep.error(rid, "no grammar action builds a SignedInteger from a mandatory sign token and a digits token")


def panics_int(b, op):
    from rules import panics
    return panics._int_const(b, op)


def lexer_counters(b):
    """the locals of lexer::tokenize that hold the running line and column: found by their role (the values stored in the `line` and
    `col` fields of the Token that is built), not by their names"""
    out = {}
    for i, j, s in b.all_stmts():
        if s[0] == "=" and s[2][0] == "agg" and isinstance(s[2][1], dict) and s[2][1].get("adt") == "ironplc_parser::token::Token":
            ops = dict(zip(s[2][1]["fields"], s[2][2]))
            for fld in ("line", "col"):
                p = op_place(ops.get(fld)) if ops.get(fld) is not None else None
                if p is not None:
                    rt = b.root(p)
                    if not [x for x in rt[1] if x != "*"]:
                        out[fld] = rt[0]
    return out


def rule_linecol(ctx, rep, rid="R-C05-linecol"):
    """A token's (line, col) pair is only right if a new line restarts the column.  In lexer::tokenize: whenever `line` is advanced, `col`
    is re-based (assigned a value that does not depend on its old value) in the same iteration - before the line write (dominating it,
    with no relative update in between) or on every path after it before the next token is taken."""
    r = rep.rule(rid, "lexer::tokenize: every advance of `line` comes with an absolute assignment of `col` in the same loop iteration "
                      "(a column carried over a line break shifts every later token of that line)", floor=2, floor_what="writes to `line`")
    lb = ctx.prog.get("ironplc_parser::lexer::tokenize")
    if not lb:
        rep.error(rid, "lexer::tokenize not found")
        return
    from vlib.inline import inlined
    b = inlined(ctx.prog, lb[0])
    where0 = "%s:%d" % (b.f["file"], b.f["line"])
    loc = lexer_counters(b)
    if set(loc) != {"line", "col"}:
        r.finding("lexer::tokenize|counters", "%s:%d" % (b.f["file"], b.f["line"]), "cannot find the two counters that fill Token.line and Token.col")
        return
    LINE, COL = loc["line"], loc["col"]

    def derived_from(l, target, seen=None):
        """does the value of temp `l` depend on local `target`?"""
        seen = seen or set()
        if l == target:
            return True
        if l in seen:
            return False
        seen.add(l)
        for d in b.defs.get(l, []):
            if d[0] == "stmt":
                ops = rvalue_operands(d[3])
                if d[3][0] in ("ref",):
                    ops = [["cp", d[3][2]]]
                for o in ops:
                    p = op_place(o)
                    if p is not None and derived_from(p[0], target, seen):
                        return True
            else:
                for o in d[2].args:
                    p = op_place(o)
                    if p is not None and derived_from(p[0], target, seen):
                        return True
        return False
    heads = {c.bb for c in b.calls() if (c.u or "") == "core::iter::traits::iterator::Iterator::next"}
    line_w, col_abs, col_rel = [], set(), set()
    for i, j, s in b.all_stmts():
        if s[0] != "=" or s[1][1]:
            continue
        if s[1][0] == LINE and i != 0:
            ops = [op_place(o) for o in rvalue_operands(s[2])]
            if any(p is not None and derived_from(p[0], LINE) for p in ops):
                line_w.append((i, j, s))
        if s[1][0] == COL:
            ops = [op_place(o) for o in rvalue_operands(s[2])]
            if any(p is not None and derived_from(p[0], COL) for p in ops):
                col_rel.add(i)
            else:
                col_abs.add(i)
    dom = b.dominators()
    k = 0
    for i, j, s in sorted(line_w, key=lambda t: (t[2][3][0], t[2][3][1])):
        k += 1
        inst = "lexer::tokenize|line advance #%d" % k
        # after: from this block onwards, can a loop head be reached without an absolute col write?  (the block itself counts if the
        # absolute write comes after the line write in it)
        later_here = any(jj > j and ss[0] == "=" and ss[1] == [COL, []] and i in col_abs for jj, ss in enumerate(b.bbs[i]["s"]))
        ok_after = later_here
        if not ok_after:
            seen, st, bad = set(), list(b.succ(i)), False
            while st:
                x = st.pop()
                if x in seen:
                    continue
                seen.add(x)
                if x in col_abs:
                    continue
                if x in heads or b.term(x)[0] == "ret":
                    bad = True
                    break
                st.extend(b.succ(x))
            ok_after = not bad
        # before: an absolute write that dominates this block inside the same iteration, no relative update between
        ok_before = False
        inner = [h for h in heads if h in dom.get(i, set())]
        for w in col_abs:
            if w in dom.get(i, set()) and w != i and all(h in dom.get(w, set()) for h in inner):
                between = b.reachable(w, avoid={i}) & {x for x in col_rel if i in b.reachable(x)}
                if not between:
                    ok_before = True
        if ok_after or ok_before:
            r.ok(inst, loc_str(b.f, s[3]), "col re-based " + ("after" if ok_after else "before") + " the line advance")
        else:
            r.finding(inst + "|col-carried-over", loc_str(b.f, s[3]), "`line` advances but `col` keeps (or only adds to) its old value on some path to the next token: "
                      "tokens after a line break inside this token get a column shifted by the previous line's column")
    # clause 4: columns count bytes - `col` is never advanced by a constant (text that is consumed as "one character" can be several bytes)
    k = 0
    for i, j, s in sorted(b.all_stmts(), key=lambda t: (t[2][3][0], t[2][3][1])):
        if s[0] != "=" or s[2][0] != "bin" or not s[2][1].startswith("Add"):
            continue
        ops_ = [s[2][2], s[2][3]]
        pls = [op_place(o) for o in ops_]
        if not any(p_ is not None and not p_[1] and p_[0] == COL for p_ in pls):
            continue
        if not any(h in dom.get(i, set()) for h in heads):
            continue
        k += 1
        other = [o for o, p_ in zip(ops_, pls) if not (p_ is not None and not p_[1] and p_[0] == COL)]
        cv = panics_int(b, other[0]) if other else None
        inst = "lexer::tokenize|col advance #%d" % k
        if cv is not None:
            r.finding(inst + "|by-constant", loc_str(b.f, s[3]), "`col` is advanced by the constant %d for a piece of consumed text: columns count bytes, so a multi-byte character "
                      "(an invalid `\u00e4`, a no-break space) leaves every later token of the line with a column smaller than its span start" % cv)
        else:
            r.ok(inst, loc_str(b.f, s[3]), "advanced by a computed length")
    # clause 2: a reset to column 0 belongs to one line-break character/token: it sits on the Newline arm of the token match or
    # on the `== '\n'` branch of a per-character test (a reset decided by a count of lines forgets the rest of the token)
    from vlib.mir import switch_info
    k = 0
    for i, j, s in sorted(b.all_stmts(), key=lambda t: (t[2][3][0], t[2][3][1])):
        if s[0] != "=" or s[1] != [COL, []] or s[2][0] != "use" or s[2][1][0] != "c":
            continue
        if not any(h in dom.get(i, set()) for h in heads):
            continue            # the initialisation before the loop
        k += 1
        inst = "lexer::tokenize|col reset #%d" % k
        tied = False
        for d_ in dom.get(i, set()):
            si = switch_info(b, d_)
            if not si:
                continue
            for succ, labs in si["edges"].items():
                if not (succ == i or succ in dom.get(i, set())):
                    continue
                if si["kind"] == "disc" and "Newline" in [str(x) for x in labs]:
                    tied = True
                if si["kind"] == "int" and [str(x) for x in labs] == ["10"]:
                    sp = si["subject"][1] if si["subject"][0] == "place" else None
                    if sp is not None and (b.local_ty(sp[0]) == "char" or b.local_ty(op_place(b.term(d_)[1])[0]) == "char"):
                        tied = True         # `match c { '\n' => .. }`
                if si["kind"] == "bool" and si["subject"][0] == "bin" and si["subject"][1] == "Eq" and labs == [True]:
                    for o in si["subject"][2:4]:
                        if o[0] == "c" and o[1] == "char" and len(o) > 3 and o[3].get("int") == "10":
                            tied = True
        if tied:
            r.ok(inst, loc_str(b.f, s[3]), "on a line-break branch")
        else:
            r.finding(inst + "|not-on-a-line-break", loc_str(b.f, s[3]), "`col` is reset to a constant on a path that is not the Newline token arm nor the `== '\\n'` "
                      "branch of a character test: what follows the last line break inside the token is not counted")
    # clause 3: every token kind whose pattern can match a line break is counted character by character.  The kinds are computed from
    # the lexer's own patterns (can the regex/literal contain '\n'?); a kind is covered if the block that tests for '\n' (the per-character
    # counting) is reached on its path - i.e. it is not behind a match arm that excludes the kind.
    a = ctx.facts.astattrs.get(TOKTYPE)
    if a:
        try:
            import re._parser as sre_parse
            import re._constants as sre_c
        except ImportError:
            import sre_parse
            import sre_constants as sre_c

        def can_nl(node):
            for op, av in node:
                if op == sre_c.LITERAL and av == 10:
                    return True
                if op == sre_c.NOT_LITERAL and av != 10:
                    return True
                if op == sre_c.IN:
                    neg = any(o == sre_c.NEGATE for o, _ in av)
                    hit = any((o == sre_c.LITERAL and v == 10) or (o == sre_c.RANGE and v[0] <= 10 <= v[1]) or (o == sre_c.CATEGORY and v in (sre_c.CATEGORY_SPACE, sre_c.CATEGORY_NOT_DIGIT, sre_c.CATEGORY_NOT_WORD)) for o, v in av if o != sre_c.NEGATE)
                    if hit != neg:
                        return True
                if op == sre_c.SUBPATTERN and can_nl(av[-1]):
                    return True
                if op == sre_c.BRANCH and any(can_nl(x) for x in av[1]):
                    return True
                if op in (sre_c.MAX_REPEAT, sre_c.MIN_REPEAT) and can_nl(av[2]):
                    return True
            return False
        multi = []
        for vn, v in sorted(a["variants"].items()):
            for at in v.get("attrs", []):
                # a callback decides how far the token reaches (`#[token("(*", block_comment)]` bumps over what it finds in the remainder): its
                # text is whatever the callback consumed, line breaks included
                mcb = re.search(r'#\[(?:token|regex)\(r?"(?:[^"\\]|\\.)*"\s*,\s*(?:callback\s*=\s*)?([A-Za-z_][A-Za-z_0-9:]*)\s*[,)]', at)
                if mcb and mcb.group(1) not in ("ignore", "priority") and vn not in multi:
                    multi.append(vn)
                m = re.search(r'#\[regex\(r?"((?:[^"\\]|\\.)*)"', at)
                if m:
                    ptn = m.group(1)
                    if not at.lstrip().startswith('#[regex(r'):
                        ptn = ptn.encode().decode("unicode_escape")
                    try:
                        if can_nl(sre_parse.parse(ptn)) and vn not in multi:
                            multi.append(vn)
                    except Exception:
                        pass
        # the per-character test block(s): a switch on a char value with the arm 10, or `== '\n'`
        nl_tests = set()
        for i in b.reachable(0):
            si = switch_info(b, i)
            if not si:
                continue
            if si["kind"] == "int" and any([str(x) for x in labs] == ["10"] for labs in si["edges"].values()):
                nl_tests.add(i)
            if si["kind"] == "bool" and si["subject"][0] == "bin" and any(o[0] == "c" and o[1] == "char" and len(o) > 3 and o[3].get("int") == "10" for o in si["subject"][2:4]):
                nl_tests.add(i)
        # which kinds complete an iteration of the lexer loop without their text being looked at character by character?  Decided per kind on
        # the paths of one iteration: at a test of the token's kind only the edges this kind can take are followed (`match`, `matches!`,
        # `if let`), the Ok edge of the lexer's result is taken, and a flag that was assigned a constant on the path (`let multi =
        # matches!(..); if !multi { col += len; continue }`) decides the test it feeds.
        from vlib.mir import explore
        lex_heads = {c.bb for c in b.calls() if (c.u or "") == "core::iter::traits::iterator::Iterator::next" and "Lexer" in ((c.ga or "") + (c.callee or ""))}
        scan = set(nl_tests) | {w[0] for w in line_w}
        char_heads = {h for h in heads if h not in lex_heads and b.reachable(h, avoid=lex_heads) & scan}

        def uncounted_path(kind):
            found = []

            def step(st, bb):
                passed, flags = st
                if bb in scan or bb in char_heads:
                    passed = True
                fl = dict(flags)
                for s_ in b.stmts(bb):
                    if s_[0] != "=" or s_[1][1]:
                        continue
                    l = s_[1][0]
                    if b.local_ty(l) != "bool":
                        continue
                    rv = s_[2]
                    if rv[0] == "use" and rv[1][0] == "c":
                        fl[l] = (rv[1][2] == "true")
                    elif rv[0] == "use" and rv[1][0] in ("cp", "mv") and not rv[1][1][1] and rv[1][1][0] in fl:
                        fl[l] = fl[rv[1][1][0]]
                    elif rv[0] == "un" and rv[1] == "Not" and op_place(rv[2]) is not None and not op_place(rv[2])[1] and op_place(rv[2])[0] in fl:
                        fl[l] = not fl[op_place(rv[2])[0]]
                    else:
                        fl.pop(l, None)
                return (passed, frozenset(fl.items()))

            def edge(st, bb, succ):
                passed, flags = st
                t = b.term(bb)
                if t[0] == "switch":
                    si = switch_info(b, bb)
                    if si and si["kind"] == "disc":
                        labs = [str(x) for x in si["edges"].get(succ, [])]
                        adt = si.get("adt") or ""
                        if labs == ["otherwise"]:
                            # the fall-through edge of a test that names every variant is not a way any value can take
                            dp = op_place(t[1])
                            dd = b.single_def(dp[0]) if dp is not None and not dp[1] else None
                            names = [n_ for _, n_ in dd[3][3]] if dd and dd[0] == "stmt" and dd[3][0] == "disc" else []
                            named = {str(x) for s2_, l2_ in si["edges"].items() if s2_ != succ for x in l2_}
                            if names and set(names) <= named:
                                return None
                        if adt.endswith("token::TokenType") and not (kind in labs or labs == ["otherwise"]):
                            return None
                        if adt == "core::result::Result" and labs == ["Err"]:
                            return None
                    p_ = op_place(t[1])
                    if p_ is not None and not p_[1] and p_[0] in dict(flags):
                        val = dict(flags)[p_[0]]
                        ft = [x[1] for x in t[2] if x[0] == "0"]
                        if len(t[2]) == 1 and ft:
                            taken = ft[0] if not val else t[3]
                            if succ != taken:
                                return None
                if succ in lex_heads:
                    if not passed:
                        found.append(bb)
                    return None
                if passed:
                    return None     # nothing more to learn on this path
                return st
            for h in lex_heads:
                cal = b.call_at(h)
                if cal is None or cal.target is None:
                    continue
                try:
                    explore(b, (False, frozenset()), step, edge, start=cal.target)
                except RuntimeError:
                    return None
            return found
        for vn in multi:
            inst = "lexer::tokenize|token %s can contain a line break" % vn
            if not nl_tests:
                r.finding(inst + "|no-per-character-counting", where0, "no per-character test for '\\n' in the lexer loop")
            elif not lex_heads:
                r.finding(inst + "|no-lexer-loop", where0, "cannot find the loop that takes tokens from the lexer")
            elif uncounted_path(vn) == []:
                r.ok(inst, where0, "counted character by character on every path of an iteration that this kind can take")
            else:
                r.finding(inst + "|not-counted", where0, "a %s token can span lines (its pattern matches '\\n') but an iteration of the lexer loop can end for it without its text having been looked at character by character (its length is added to the column): "
                          "every later token is reported one line too high per embedded line break" % vn)
    r.note("%d line advances, %d absolute / %d relative col writes" % (len(line_w), len(col_abs), len(col_rel)))


BYTE_FIELDS = {("ironplc_dsl::diagnostic::Location", "start"), ("ironplc_dsl::diagnostic::Location", "end"),
               ("ironplc_dsl::core::SourceSpan", "start"), ("ironplc_dsl::core::SourceSpan", "end")}
BYTE_CALLS = re.compile(r"(^|::)(core::str::(<impl str>::)?(len|find|rfind|find_map|match_indices|rmatch_indices|char_indices|as_bytes|bytes)|"
                        r"alloc::string::String::len|core::char::methods::<impl char>::len_utf8|core::str::len|core::str::find|core::str::rfind|"
                        r"logos::Lexer<'source, Token>::span|logos::lexer::Lexer<'source, Token>::span)$")


def rule_units(ctx, rep, rid="R-C05-units"):
    """The editor protocol counts `character` in characters of the line; labels carry byte offsets.  A `character` value computed by
    arithmetic on byte quantities (offset - line start, str::len, find/rfind results) is off by one per multi-byte character before
    the label on its line.  Numbers obtained from *text* cut out with byte offsets (chars().count(), a per-char counter) are fine:
    the numeric slice does not pass through text."""
    from vlib.numflow import sources_of
    r = rep.rule(rid, "the `character` of every lsp_types::Position built in lsp_project is not computed from byte quantities: its numeric "
                      "backward slice (through closures/helpers) reaches no label/span byte offset and no byte-length/byte-index call", floor=1,
                 floor_what="Position::new calls fed by non-constant values")
    n = 0
    for b in sorted(ctx.prog.bodies.values(), key=lambda x: x.id):
        if b.f["crate"] != "ironplcc" or "::lsp_project::" not in norm(b.id):
            continue
        k = 0
        for c in sorted(b.calls(), key=lambda c: (c.loc[0], c.loc[1])):
            if c.callee != "lsp_types::Position::new" or len(c.args) != 2:
                continue
            if c.args[1][0] == "c":
                continue
            k += 1
            n += 1
            src = sources_of(ctx.prog, b, c.args[1])
            bad = sorted("%s.%s" % (x[1].split("::")[-1], x[2]) for x in src if x[0] == "field" and (x[1], x[2]) in BYTE_FIELDS)
            bad += sorted(x[1] for x in src if x[0] == "call" and BYTE_CALLS.search(x[1]))
            inst = "%s|Position::new#%d character" % (norm(b.id).replace("ironplcc::", ""), k)
            # code points: a counter that is stepped by a constant for each `char` of a text counts characters, not UTF-16 code units
            cp = False
            if any((c2.u or "").endswith("Iterator::next") and "Chars" in ((c2.ga or "") + (c2.callee or "")) for c2 in b.calls()):
                ap = op_place(c.args[1])
                cl = b.root(ap)[0] if ap is not None else None
                for _, _, st in b.all_stmts():
                    if st[0] == "=" and st[2][0] == "bin" and st[2][1].startswith("Add"):
                        pls = [op_place(o) for o in (st[2][2], st[2][3])]
                        if any(p_ is not None and not p_[1] and p_[0] == cl for p_ in pls):
                            other = [o for o, p_ in zip((st[2][2], st[2][3]), pls) if not (p_ is not None and not p_[1] and p_[0] == cl)]
                            if other and panics_int(b, other[0]) not in (None, 0):
                                cp = True
            if cp and not bad:
                r.finding(inst + "|code-points", loc_str(b.f, c.loc), "the character position is a counter stepped by one per `char`: the protocol counts UTF-16 code units, so the range is one "
                          "too far left for every character outside the basic plane (an emoji) before the label on its line")
                continue
            if bad:
                r.finding(inst + "|byte-valued", loc_str(b.f, c.loc), "the character position is computed from byte quantities (%s): every multi-byte "
                          "character before the label on its line shifts the published range" % ", ".join(bad))
            else:
                r.ok(inst, loc_str(b.f, c.loc), "sources: " + ", ".join(sorted("%s %s" % (x[0], x[-1]) for x in src))[:160])
    r.note("%d Position::new calls with computed character" % n)


def run(ctx, rep):
    rep.not_decided += ["tiling/contiguity of token spans, line/column arithmetic values, CRLF and multi-byte behaviour", "that a label covers the *right* construct",
                        ]
    rep.assumptions += ["logos Lexer::span()/slice() describe the same match", "peg position!() values are token indices"]
    rule_prov(ctx, rep)
    rule_fold(ctx, rep)
    rule_copy(ctx, rep)
    rule_end(ctx, rep)
    rule_noop(ctx, rep)
    rule_units(ctx, rep)
    rule_pair(ctx, rep)
    rule_linecol(ctx, rep)
    rule_tile(ctx, rep)
    rule_syntaxlabel(ctx, rep)
    rule_rangeend(ctx, rep)
    rule_fileidx(ctx, rep)
    rule_display(ctx, rep)
    rule_synth(ctx, rep)
    rule_doclabel(ctx, rep)
    rule_signspan(ctx, rep)
    from rules.c15 import rule_verbatim, rule_measured
    rule_verbatim(ctx, rep, rid="R-C05-verbatim")
    rule_measured(ctx, rep, rid="R-C05-measured")
    # a position found in one text is a position of that text only (offsets searched in a case-converted copy move what is blanked)
    from rules.c14 import rule_samestr
    rule_samestr(ctx, rep, rid="R-C05-samestr")
    from rules import c05_blank, c05_joinorder
    c05_blank.run(ctx, rep)
    c05_joinorder.run(ctx, rep)
    # a label's offsets are applied to the text the project holds now: the parse they come from must be of that text
    from rules.c11 import rule_cache
    rule_cache(ctx, rep, rid="R-C05-cache")
    # offsets are computed on the pre-processed text and shown on the original: only the (length-preserving) comment blanker may touch the text
    from rules.c08 import rule_prestep
    rule_prestep(ctx, rep, rid="R-C05-prestep")
