"""R-C01-foldid: the post-parse folds (file-id assignment and the late-bound resolvers run on every library) rebuild each
node as the same kind: in every enum's recurse_fold, the arm that matched variant V constructs variant V again, and a
struct's recurse_fold rebuilds the same struct with every field taken from the same-named field (or its fold)."""
import re
from vlib.mir import norm, op_place, switch_info


def run(ctx, rep, g=None):
    r = rep.rule("R-C01-foldid", "the default fold preserves node kinds: each arm of an enum's recurse_fold rebuilds the variant it matched; a struct's "
                                 "recurse_fold feeds every field from the same-named field of the folded node", floor=90, floor_what="recurse_fold arms / struct fields")
    for fid, b in sorted(ctx.prog.bodies.items()):
        fn = norm(fid)
        if not (fn.endswith("::recurse_fold") and b.f["crate"] == "ironplc_dsl"):
            continue
        ty = fn[:-len("::recurse_fold")]
        a = ctx.facts.adts.get(ty)
        if not a:
            continue
        short = ty.split("::")[-1]
        where = "%s:%d" % (b.f["file"], b.f["line"])
        if a["kind"] == "enum":
            sw = None
            for i in sorted(b.reachable(0)):
                si = switch_info(b, i)
                if si and si["kind"] == "disc" and si.get("adt") == ty:
                    sw = (i, si)
                    break
            if sw is None:
                # fieldless enums are returned unchanged
                r.ok("%s|returned as is" % short, where)
                continue
            i, si = sw
            entries = set(si["edges"])
            for succ, labs in sorted(si["edges"].items()):
                region = b.reachable(succ, avoid=entries - {succ})
                built = set()
                for bi, _, s in b.all_stmts():
                    if bi in region and s[0] == "=" and s[2][0] == "agg" and s[2][1].get("adt") == ty:
                        built.add(s[2][1]["variant"])
                for l in labs:
                    inst = "%s::%s" % (short, l)
                    if not built:
                        # the arm returns the value unchanged (moves self) - fine
                        r.ok(inst + "|unchanged", where)
                    elif built == {l}:
                        r.ok(inst, where)
                    else:
                        r.finding("%s|rebuilt as %s" % (inst, ",".join(sorted(built))), where,
                                  "the fold turns %s::%s into %s: every parsed library passes through this fold, so the node kind written in the source is silently replaced" % (short, l, sorted(built)))
        else:
            # struct: the aggregate of `ty` takes field f from (a fold of) self.f
            for _, _, s in b.all_stmts():
                if s[0] == "=" and s[2][0] == "agg" and s[2][1].get("adt") == ty:
                    for fname, o in zip(s[2][1]["fields"], s[2][2]):
                        inst = "%s.%s" % (short, fname)
                        src = origin_field(b, o, ty)
                        if src is None or src == fname:
                            r.ok(inst, where)
                        else:
                            r.finding("%s|fed from .%s" % (inst, src), where, "the fold builds field `%s` from field `%s` of the folded node" % (fname, src))


def origin_field(b, op, ty, depth=8):
    """name of the field of the folded node (`self`, local 1) this operand derives from, following folds/moves; None if unknown"""
    cur = op
    for _ in range(depth):
        p = op_place(cur)
        if p is None:
            return None
        rt = b.root(p)
        fl = [x for x in rt[1] if isinstance(x, list) and x[0] == "f" and x[3] == ty]
        if rt[0] == 1 and fl:
            return fl[0][2]
        d = b.single_def(rt[0])
        if d and d[0] == "call" and d[2].args:
            # fold call / Try::branch / collect ...: follow the (last) data argument
            cur = d[2].args[-1] if (d[2].u or "").startswith("ironplc_dsl::fold::Fold::fold_") else d[2].args[0]
            continue
        if d and d[0] == "stmt" and d[3][0] == "use":
            cur = d[3][1]
            continue
        return None
    return None


def cyclic_blocks(b):
    """blocks that lie on a cycle of the normal-edge CFG"""
    reach = b.reachable(0)
    out = set()
    for x in reach:
        st, seen = list(b.succ(x)), set()
        while st:
            y = st.pop()
            if y == x:
                out.add(x)
                break
            if y in seen:
                continue
            seen.add(y)
            st.extend(b.succ(y))
    return out


def run_partial(ctx, rep):
    r = rep.rule("R-C01-partial", "a sequence of parsed nodes is consumed whole: in hand-written parser code an iterator over DSL-carrying items is "
                                  "advanced with next() only inside a loop, or is afterwards handed on (extend/collect/for); a single next() drops the rest",
                 floor=3, floor_what="next() calls on iterators over parsed nodes")
    n = 0
    for b in sorted(ctx.prog.bodies.values(), key=lambda x: x.id):
        if b.f["crate"] != "ironplc_parser":
            continue
        cyc = None
        cnt = {}
        for c in sorted(b.calls(), key=lambda c: (c.loc[0], c.loc[1])):
            if not ((c.u or "") == "core::iter::traits::iterator::Iterator::next" or (c.callee or "").endswith("Iterator>::next")):
                continue
            from vlib.mir import loc_macro
            m = loc_macro(c.loc)
            if m and m[0] in ("Bang:parser", "Derive:Logos"):
                continue
            # diagnostics are not parsed nodes (parse_program's contract is "the first diagnostic")
            ga = re.sub(r"ironplc_dsl::diagnostic::\w+", "", c.ga or "")
            if not ("ironplc_dsl::" in ga or "ironplc_parser::parser::" in ga or "ironplc_parser::vars::" in ga):
                continue
            n += 1
            if cyc is None:
                cyc = cyclic_blocks(b)
            fn = norm(b.id)
            k = cnt[fn] = cnt.get(fn, 0) + 1
            inst = "%s|next#%d" % (fn.replace("ironplc_parser::", ""), k)
            where = "%s:%d" % (b.f["file"], c.loc[0])
            if c.bb in cyc:
                r.ok(inst, where, "inside a loop")
                continue
            # the iterator local: is it handed to another call later (extend, collect, for-desugaring next in a loop, ...)?
            ip = op_place(c.args[0])
            it = b.root(ip)[0] if ip else None
            later = False
            for c2 in b.calls():
                if c2.bb == c.bb:
                    continue
                for a in c2.args:
                    p = op_place(a)
                    if p is not None and b.root(p)[0] == it:
                        if ((c2.u or "") == "core::iter::traits::iterator::Iterator::next" or (c2.callee or "").endswith("Iterator>::next")) and c2.bb not in cyc:
                            continue
                        later = True
            if later:
                r.ok(inst, where, "iterator handed on afterwards")
            else:
                r.finding(inst + "|rest-dropped", where, "next() is called outside a loop and the iterator is then dropped: every further parsed item is silently discarded")
    r.note("%d next() calls on iterators over parsed nodes" % n)


REVERSING = {"rev", "rfold", "try_rfold", "next_back", "nth_back", "rfind", "rposition", "reverse", "sort", "sort_by", "sort_by_key", "sort_unstable",
             "sort_unstable_by", "sort_unstable_by_key", "sort_by_cached_key", "swap", "swap_remove", "rotate_left", "rotate_right", "rsplit", "rchunks",
             "last", "pop_front", "dedup", "dedup_by", "dedup_by_key",
             # taking from the back / putting in at a position: `while let Some(x) = v.pop()` walks the list backwards (seed C10-F)
             "pop", "pop_back", "push_front", "split_last", "rsplitn", "rsplit_once"}
FORWARD = {"into_iter", "iter", "map", "collect", "fold", "next", "extend", "push", "flatten", "flat_map", "chain", "for_each", "filter_map", "cloned"}


def run_order(ctx, rep):
    """Source order is part of what was written.  The parser never has a reason to walk a parsed sequence backwards, sort it or
    swap in it: a repetition `e*` yields its elements in source order and every consumer (left-nested access paths, statement lists,
    declaration lists) relies on that.  Today no such call exists anywhere in the parser or the DSL; the rule keeps it that way for
    sequences whose element type is a parsed node."""
    r = rep.rule("R-C01-order", "parsed sequences keep their source order: no reversing/sorting/swapping/last-only call (rev, rfold, next_back, "
                                "reverse, sort*, swap*, rotate*, last, dedup*) on a sequence of parsed nodes in parser or DSL code",
                 floor=150, floor_what="iterator/sequence calls over parsed nodes scanned")
    n = 0
    for b in sorted(ctx.prog.bodies.values(), key=lambda x: x.id):
        if b.f["crate"] not in ("ironplc_parser", "ironplc_dsl") or "::test" in norm(b.id):
            continue
        from vlib.mir import loc_macro
        cnt = {}
        for c in sorted(b.calls(), key=lambda c: (c.loc[0], c.loc[1])):
            nm = (c.callee or c.u or "").split("::")[-1]
            if nm == "insert" and (c.callee or "").startswith("alloc::vec::Vec"):
                nm = "Vec::insert"
            elif nm not in REVERSING and nm not in FORWARD:
                continue
            ga = (c.ga or "") + " " + (c.st or "")
            if not ("ironplc_dsl::" in ga or "ironplc_parser::parser::" in ga or "ironplc_parser::vars::" in ga or "ironplc_parser::token::Token" in ga):
                continue
            m = loc_macro(c.loc)
            if m and m[0] in ("Derive:Logos", "Derive:Recurse", "Derive:Debug", "Derive:PartialEq", "Derive:Clone"):
                continue
            n += 1
            if nm in REVERSING or nm == "Vec::insert":
                fn = norm(b.id).replace("ironplc_parser::", "").replace("ironplc_dsl::", "dsl::")
                k = cnt[nm] = cnt.get(nm, 0) + 1
                r.finding("%s|%s#%d" % (fn, nm, k), "%s:%d" % (b.f["file"], c.loc[0]),
                          "%s() on a sequence of parsed nodes: the elements are used in an order other than the one they were written in (or only the last one is kept)" % nm)
    if not any(i["verdict"] == "finding" for i in r.instances):
        r.ok("parser+dsl|no order-changing call", "compiler/parser/src, compiler/dsl/src", "%d forward calls" % n)
    r.count_override = n
    r.note("%d iterator/sequence calls over parsed nodes scanned" % n)
