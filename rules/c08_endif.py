"""R-C08-endif: the END_IF terminator inserter as a finite transition system.

`insert_keyword_statement_terminators` is one loop over the tokens with boolean state.  Its body is small enough to be
*evaluated* abstractly: for every value of the boolean state and every token class (EndIf, Semicolon, Comment, Whitespace,
Newline, any other token) the loop body is walked once over the MIR - token-type comparisons are decided by the class,
boolean locals by the abstract store - giving the transition table  (state, class) -> (state', `;` inserted?).

Obligations on the table (each a necessary condition of C08's "optional semicolon after END_IF" and trivia clauses):
  G1  an END_IF always leaves a terminator pending                        (state' = pending, whatever the state was)
  G2  while a terminator is pending, Comment/Whitespace keep it pending or emit it   (trivia between END_IF and the next token changes nothing)
  G3  while a terminator is pending, any other token except `;` emits it
  G4  with nothing pending, nothing is inserted
The walk is fail-closed: a construct it cannot evaluate is reported, not skipped."""
from vlib.mir import op_place, loc_str, norm

FN = "ironplc_parser::xform_tokens::insert_keyword_statement_terminators"
TT = "ironplc_parser::token::TokenType"
CLASSES = ["EndIf", "Semicolon", "Comment", "Whitespace", "Newline", "Identifier"]
TRIVIA = {"Comment", "Whitespace"}


class Stuck(Exception):
    pass


def find_loop(b):
    """(head block with Iterator::next, block entered on Some)"""
    from vlib.mir import switch_info
    for c in b.calls():
        if (c.u or "") == "core::iter::traits::iterator::Iterator::next" and c.target is not None:
            si = switch_info(b, c.target)
            if si and si["kind"] == "disc":
                for succ, labs in si["edges"].items():
                    if labs == ["Some"]:
                        return c.bb, succ
    return None, None


def state_locals(b, head, body_entry):
    """bool locals with a user name that are written inside the loop and live across iterations"""
    out = []
    for l, (ty, name) in enumerate(b.f["locals"]):
        if ty == "bool" and name:
            out.append(l)
    return out


def run_body(b, head, entry, store, cls, opt_local):
    """concrete walk of one iteration; returns (store', inserted variants list)"""
    store = dict(store)
    inserted = []
    vals = {"__opt__": opt_local}            # local -> abstract value: bool, ("tt", variant), ("tok",), ...
    bb = entry
    steps = 0
    while True:
        steps += 1
        if steps > 400:
            raise Stuck("no return to the loop head within 400 blocks")
        blk = b.bbs[bb]
        for s in blk["s"]:
            if s[0] != "=":
                continue
            dst, rv = s[1], s[2]
            if dst[1]:
                continue
            l = dst[0]
            v = None
            if rv[0] == "use":
                v = ev_operand(b, rv[1], store, vals, cls)
            elif rv[0] == "ref":
                v = ev_place(b, rv[2], store, vals, cls)
            elif rv[0] == "un" and rv[1] == "Not":
                x = ev_operand(b, rv[2], store, vals, cls)
                v = (not x) if isinstance(x, bool) else None
            elif rv[0] == "bin" and rv[1] in ("BitAnd", "BitOr", "Eq", "Ne", "BitXor"):
                x, y = ev_operand(b, rv[2], store, vals, cls), ev_operand(b, rv[3], store, vals, cls)
                if isinstance(x, bool) and isinstance(y, bool):
                    v = {"BitAnd": x and y, "BitOr": x or y, "Eq": x == y, "Ne": x != y, "BitXor": x != y}[rv[1]]
                elif isinstance(x, tuple) and isinstance(y, tuple) and x[0] == y[0] == "tt" and rv[1] in ("Eq", "Ne"):
                    v = (x[1] == y[1]) if rv[1] == "Eq" else (x[1] != y[1])
            elif rv[0] == "disc":
                x = ev_place(b, rv[1], store, vals, cls)
                if isinstance(x, tuple) and x[0] in ("tt", "ref_tt"):
                    v = ("disc", x[1], rv[3])
            elif rv[0] == "agg" and isinstance(rv[1], dict) and rv[1].get("adt") == TT:
                v = ("tt", rv[1]["variant"])
            elif rv[0] == "agg" and isinstance(rv[1], dict) and rv[1].get("adt") == "ironplc_parser::token::Token":
                tv = ev_operand(b, rv[2][0], store, vals, cls) if rv[2] else None
                v = ("newtok", tv[1] if isinstance(tv, tuple) and tv[0] == "tt" else None)
            elif rv[0] == "cast":
                v = ev_operand(b, rv[2], store, vals, cls)
            if l in store:
                if not isinstance(v, bool):
                    raise Stuck("state variable %s assigned a value the walk cannot evaluate at %s" % (b.local_name(l), loc_str(b.f, s[3])))
                store[l] = v
            else:
                vals[l] = v
        t = blk["t"]
        k = t[0]
        if k == "goto":
            nxt = t[1]
        elif k == "switch":
            x = ev_operand(b, t[1], store, vals, cls)
            targets, otherwise = t[2], t[3]
            if isinstance(x, bool):
                key = "1" if x else "0"
            elif isinstance(x, tuple) and x[0] == "disc":
                # discriminant of a TokenType value: map the variant name to its discriminant text
                key = None
                for dv, vn in x[2]:
                    if vn == x[1]:
                        key = dv
                if key is None:
                    key = "__other__"
            else:
                raise Stuck("branch on a value the walk cannot evaluate at %s" % loc_str(b.f, t[4]))
            nxt = otherwise
            for tv, tb in targets:
                if tv == key:
                    nxt = tb
        elif k == "call":
            c = b.call_at(bb)
            nm = (c.callee or c.u or "")
            last = nm.split("::")[-1]
            res = None
            if (c.u or "") in ("core::cmp::PartialEq::eq", "core::cmp::PartialEq::ne") and len(c.args) == 2:
                x, y = ev_operand(b, c.args[0], store, vals, cls), ev_operand(b, c.args[1], store, vals, cls)
                if isinstance(x, tuple) and isinstance(y, tuple) and x[0] in ("tt", "ref_tt") and y[0] in ("tt", "ref_tt"):
                    res = (x[1] == y[1]) if (c.u or "").endswith("::eq") else (x[1] != y[1])
                else:
                    raise Stuck("comparison of values the walk cannot evaluate at %s" % loc_str(b.f, c.loc))
            elif last == "push" and "Vec" in nm and len(c.args) == 2:
                x = ev_operand(b, c.args[1], store, vals, cls)
                if isinstance(x, tuple) and x[0] == "newtok":
                    inserted.append(x[1])
                elif isinstance(x, tuple) and x[0] == "tok":
                    pass
                else:
                    raise Stuck("a value other than the current token or a fresh token is pushed at %s" % loc_str(b.f, c.loc))
            elif last in ("clone", "to_owned", "to_string", "new", "default", "from", "into"):
                src = ev_operand(b, c.args[0], store, vals, cls) if c.args else None
                res = src if last == "clone" else None
            else:
                raise Stuck("call to %s inside the loop body cannot be evaluated" % nm)
            if not c.dest[1]:
                if c.dest[0] in store:
                    if not isinstance(res, bool):
                        raise Stuck("state variable assigned from a call at %s" % loc_str(b.f, c.loc))
                    store[c.dest[0]] = res
                else:
                    vals[c.dest[0]] = res
            nxt = c.target
        elif k == "drop":
            nxt = t[2]
        elif k == "assert":
            nxt = t[5]
        else:
            raise Stuck("terminator %s inside the loop body" % k)
        if nxt == head:
            return store, inserted
        if nxt is None:
            raise Stuck("diverging call in the loop body")
        bb = nxt


def ev_place(b, pl, store, vals, cls):
    l, pj = pl[0], [x for x in pl[1] if x != "*"]
    if l in store and not pj:
        return store[l]
    if l == vals.get("__opt__"):
        fs = [x for x in pj if isinstance(x, list) and x[0] == "f"]
        if fs and fs[0][3] == "core::option::Option":
            names = [x[2] for x in fs[1:]]
            if not names:
                return ("tok",)
            if names == ["token_type"]:
                return ("tt", cls)
            return ("tokfield", names)
    base = vals.get(l)
    if not pj:
        return base
    # projections from the current token
    if isinstance(base, tuple) and base[0] == "tok":
        names = [x[2] for x in pj if isinstance(x, list) and x[0] == "f"]
        if names == ["token_type"]:
            return ("tt", cls)
        return ("tokfield", names)
    if isinstance(base, tuple) and base[0] == "opt_tok":
        return ("tok",)
    return None


def ev_operand(b, op, store, vals, cls):
    if op[0] == "c":
        c = b.const_of(op)
        if c is not None and len(c) > 3 and isinstance(c[3], dict):
            if "variant" in c[3] and c[1] == TT:
                return ("tt", c[3]["variant"])
            if c[1] == "bool" and "int" in c[3]:
                return c[3]["int"] == "1"
        return None
    return ev_place(b, op[1], store, vals, cls)


def run(ctx, rep):
    r = rep.rule("R-C08-endif", "END_IF terminator inserter, evaluated as a transition table over (pending state x token class): END_IF always leaves a "
                                "terminator pending; while pending, comments/blanks keep it pending (or emit it) and any other token but `;` emits it; "
                                "nothing is inserted when nothing is pending", floor=12, floor_what="(state, token class) transitions")
    bs = ctx.prog.get(FN)
    if not bs:
        rep.error("R-C08-endif", FN + " not found")
        return
    # helpers of the same file are part of the transition function: evaluate the body with them spliced in
    from vlib.inline import inlined
    n_own = len(bs[0].f["locals"])
    b = inlined(ctx.prog, bs[0])
    where = "%s:%d" % (b.f["file"], b.f["line"])
    head, entry = find_loop(b)
    if head is None:
        r.finding("shape|no-token-loop", where, "no loop over the input tokens found")
        return
    st = [l for l in state_locals(b, head, entry) if l < n_own]
    if not st or len(st) > 3:
        r.finding("shape|state", where, "expected 1-3 named boolean state variables, found %d" % len(st))
        return
    # the loop variable: Some payload moved into a local in the entry block
    import itertools
    table = {}
    try:
        for bits in itertools.product([False, True], repeat=len(st)):
            for cls in CLASSES:
                store = dict(zip(st, bits))
                # seed: the Option<Token> returned by next()
                c = b.call_at(head)
                store2, ins = run_body(b, head, entry, store, cls, c.dest[0])
                table[(bits, cls)] = (tuple(store2[l] for l in st), ins)
    except Stuck as e:
        r.finding("shape|not-evaluable", where, "the loop body is no longer a finite transition function the walk can evaluate: %s" % e)
        return
    # which states are "pending"?  pending = a state from which an ordinary token gets a `;` inserted
    pending = {bits for bits in itertools.product([False, True], repeat=len(st)) if "Semicolon" in table[(bits, "Identifier")][1]}
    names = ",".join(b.local_name(l) for l in st)

    def show(bits):
        return "(%s)=%s" % (names, ",".join("T" if x else "F" for x in bits))
    for (bits, cls), (nb, ins) in sorted(table.items()):
        inst = "%s x %s" % (show(bits), cls)
        desc = "-> %s%s" % (show(nb), " + `;`" if ins else "")
        emitted = "Semicolon" in ins
        if any(x != "Semicolon" for x in ins):
            r.finding(inst + "|inserts-other-token", where, "a token other than `;` is inserted")
            continue
        if cls == "EndIf" and nb not in pending:
            r.finding(inst + "|END_IF-not-pending", where, "%s: after this END_IF no terminator is pending, so `END_IF` without `;` here is a syntax error" % desc)
        elif bits in pending and cls in TRIVIA and not (nb in pending or emitted):
            r.finding(inst + "|trivia-drops-pending", where, "%s: a comment/blank after END_IF cancels the pending terminator" % desc)
        elif bits in pending and cls not in TRIVIA and cls != "Semicolon" and not emitted:
            r.finding(inst + "|pending-not-emitted", where, "%s: the token after END_IF is not preceded by the terminator" % desc)
        elif bits not in pending and emitted:
            r.finding(inst + "|spurious-insert", where, "%s: a `;` is inserted although no END_IF is pending" % desc)
        else:
            r.ok(inst, where, desc)
    if not pending:
        r.finding("table|never-inserts", where, "no state inserts a terminator before an ordinary token")
    r.note("state variables: %s; pending states: %s" % (names, ", ".join(show(x) for x in sorted(pending)) or "none"))
    rule_arm(ctx, rep, b, head, entry, st, pending)


def statement_closers(g):
    """token kinds that end a statement: the last terminal of every production `statement` dispatches to.  After such a token an extra `;`
    is harmless, because a statement list accepts empty statements; anywhere else (END_STRUCT in a TYPE block) it is a syntax error."""
    out, seen, todo = set(), set(), ["statement"]
    while todo:
        rn = todo.pop()
        if rn in seen or rn not in g.rules:
            continue
        seen.add(rn)
        ex = g.rules[rn].expr
        for sq in (ex.alts if ex.kind == "choice" else [ex]):
            els = [e for e in sq.elems if not (e.prim.kind == "call" and e.prim.name == "_") and not e.look]
            if not els:
                continue
            if len(els) == 1 and els[0].prim.kind == "call" and g.terminal(els[0].prim) is None:
                todo.append(els[0].prim.name)
                continue
            t = g.terminal(els[-1].prim)
            if t and t[0] == "tok":
                out.add(t[1])
    return out


def rule_arm(ctx, rep, b, head, entry, st, pending):
    """G5: which token kinds make a terminator pending?  The table is evaluated for every variant of TokenType from every state that is not
    pending; a token that arms the inserter must be one that ends a statement (derived from the grammar), because the inserter also fires
    when the `;` is present after a line break (`END_IF<newline>;` becomes `END_IF;<newline>;`), which only a statement list forgives."""
    import itertools
    r = rep.rule("R-C08-endif-arm", "only a keyword that ends a statement makes the terminator inserter pending (evaluated for every TokenType variant): "
                                    "elsewhere the doubled `;` it can produce is a syntax error", floor=100, floor_what="TokenType variants evaluated")
    where = "%s:%d" % (b.f["file"], b.f["line"])
    closers = statement_closers(ctx.peg)
    if "EndIf" not in closers:
        rep.error("R-C08-endif-arm", "the grammar walk from `statement` does not reach END_IF (closers: %s)" % sorted(closers))
        return
    variants = [v["name"] for v in ctx.facts.adts[TT]["variants"]]
    c = b.call_at(head)
    try:
        for v in variants:
            arms = False
            for bits in itertools.product([False, True], repeat=len(st)):
                if bits in pending:
                    continue
                store2, ins = run_body(b, head, entry, dict(zip(st, bits)), v, c.dest[0])
                if tuple(store2[l] for l in st) in pending:
                    arms = True
            if not arms:
                r.ok(v, where, "does not arm")
            elif v in closers:
                r.ok(v, where, "arms; ends a statement")
            else:
                r.finding("%s|arms-outside-statements" % v, where, "after %s a terminator becomes pending, but %s does not end a statement: when the source has the `;` on the next line the inserted one "
                          "doubles it, which is a syntax error outside a statement list" % (v, v))
    except Stuck as e:
        r.finding("shape|not-evaluable", where, "cannot evaluate the loop body for every token kind: %s" % e)
