"""R-C10-tokens — token agreement between a production and its writer (DESIGN.md §R9).

For every grammar sequence whose action builds a DSL node, the *mandatory own terminals* of that sequence (a `tok(TokenType::X)`
with a `#[token]` literal, or an `id_eq("W")` word, at the top level of the sequence: not optional, not repeated, not a
look-ahead) must be written by a writer of that node: the renderer's override for the node type, or - if there is none - an
override that reads the node's fields, or an override that hands the node to its visit method (the parent may write the
delimiters).  If nothing writes the terminal the text cannot be parsed back to the same node: either it is rejected (the
terminal is required by the only production that builds the node) or it parses to something else.

This is a necessary condition of C10 phrased over the two tables the code itself contains - the grammar and the constant
strings of the writer - and not over any spelling of either: moving a write into a helper, a macro or the parent keeps it
satisfied."""
import re
from vlib.mir import norm, op_place
from vlib.traversal import Traversal, snake
from rules.c08 import parse_attr
from rules.c10 import R, GRAM, SPAN, renderer_overrides, bodies_with_closures


def token_texts(ctx):
    """TokenType variant -> list of literal spellings (upper case); regex tokens have none"""
    out = {}
    a = ctx.facts.astattrs.get("ironplc_parser::token::TokenType")
    for name, v in a["variants"].items():
        lits = []
        for at in v["attrs"]:
            p = parse_attr(at)
            if p and p[0] == "token":
                lits.append(p[1].upper())
        out[name] = lits
    return out


def const_strings(b):
    out = []
    for i, where, o in b.operands():
        if o[0] == "c" and len(o) > 3 and isinstance(o[3], dict) and "str" in o[3]:
            out.append(o[3]["str"])
        elif o[0] == "c" and o[1] == "char" and len(o) > 3 and isinstance(o[3], dict) and "int" in o[3]:
            out.append(chr(int(o[3]["int"])))
    for pl in b.f.get("promoted", []):
        for o in pl:
            if len(o) > 3 and isinstance(o[3], dict) and "str" in o[3]:
                out.append(o[3]["str"])
    return out


def written_by(ctx, b, memo):
    """constant strings written by an override: its body, its closures and the inherent helpers of the renderer it calls (transitively);
    other visit methods are not followed - they are writers of other nodes"""
    from collections import Counter
    if b.id in memo:
        return memo[b.id]
    memo[b.id] = Counter()
    out = Counter(format_literals(ctx, b))
    for bd in bodies_with_closures(ctx, b):
        out.update(const_strings(bd))
        for c in bd.calls():
            if not c.callee:
                continue
            for cb in ctx.prog.get(c.callee):
                im = cb.f.get("impl") or {}
                if im.get("self") == R and not im.get("trait_def"):
                    out.update(written_by(ctx, cb, memo))
                elif cb.f["crate"] == "ironplc_plc2plc" and not im.get("trait_def") and not cb.f.get("exp"):
                    # a free function of the renderer that hands back the text to write (`fn qualifier_keyword(q) -> &'static str`)
                    out.update(written_by(ctx, cb, memo))
    memo[b.id] = out
    return out


def words_of(strings, symbols):
    """the words and symbol tokens a multiset of constant strings spells (token -> number of write sites): identifiers whole,
    punctuation runs cut greedily into the lexer's own symbol tokens"""
    from collections import Counter
    ws = Counter()
    syms = sorted(symbols, key=len, reverse=True)
    for s, n in (strings.items() if hasattr(strings, "items") else ((x, 1) for x in strings)):
        for w in re.findall(r"[A-Za-z_][A-Za-z_0-9]*|[^\sA-Za-z0-9_]+", s):
            if w[0].isalpha() or w[0] == "_":
                ws[w.upper()] += n
                continue
            k = 0
            while k < len(w):
                for sy in syms:
                    if w.startswith(sy, k):
                        ws[sy] += n
                        k += len(sy)
                        break
                else:
                    k += 1
    return ws


def format_literals(ctx, b):
    """pieces of the format-string literals in the source text of a function (format_args! templates are not string constants in MIR)"""
    import os
    from vlib import facts as FF
    path = os.path.join(FF.WS, b.f["file"])
    try:
        lines = open(path, encoding="utf-8").read().splitlines()[b.f["line"] - 1:b.f.get("endline", b.f["line"])]
    except OSError:
        return []
    out = []
    for m in re.finditer(r'(?:format|write|writeln|format_args)!\s*\(\s*(?:[^,"]*,\s*)?"((?:[^"\\]|\\.)*)"', "\n".join(lines)):
        out += [x for x in re.split(r"\{[^{}]*\}", m.group(1)) if x]
    return out


def dsl_aggs(ctx, b, depth, seen):
    """DSL ADTs built in body b and, through calls of DSL functions, in its callees (constructor helpers such as StmtKind::assignment)"""
    out = set()
    if b.id in seen:
        return out
    seen.add(b.id)
    for _, _, st in b.all_stmts():
        if st[0] == "=" and st[2][0] == "agg" and st[2][1].get("k") == "adt" and st[2][1]["adt"].startswith("ironplc_dsl::"):
            if b.f["crate"] == "ironplc_parser" and len(st) > 3 and st[3][2] and "::__parse_" in b.id:
                continue
            out.add((st[2][1]["adt"], st[2][1]["variant"]))
    if depth > 0:
        for c in b.calls():
            if not c.callee or "::fmt" in c.callee:
                continue
            if c.callee.startswith("ironplc_dsl::"):
                for cb in ctx.prog.get(c.callee):
                    if cb.f["crate"] == "ironplc_dsl" and not cb.f.get("exp"):
                        out |= dsl_aggs(ctx, cb, depth - 1, seen)
            elif c.callee.startswith("ironplc_parser::") and "::__parse_" not in c.callee:
                # a helper function of the parser that the action calls to build (or validate and build) the node
                for cb in ctx.prog.get(c.callee):
                    if cb.f["crate"] == "ironplc_parser" and not cb.f.get("exp"):
                        out |= dsl_aggs(ctx, cb, depth - 1, seen)
    return out


def _closures_of_rule(ctx, name):
    cache = getattr(ctx, "_c10_closures", None)
    if cache is None:
        cache = {}
        for b in ctx.prog.bodies.values():
            n = norm(b.id)
            if n.startswith(GRAM) and "::{closure" in n:
                cache.setdefault(n[len(GRAM):].split("::")[0], []).append(b)
        ctx._c10_closures = cache
    return cache.get(name, [])


def action_closures(ctx, rule, s):
    out = []
    for b in _closures_of_rule(ctx, rule.name):
        n = norm(b.id)
        if not n.startswith(GRAM + rule.name + "::{closure"):
            continue
        pos = [(st[3][0], st[3][1]) for _, _, st in b.all_stmts() if st[0] == "=" and len(st) > 3 and not st[3][2]]
        pos += [(c.loc[0], c.loc[1]) for c in b.calls() if c.loc and not c.loc[2]]
        if pos and (s.action.line, s.action.col) <= min(pos) and max(pos) <= (s.action.endline, s.action.endcol):
            out.append(b)
    return out


def built_by_action(ctx, rule, s):
    built = set()
    for b in action_closures(ctx, rule, s):
        built |= dsl_aggs(ctx, b, 2, set())
    return built


IGNORE_ADT = {SPAN, "ironplc_dsl::core::Id", "ironplc_dsl::core::FileId", "ironplc_dsl::common::Type"}


def single_seq(expr):
    if expr.kind == "seq":
        return expr
    if expr.kind == "choice" and len(expr.alts) == 1:
        return expr.alts[0]
    return None


def mandatory_terms(g, s, transparent=None, depth=0, rule=None, dropped=()):
    """own terminals the text of this sequence always contains - plus those of a labelled optional group (needed whenever the
    labelled value is present) and those of a *transparent* rule it calls (one alternative, builds no node of its own: a
    bracketed list such as `[ a, b ]` whose value becomes a field of this sequence's node)"""
    out = []
    for e in s.elems:
        if e.look:
            continue
        t = g.terminal(e.prim)
        if t and not e.rep and t[0] in ("tok", "id_eq"):
            out.append(t)
            continue
        if e.rep not in (None, "?") or (e.rep == "?" and not e.label):
            continue
        if e.prim.kind == "group":
            inner = single_seq(e.prim.expr)
            if inner is not None and depth < 3:
                out += mandatory_terms(g, inner, transparent, depth + 1)
        elif e.prim.kind == "call" and transparent is not None and e.prim.name in transparent and depth < 3:
            if (rule, e.label) in dropped:
                continue        # the parser itself drops part of this value (an R-C01-consume finding): nothing the writer could reproduce
            inner = single_seq(g.rules[e.prim.name].expr)
            if inner is not None:
                out += mandatory_terms(g, inner, transparent, depth + 1)
    return out


def discriminant_switchers(ctx):
    """enum ADT -> bodies of the renderer or the DSL that branch on its discriminant (where a field-less variant gets its text)"""
    from vlib.mir import switch_info
    out = {}
    # types the renderer formats (x.to_string(), format!("{}", x)): only for those does a Display/Debug impl spell anything in the output
    formatted = set()
    for b in ctx.prog.bodies.values():
        if b.f["crate"] != "ironplc_plc2plc":
            continue
        for c in b.calls():
            if c.callee and c.ga and ("to_string" in c.callee or "::fmt" in c.callee):
                formatted |= set(re.findall(r"ironplc_dsl::[A-Za-z_:]*[A-Za-z_]", c.ga))
    for b in ctx.prog.bodies.values():
        if b.f["crate"] not in ("ironplc_plc2plc", "ironplc_dsl") or (b.f.get("exp") and b.f["name"] != "fmt"):
            continue        # derived code is skipped, except a derived Debug: `{:?}` of a field-less variant writes its name
        if b.f["name"] == "fmt" and (b.f.get("impl") or {}).get("self") not in formatted:
            continue
        for i in range(len(b.f["bbs"])):
            si = switch_info(b, i)
            if si and si["kind"] == "disc" and si.get("adt"):
                out.setdefault(si["adt"], set()).add(b.id)
    return out


def ancestors(ctx, T, ov):
    """visit method -> overrides from which it is reached through the default traversal only (the nearest overriding ancestors)"""
    out = {}
    for m, b in ov.items():
        seen = set()
        st = list(T.edges_of(b))
        while st:
            n = st.pop()
            if n in seen:
                continue
            seen.add(n)
            if n[0] == "v":
                out.setdefault(n[1], set()).add(m)
                if n[1] in ov:
                    continue
            st.extend(T.succ(n, {}))
    return out


def analyse(ctx):
    """per node kind (adt, variant): the node-building sequences with mandatory own terminals, and for each which terminals no writer spells"""
    from rules.c08_trivia import Trivia
    g = ctx.peg
    tt = token_texts(ctx)
    symbols = {l for ls in tt.values() for l in ls if not any(ch.isalnum() for ch in l)}
    T = Traversal(ctx, "visit")
    ov = renderer_overrides(ctx)
    by_type = {}
    for m, b in ov.items():
        ty = T.method_type.get(m)
        if ty:
            by_type[ty] = b
    memo = {}
    readers = {}
    for m, b in ov.items():
        for bd in bodies_with_closures(ctx, b):
            for _, k, p in bd.place_uses():
                if k == "write":
                    continue
                for x in bd.root(p)[1]:
                    if isinstance(x, list) and x[0] == "f" and x[3].startswith("ironplc_dsl::"):
                        readers.setdefault(x[3], set()).add(m)
    anc = ancestors(ctx, T, ov)
    sw = discriminant_switchers(ctx)
    reach = Trivia(g).reachable("library")
    # node kinds that can occur in a Library at all (type containment): a node the parser converts before it builds the library
    # (IncomplVarDecl's StringSpecification) never reaches the writer
    cont = T.containment()
    in_library, st = set(), ["ironplc_dsl::common::Library"]
    while st:
        n = st.pop()
        if n not in in_library:
            in_library.add(n)
            st += list(cont.get(n, ()))
    nodes, skipped = {}, []
    # labels of which the grammar action drops a component (decided by R-C01-consume)
    from vlib.report import Report
    from rules import c01_consume
    tmp = Report("C01", "quick", 0)
    c01_consume.run(ctx, tmp, g)
    dropped = set()
    for rr in tmp.rules:
        for inst in rr.instances:
            if inst["verdict"] == "finding":
                m0 = re.match(r"rule (\w+)\|(\w+)\.", inst["instance"])
                if m0:
                    dropped.add((m0.group(1), m0.group(2)))
    # transparent rules: one alternative whose action builds no DSL node (its value is handed up to the caller's node)
    built_of = {}
    for rule, s in g.all_seqs():
        if s.action is not None and rule.name in reach:
            built_of[id(s)] = {(a, v) for a, v in built_by_action(ctx, rule, s) if a not in IGNORE_ADT and a in ctx.facts.adts}
    transparent = set()
    for rn in reach:
        sq = single_seq(g.rules[rn].expr)
        if sq is not None and sq.action is not None and not built_of.get(id(sq)) and g.rules[rn].ret and g.rules[rn].ret != "()":
            transparent.add(rn)
    top = {id(single_seq(g.rules[rn].expr) or 0) for rn in reach} | {id(a) for rn in reach if g.rules[rn].expr.kind == "choice" for a in g.rules[rn].expr.alts}
    from collections import Counter
    seqs = []
    for rule, s in g.all_seqs():
        if s.action is None or rule.name not in reach:
            continue
        terms = mandatory_terms(g, s, transparent, 0, rule.name, dropped)
        terms = [t for t in terms if t[0] == "id_eq" or tt.get(t[1])]      # regex tokens are data, not delimiters
        if not terms:
            continue
        built = {(a, v) for a, v in built_of[id(s)] if a in in_library}
        structs = {(a, v) for a, v in built if ctx.facts.adts[a]["kind"] == "struct"}
        units = {(a, v) for a, v in built if ctx.facts.adts[a]["kind"] == "enum" and not [x for x in ctx.facts.adts[a]["variants"] if x["name"] == v][0]["fields"]}
        payload = built - structs - units
        pure = not any(e.label for e in s.elems)          # `tok(X) { Enum::V }`: the token *is* the constant
        if structs:
            cands, kind = structs, "struct"
        elif units and pure:
            cands, kind = units, "unit"
        elif payload:
            cands, kind = payload, "payload"
        else:
            skipped.append((rule.name, terms))
            continue
        alts = [tuple(tt[t[1]]) if t[0] == "tok" else (t[1].upper(),) for t in terms]
        called = set()

        def f(e, sq, c):
            for pp in (e.prim, e.sep):
                if pp is not None and pp.kind == "call":
                    called.add(pp.name)
        g.walk_elems(s, f)
        seqs.append((rule.name, kind, cands, alts, called))
    # what a writer needs for the productions of its own node: when the descendant's production is nested in one of them, only
    # what the writer spells beyond that production's own terminals can be credited to the descendant
    rmemo = {}

    def below(rn):
        if rn not in rmemo:
            rmemo[rn] = Trivia(g).reachable(rn)
        return rmemo[rn]
    own_seqs = {}
    for rn, kind, cands, alts, called in seqs:
        c = Counter()
        for al in alts:
            for x in al:
                c[x] += 1
        nested = set()
        for cn in called:
            nested |= below(cn)
        for a, v in cands:
            own_seqs.setdefault(a, []).append((c, nested))

    def own_need(adt, desc_rule):
        cur = Counter()
        for c, nested in own_seqs.get(adt, ()):
            if desc_rule in nested:
                for x, n in c.items():
                    cur[x] = max(cur[x], n)
        return cur
    wmemo = {}

    def spelled(w):
        if w not in wmemo:
            wmemo[w] = words_of(written_by(ctx, ov[w], memo), symbols)
        return wmemo[w]
    for rn, kind, cands, alts, called in seqs:
        # which of the built nodes owns the terminals?  every candidate is examined; the sequence is fine if one of them has them all
        best = None
        for a, v in sorted(cands):
            m = "visit_" + snake(a.split("::")[-1])
            own = set(readers.get(a, set()))
            if a in by_type:
                own.add(by_type[a].f["name"])
            words = Counter()
            for w in own:
                words.update(spelled(w))
            ancs = anc.get(m, set()) - own
            for w in ancs:
                need = own_need(T.method_type.get(w), rn)
                for x, n in spelled(w).items():
                    if n - need[x] > 0:
                        words[x] += n - need[x]
            ws = set(own) | ancs
            if kind == "unit":
                extra = Counter()
                for bid in sw.get(a, ()):
                    bb = ctx.prog.bodies[bid]
                    ws.add(norm(bid).split("::")[-2] + "::" + bb.f["name"] if bb.f["crate"] != "ironplc_plc2plc" or bb.f["name"] not in ov else bb.f["name"])
                    extra.update(const_strings(bb))
                    extra.update(format_literals(ctx, bb))
                    for cb in ctx.prog.bodies.values():
                        if cb.f.get("parent") == bid:
                            extra.update(const_strings(cb))
                words.update(words_of(extra, symbols))
            missing = []
            for al in dict.fromkeys(alts):
                if not any(words[x] > 0 for x in al):
                    missing.append("/".join(al))
            cand = (len(missing), a, v, sorted(ws), missing)
            if best is None or cand[0] < best[0]:
                best = cand
        _, a, v, ws, missing = best
        nodes.setdefault((a, v), []).append((rn, kind, ["/".join(al) for al in alts], ws, missing))
    return nodes, skipped


def explore(ctx):
    nodes, skipped = analyse(ctx)
    n = 0
    for (a, v), seqs in sorted(nodes.items()):
        n += len(seqs)
        if all(mi for _, _, _, _, mi in seqs):
            rn, kind, terms, ws, mi = min(seqs, key=lambda x: len(x[4]))
            print("%-50s %-7s rule %-38s missing %-18s writers %s" % (a.split("::")[-1] + "::" + v, kind, rn, " ".join(mi), ",".join(ws)[:70] or "NOBODY"))
    print(len(nodes), "node kinds;", n, "sequences;", len(skipped), "sequences with own terminals and no attributable node")


def run(ctx, rep, rid="R-C10-tokens"):
    r = rep.rule(rid, "token agreement between grammar and writer: for every node kind, among the productions with own terminals that build it "
                      "(a #[token] literal or id_eq word that is mandatory in the sequence, mandatory in a labelled optional group, or inherited "
                      "from a one-alternative bracketing rule), at least one has all its terminals spelled by a writer of the node - its override, "
                      "an override that reads its fields, or the nearest overriding ancestors; field-less variants also by the function that "
                      "branches on the enum", floor=100, floor_what="node kinds with own terminals")
    nodes, skipped = analyse(ctx)
    nseq = 0
    for (a, v), seqs in sorted(nodes.items()):
        nseq += len(seqs)
        inst = "%s::%s" % (a.split("::")[-1], v)
        rn, kind, terms, ws, mi = min(seqs, key=lambda x: len(x[4]))
        where = "parser/src/parser.rs rule %s" % rn
        if not mi:
            r.ok(inst, where, "rule %s [%s] written by %s" % (rn, " ".join(terms)[:60], ",".join(ws)[:80]))
            continue
        for t in mi:
            r.finding("%s|not written: %s" % (inst, t), where,
                      "rule %s builds this node from the terminals [%s]; no writer of the node (%s) spells `%s`: the rendered text is rejected or parses to another node"
                      % (rn, " ".join(terms), ",".join(ws) or "there is none: the default traversal prints the children only", t))
    r.note("%d node-building sequences with own terminals; %d more sequences have own terminals but build no node an obligation could be attached to (lists, tuples, values handed up): not decided" % (nseq, len(skipped)))


# ---- R-C10-glue ---------------------------------------------------------------------------------------------------------------------

def _first_write_action(ctx, b, ov, start, memo, depth=0):
    """what is the first thing written on the paths from block `start` of renderer function b: 'glued' (write / write_char: no blank is put
    in front), 'spaced' (write_ws / newline put one), or 'unknown'.  Worst case over the paths: spaced > unknown > glued."""
    from collections import deque
    seen, q, out = set(), deque([start]), set()
    while q:
        x = q.popleft()
        if x in seen or b.is_cleanup(x):
            continue
        seen.add(x)
        c = b.call_at(x)
        if c is not None:
            nm = c.callee or c.u or ""
            last = nm.split("::")[-1]
            if "LibraryRenderer" in nm and last in ("write", "write_char"):
                out.add("glued")
                continue
            if "LibraryRenderer" in nm and last in ("write_ws", "newline"):
                out.add("spaced")
                continue
            if last.startswith("visit_"):
                tb = ov.get(last)
                if tb is None or depth > 4:
                    out.add("unknown")
                else:
                    key = (tb.id, 0)
                    if key not in memo:
                        memo[key] = "unknown"
                        memo[key] = _first_write_action(ctx, tb, ov, 0, memo, depth + 1)
                    out.add(memo[key])
                continue
            if "recurse_visit" in last:
                out.add("unknown")
                continue
        t = b.term(x)
        if t[0] == "ret":
            out.add("unknown")      # nothing written on this path inside the function
            continue
        for s in b.succ(x):
            q.append(s)
    for v in ("spaced", "unknown", "glued"):
        if v in out:
            return v
    return "unknown"


def run_glue(ctx, rep, rid="R-C10-glue"):
    """Where the grammar allows no blank - between the pieces of one lexical token: the sign and the digits of `-5`, a type name and its `#` -
    the writer must not put one.  `write_ws` puts a blank in front of what it writes unless the text ends with one; `write` does not.  For
    every literal terminal L of a node-building sequence that the grammar glues to its neighbour (no `_` between them), in the override for
    that node: a constant that *begins* with L and is glued to what comes before must be written with `write`; after a constant that *ends*
    with L and is glued to what follows, the next thing written on every path must be written without a leading blank."""
    from rules.c08_trivia import Trivia
    g = ctx.peg
    tt = token_texts(ctx)
    T = Traversal(ctx, "visit")
    ov = renderer_overrides(ctx)
    by_type = {}
    for m, b in ov.items():
        ty = T.method_type.get(m)
        if ty:
            by_type[ty] = b
    tv = Trivia(g)
    reach = tv.reachable("library")
    r = rep.rule(rid, "a literal terminal that the grammar glues to its neighbour (no `_` between them) is written glued: the override for the node writes it with `write` "
                      "when glued to what precedes it, and what follows it is written without a leading blank when glued to what follows", floor=3,
                 floor_what="glued literal terminals of nodes that have an override")
    memo = {}
    n = 0
    seen = set()
    for rule, sq in g.all_seqs():
        if sq.action is None or rule.name not in reach:
            continue
        built = {(a, v) for a, v in built_by_action(ctx, rule, sq) if a in by_type and a not in IGNORE_ADT}
        if not built:
            continue
        cons = []          # (element, glued to the previous consuming element?)
        gap = True
        for e in sq.elems:
            if e.look is not None or e.prim.kind in ("position", "empty"):
                continue
            if e.prim.kind == "call" and e.prim.name in ("_", "whitespace", "comment"):
                gap = True
                continue
            cons.append((e, (not gap) and bool(cons)))
            gap = False
        for i, (e, glued_prev) in enumerate(cons):
            t = g.terminal(e.prim)
            if not t or t[0] != "tok" or e.rep or not tt.get(t[1]):
                continue
            glued_next = i + 1 < len(cons) and cons[i + 1][1]
            if not (glued_prev or glued_next):
                continue
            lits = tt[t[1]]
            for a, v in sorted(built):
                b = by_type[a]
                key = (a, t[1], glued_prev, glued_next)
                if key in seen:
                    continue
                seen.add(key)
                inst = "%s|%s%s%s" % (a.split("::")[-1], "~" if glued_prev else "", lits[0], "~" if glued_next else "")
                where = "%s:%d" % (b.f["file"], b.f["line"])
                verdicts = []
                for c in b.calls():
                    nm = c.callee or ""
                    last = nm.split("::")[-1]
                    if "LibraryRenderer" not in nm or last not in ("write", "write_ws") or len(c.args) < 2:
                        continue
                    s0 = b.const_str(c.args[1])
                    if s0 is None:
                        continue
                    for lit in lits:
                        if glued_prev and s0.upper().startswith(lit) and last == "write_ws":
                            verdicts.append("`%s` is written with write_ws although nothing may stand between it and what precedes it" % lit)
                        if glued_next and s0.upper().endswith(lit) and c.target is not None:
                            nxt = _first_write_action(ctx, b, ov, c.target, memo)
                            if nxt == "spaced":
                                verdicts.append("after `%s` the next piece is written with a leading blank although nothing may stand between them" % lit)
                n += 1
                if verdicts:
                    r.finding(inst + "|blank-inside-token", where, "rule %s glues this terminal to its neighbour; in %s %s: the rendered text is rejected" % (rule.name, b.f["name"], verdicts[0]))
                else:
                    r.ok(inst, where, "rule %s" % rule.name)
    r.note("%d glued literal terminals examined" % n)
