"""C12 — The language server answers every request once and survives (DESIGN.md §3 C12)."""
from vlib.mir import norm, loc_str, op_place, switch_info, explore
from rules import panics
from rules.c04 import run_inventory, entry_bodies

LSP = "ironplcc::lsp::LspServer"
TRIAGE = {
    LSP + "::send_response|call:core::result::Result::unwrap#1":
        "Sender::send fails only when the receiving side of the connection is gone, i.e. the client has already disconnected; no answer is owed then",
    LSP + "::handle_request|call:core::result::Result::unwrap#1":
        "sending the MethodNotFound error response: as send_response, Sender::send fails only after the client hung up",
    LSP + "::send_invalid_params|call:core::result::Result::unwrap#1":
        "as send_response: Sender::send fails only after the client hung up",
    LSP + "::send_notification|call:core::result::Result::unwrap#1":
        "as send_response: only fails after the client hung up",
    "ironplcc::lsp_project::map_label|assert:Overflow:Add#1": "line/column counters bounded by the document length",
    "ironplcc::lsp_project::map_label|assert:Overflow:Add#2": "line/column counters bounded by the document length",
    "ironplcc::lsp_project::map_label|assert:Overflow:Add#3": "line/column counters bounded by the document length",
    "ironplcc::lsp_project::map_label|assert:Overflow:Add#4": "line/column counters bounded by the document length",
    "ironplcc::lsp_project::map_label|call:core::str::traits::index#1":
        "contents[0..start]: start is label.location.start of a diagnostic produced by the semantic() call two statements earlier "
        "over the current text of the same file (R-C11-cache: a Source's library is always the parse of its current text; "
        "R-C14-slice re-verifies where map_label's arguments come from), token/label spans are byte offsets on char boundaries of that text",
    "ironplcc::lsp_project::map_label|call:core::str::traits::index#2": "contents[start..start] with the same start as #1",
}
# C04's triage applies to everything shared with the CLI paths
from rules.panic_triage import TRIAGE as T4


def cast_label(call):
    """'Shutdown' for LspServer::cast_request::<lsp_types::request::Shutdown> etc."""
    if call.callee and call.callee.startswith(LSP + "::cast_") and call.ga:
        inner = call.ga.strip("[]").split(",")[-1].strip()
        return inner.split("::")[-1]
    return None


def rule_stdout(ctx, rep, rid="R-C12-stdout"):
    """While the language server runs over stdio, standard output carries the protocol, and lsp-server's writer thread holds the stdout
    lock for its whole life: a `println!` from the message loop blocks for ever (and would corrupt the stream if it did not).  Nothing
    that runs in server mode prints to stdout: no function reachable from the server's entry points, and nothing in the logger module
    (its format closure runs on every log record, in every mode)."""
    r = rep.rule(rid, "nothing that runs in language-server mode writes to standard output (no print!/println! reachable from the message loop or in the logger)",
                 floor=20, floor_what="functions examined")
    entries = []
    for nm in (LSP + "::run", "ironplcc::lsp::start_with_connection", "ironplcc::lsp::start"):
        entries += ctx.prog.get(nm) or []
    reach = ctx.prog.reachable_from(entries)
    ids = set(reach)
    for b in ctx.prog.bodies.values():
        if b.f["crate"] == "ironplcc" and "logger" in b.f["file"] and "::test" not in norm(b.id):
            ids.add(b.id)
    n = 0
    bad = 0
    for bid in sorted(ids):
        b = ctx.prog.body(bid)
        if b is None or b.f["crate"] not in ("ironplcc", "ironplc_parser", "ironplc_analyzer", "ironplc_dsl", "ironplc_plc2plc", "ironplc_problems"):
            continue
        n += 1
        k = 0
        for c in sorted(b.calls(), key=lambda c: (c.loc[0], c.loc[1])):
            if (c.callee or "") in ("std::io::stdio::_print", "std::io::stdio::stdout", "std::io::stdout"):
                k += 1
                bad += 1
                why = "in the logger (runs on every log record)" if "logger" in b.f["file"] else "reachable from the language server's message loop"
                r.finding("%s|stdout#%d" % (norm(b.id).replace("ironplcc::", ""), k), loc_str(b.f, c.loc), "writes to standard output, %s: over stdio the writer thread holds the stdout lock, "
                          "so the call blocks for ever and no further request is answered" % why)
    r.count_override = max(n, 1)
    r.note("%d functions (reachable from the server entry points, plus the logger module) examined" % n)


def rule_dispatch(ctx, rep, rid="R-C12-dispatch"):
    """Every request must reach the function that answers it.  In LspServer::run's loop over the receiver: no path from taking a
    message to the next iteration avoids the match on the message's kind, and on the Request arm every path to the next iteration
    goes through handle_request (the only other ways out are the returns: shutdown / error).  A test placed before the match
    (`if skip(&msg) { continue }`) silently drops requests: the client waits for ever."""
    r = rep.rule(rid, "LspServer::run: each message taken from the receiver is dispatched on its kind before the next one is taken, and every Request "
                      "that does not end the loop is passed to handle_request", floor=2, floor_what="back-edges + Request arm")
    hb = ctx.prog.get(LSP + "::run")
    if not hb:
        rep.error(rid, "LspServer::run not found")
        return
    b = hb[0]
    fb, form = dispatch_body(ctx)
    if form == "find_map":
        # one call of the closure is one iteration: every return lies behind the match on the kind, and on the Request arm no way to
        # `None` (take the next message) avoids handle_request
        where = "%s:%d" % (fb.f["file"], fb.f["line"])
        kinds = [(i, switch_info(fb, i)) for i in sorted(fb.reachable(0)) if (switch_info(fb, i) or {}).get("kind") == "disc" and (switch_info(fb, i) or {}).get("adt") == "lsp_server::msg::Message"]
        if not kinds:
            r.finding("run|no-dispatch", where, "the closure that handles one message does not match on the kind of the message")
            return
        S, si = kinds[0]
        dom = fb.dominators()
        rets = [i for i in fb.reachable(0) if fb.term(i)[0] == "ret"]
        if all(S in dom.get(x, set()) for x in rets):
            r.ok("run|back-edge#1", where, "every return of the per-message closure lies behind the match on the message kind")
        else:
            r.finding("run|message-skipped-before-dispatch", where, "the per-message closure can return without matching on the kind of the message: a request on that path gets no response")
        req = [succ for succ, labs in si["edges"].items() if "Request" in [str(l) for l in labs]]
        hr = {c.bb for c in fb.calls() if (c.callee or "").startswith(LSP + "::") and (c.callee or "").endswith("::handle_request")}
        if not req or not hr:
            r.finding("run|Request arm|no-handler", where, "handle_request is not called on the Request arm")
            return
        nones = {i for i, _, st in fb.all_stmts() if st[0] == "=" and st[1] == [0, []] and st[2][0] == "agg" and isinstance(st[2][1], dict) and st[2][1].get("variant") == "None"}
        seen, stk, bad = set(), [req[0]], False
        while stk:
            x = stk.pop()
            if x in seen or x in hr:
                continue
            seen.add(x)
            if x in nones:
                bad = True
                break
            stk.extend(fb.succ(x))
        if bad:
            r.finding("run|Request arm|request-not-handled", where, "on the Request arm the closure can answer `None` (next message) without calling handle_request: that request is never answered")
        else:
            r.ok("run|Request arm", where, "every way to the next message goes through handle_request; the other way ends the loop")
        return
    heads = [c.bb for c in b.calls() if (c.u or "") == "core::iter::traits::iterator::Iterator::next" and "Receiver" in ((c.ga or "") + (c.callee or "")) or
             (c.u or "") == "core::iter::traits::iterator::Iterator::next" and "crossbeam_channel" in (c.callee or "")]
    if not heads:
        # the same loop written `while let Ok(msg) = receiver.recv()`: the block that takes the next message is the recv() call
        heads = [c.bb for c in b.calls() if (c.callee or "").split("::")[-1] in ("recv", "recv_timeout", "try_recv") and "Receiver" in (c.callee or "")
                 and any(c.bb in b.reachable(s_) for s_ in b.succ(c.bb))]
    if len(heads) != 1:
        r.finding("run|loop-head", "%s:%d" % (b.f["file"], b.f["line"]), "expected one loop over the receiver, found %d" % len(heads))
        return
    head = heads[0]
    dom = b.dominators()
    inloop = b.reachable(head)
    kinds = []
    for i in sorted(inloop):
        si = switch_info(b, i)
        if si and si["kind"] == "disc" and si.get("adt") == "lsp_server::msg::Message":
            kinds.append((i, si))
    if not kinds:
        r.finding("run|no-dispatch", "%s:%d" % (b.f["file"], b.f["line"]), "the loop does not match on the kind of the message")
        return
    S, si = kinds[0]
    # back-edges
    k = 0
    for x in sorted(inloop):
        if head in b.succ(x) and x != head and head in dom.get(x, set()):
            k += 1
            if S in dom.get(x, set()):
                r.ok("run|back-edge#%d" % k, loc_str(b.f, b.term(x)[-1]) if isinstance(b.term(x)[-1], list) else "%s:%d" % (b.f["file"], b.f["line"]), "after the match on the message kind")
            else:
                # where does the path leave the straight line to the match?
                r.finding("run|message-skipped-before-dispatch", "%s:%d" % (b.f["file"], b.f["line"]), "a path takes the next message without matching on the kind of the current one: "
                          "a request on that path is never passed to handle_request and gets no response")
    # Request arm
    req = [succ for succ, labs in si["edges"].items() if "Request" in [str(l) for l in labs]]
    if not req:
        r.finding("run|no-request-arm", "%s:%d" % (b.f["file"], b.f["line"]), "the match has no arm for Message::Request")
        return
    hr = {c.bb for c in b.calls() if (c.callee or "").startswith(LSP + "::") and (c.callee or "").endswith("::handle_request")}
    if not hr:
        r.finding("run|Request arm|no-handler", "%s:%d" % (b.f["file"], b.f["line"]), "handle_request is not called")
        return
    seen, st, bad = set(), [req[0]], False
    while st:
        x = st.pop()
        if x in seen or x in hr:
            continue
        seen.add(x)
        if x == head:
            bad = True
            break
        st.extend(b.succ(x))
    if bad:
        r.finding("run|Request arm|request-not-handled", "%s:%d" % (b.f["file"], b.f["line"]), "on the Request arm a path reaches the next iteration without calling handle_request: that request is never answered")
    else:
        r.ok("run|Request arm", "%s:%d" % (b.f["file"], b.f["line"]), "every path to the next iteration goes through handle_request; the others return")


def rule_reply(ctx, rep):
    r = rep.rule("R-C12-reply", "in handle_request every path to a normal return sends exactly one response carrying req.id "
                                "(the Shutdown arm is exempt only because run() intercepts shutdown first)", floor=3, floor_what="exit classes")
    hb = ctx.prog.get(LSP + "::handle_request")
    if not hb:
        rep.error("R-C12-reply", "handle_request not found")
        return
    b = hb[0]
    SEND = LSP + "::send_response"
    # helper methods that send exactly one response: they build a Message::Response and hand it to Sender::send once
    responders = set()
    for hb2 in ctx.prog.bodies.values():
        n2 = norm(hb2.id)
        if not n2.startswith(LSP + "::") or n2 == LSP + "::handle_request":
            continue
        builds = [1 for _, _, s2 in hb2.all_stmts() if s2[0] == "=" and s2[2][0] == "agg" and s2[2][1].get("adt") == "lsp_server::msg::Message" and s2[2][1].get("variant") == "Response"]
        sends = [c2 for c2 in hb2.calls() if c2.callee == "crossbeam_channel::channel::Sender::send"]
        if len(builds) == 1 and len(sends) == 1:
            responders.add(n2)

    # ... and every other function of the crate from which such a helper can be reached: calling it may answer too
    may = set(responders)
    grew = True
    while grew:
        grew = False
        for hb2 in ctx.prog.bodies.values():
            n2 = norm(hb2.id)
            if hb2.f["crate"] != "ironplcc" or n2 in may or n2 == LSP + "::handle_request" or n2 == LSP + "::run":
                continue
            if any(t is not None and norm(t.id) in may for t, _, _ in ctx.prog.callees_of(hb2)):
                may.add(n2)
                grew = True
    indirect = may - responders

    def step(st, bb):
        dec, cnt = st
        c = b.call_at(bb)
        if c is not None:
            direct = c.callee in responders or c.callee in indirect
            raw = c.callee == "crossbeam_channel::channel::Sender::send"
            if direct or raw:
                cnt = min(cnt + 1, 2)
        return (dec, cnt)

    def edge(st, bb, succ):
        dec, cnt = st
        si = switch_info(b, bb)
        if si and si["kind"] == "disc" and si["subject"][0] == "call":
            lab = cast_label(si["subject"][1])
            if lab:
                arms = si["edges"].get(succ)
                if arms and si.get("adt") == "core::result::Result":
                    # the discriminant of one cast result cannot change along a path: later re-tests (drop elaboration,
                    # nested patterns) that contradict the first outcome are infeasible edges
                    prev = [a for (l, a) in dec if l == lab]
                    if prev and prev[0] != arms[0]:
                        return None
                    dec = dec | frozenset([(lab, arms[0])])
                elif arms:
                    dec = dec | frozenset([(lab + "/" + str(si.get("adt", "")).split("::")[-1], arms[0])])
        return (dec, cnt)

    rets = explore(b, (frozenset(), 0), step, edge)
    finals = set()
    for bb, sts in rets.items():
        finals |= sts
    # the response id must be the request's id
    id_ok = True
    for c in b.calls():
        if c.callee in responders:
            p = op_place(c.args[1])
            root = b.root(p) if p else None
            d = b.single_def(root[0]) if root else None
            good = False
            if d and d[0] == "call" and "RequestId" in (d[2].callee or "") and d[2].callee.endswith("::clone"):
                src = b.root(op_place(d[2].args[0]))
                flds = [x[2] for x in src[1] if isinstance(x, list) and x[0] == "f"]
                good = src[0] == 2 and flds == ["id"]
            if not good:
                id_ok = False
                r.finding("send_response-id|%s" % (cast_label_of_block(b, c.bb) or "?"), loc_str(b.f, c.loc), "response id does not derive from req.id")
    shutdown_exempt = run_guard(ctx, rep)
    for dec, cnt in sorted(finals, key=lambda x: (sorted(x[0]), x[1])):
        oks = sorted(l for l, a in dec if a == "Ok")
        name = "Ok:" + "+".join(oks) if oks else "fallthrough(unknown method)"
        inst = "handle_request|%s|responses=%d" % (name, cnt)
        where = "%s:%d" % (b.f["file"], b.f["line"])
        if oks == ["Shutdown"] and cnt == 0:
            if shutdown_exempt:
                r.justified(inst, "run() returns on method == Shutdown::METHOD before calling handle_request (verified on run's MIR)", where)
            else:
                r.finding(inst, where, "Shutdown arm answers nothing and run() does not intercept shutdown first")
        elif cnt == 1:
            r.ok(inst, where)
        else:
            r.finding(inst, where, "%d responses on this path (exactly one required)" % cnt)


def is_shutdown_const(b, op):
    k = b.const_of(op)
    return k is not None and ("request::Shutdown as lsp_types::request::Request>::METHOD" in k[2] or b.const_str(op) == "shutdown")


def cast_label_of_block(b, bb):
    return None


def dispatch_body(ctx):
    """(body, form): the body in which LspServer::run takes a message and dispatches it.  form "loop": run itself (a loop over the
    receiver).  form "find_map": run is `receiver.iter().find_map(|msg| ..)` - the closure is one iteration, returning Some ends the loop
    (with the value run returns as Ok), returning None takes the next message."""
    rb = ctx.prog.get(LSP + "::run")
    if not rb:
        return None, None
    b = rb[0]
    for c in b.calls():
        if (c.callee or c.u or "").endswith("Iterator::find_map") and ("crossbeam_channel" in (c.ga or "") or "Receiver" in (c.ga or "")) and len(c.args) > 1:
            p = op_place(c.args[1])
            d = b.single_def(p[0]) if p is not None and not p[1] else None
            if d and d[0] == "stmt" and d[3][0] == "agg" and isinstance(d[3][1], dict) and d[3][1].get("k") == "closure":
                cbs = ctx.prog.get(norm(d[3][1]["def"]))
                if cbs:
                    return cbs[0], "find_map"
    return b, "loop"


def run_guard(ctx, rep):
    """run(): `if req.method == Shutdown::METHOD { return Ok(req) }` dominates the handle_request call"""
    b, _form = dispatch_body(ctx)
    if b is None:
        rep.error("R-C12-reply", "LspServer::run not found")
        return False
    hr = [c for c in b.calls() if c.callee == LSP + "::handle_request"]
    if not hr:
        return False
    for c in hr:
        ok = False
        for d in b.dominators().get(c.bb, set()):
            si = switch_info(b, d)
            if not si or si["kind"] != "bool" or si["subject"][0] != "call":
                continue
            cmpc = si["subject"][1]
            if not (cmpc.callee and cmpc.callee.endswith("::eq")):
                continue
            if not any(is_shutdown_const(b, a) for a in cmpc.args):
                continue
            # handle_request must be on the `false` edge
            for succ, lab in si["edges"].items():
                if lab == [False] and succ in b.dominators().get(c.bb, set()):
                    ok = True
        if not ok:
            return False
    return True


def rule_run(ctx, rep):
    r = rep.rule("R-C12-run", "run() hands every Request that is not shutdown to handle_request, every Notification to "
                              "handle_notification, and no message kind leads to a panic or is dropped", floor=3, floor_what="message arms")
    b, _form = dispatch_body(ctx)
    if b is None:
        rep.error("R-C12-run", "run not found")
        return
    # the switch on the Message discriminant
    found = False
    for bb in sorted(b.reachable(0)):
        si = switch_info(b, bb)
        if si and si["kind"] == "disc" and si.get("adt") == "lsp_server::msg::Message":
            if any(d != bb and (switch_info(b, d) or {}).get("adt") == "lsp_server::msg::Message" for d in b.dominators().get(bb, set())):
                continue  # drop-elaboration re-tests of the same discriminant
            found = True
            for succ, labs in si["edges"].items():
                for lab in labs:
                    reach = b.reachable(succ)
                    calls = {c.callee for c in b.calls() if c.bb in reach and c.bb != bb}
                    # what does this arm do before the loop header is reached again?
                    region = arm_region(b, succ, bb)
                    rc = [c for c in b.calls() if c.bb in region]
                    names = {c.callee for c in rc}
                    inst = "run|Message::%s" % lab
                    where = "%s:%d" % (b.f["file"], b.f["line"])
                    pan = [c for c in rc if c.callee and c.callee.startswith(("core::panicking", "std::panicking"))]
                    if pan:
                        r.finding(inst, loc_str(b.f, pan[0].loc), "this message kind reaches %s" % pan[0].callee)
                    elif lab == "Request" and (LSP + "::handle_request") in names:
                        r.ok(inst, where)
                    elif lab == "Notification" and (LSP + "::handle_notification") in names:
                        r.ok(inst, where)
                    elif lab == "Response":
                        r.ok(inst, where, "ignored")
                    else:
                        r.finding(inst, where, "message kind not dispatched to its handler")
    if not found:
        rep.error("R-C12-run", "no match on lsp_server::Message found in run()")


def arm_region(b, start, header):
    """blocks reachable from `start` without passing through `header` again (one loop iteration of the arm)"""
    seen = set()
    st = [start]
    while st:
        x = st.pop()
        if x in seen or x == header:
            continue
        seen.add(x)
        t = b.term(x)
        # stop at the iterator's next() of the message loop
        c = b.call_at(x)
        if c is not None and c.callee and c.callee.endswith("Iterator>::next") and x != start:
            continue
        st.extend(b.succ(x))
    return seen


def rule_quiet(ctx, rep):
    r = rep.rule("R-C12-quiet", "no response can be sent while handling a notification (send_response / Message::Response "
                                "construction unreachable from handle_notification)", floor=1)
    hb = ctx.prog.get(LSP + "::handle_notification")
    if not hb:
        rep.error("R-C12-quiet", "handle_notification not found")
        return
    reach = ctx.prog.reachable_from(hb)
    bad = [fid for fid in reach if norm(fid) == LSP + "::send_response"]
    resp_ctor = []
    for fid in reach:
        bb = ctx.prog.bodies[fid]
        if bb.f["crate"] != "ironplcc":
            continue
        for i, j, s in bb.all_stmts():
            if s[0] == "=" and s[2][0] == "agg" and s[2][1].get("adt") == "lsp_server::msg::Message" and s[2][1].get("variant") == "Response":
                resp_ctor.append((bb, s))
    if bad or resp_ctor:
        r.finding("handle_notification->send_response", "%s:%d" % (hb[0].f["file"], hb[0].f["line"]),
                  "a response can be sent from the notification handler via %s" % (
                      " -> ".join(norm(x) for x in ctx.prog.path_to(reach, bad[0])) if bad else norm(resp_ctor[0][0].id)))
    else:
        r.ok("handle_notification", "%s:%d" % (hb[0].f["file"], hb[0].f["line"]), "%d functions reachable, none sends a response" % len(reach))


def rule_exit(ctx, rep):
    r = rep.rule("R-C12-exit", "run() returns Ok only with the shutdown request; start_with_connection maps handle_shutdown's Ok to Ok(()) "
                               "and returns run()'s Err unchanged", floor=2)
    rb = ctx.prog.get(LSP + "::run")
    sb = ctx.prog.get("ironplcc::lsp::start_with_connection")
    if not rb or not sb:
        rep.error("R-C12-exit", "run/start_with_connection not found")
        return
    b = rb[0]
    # every `_0 = Ok(..)` in run must be dominated by the true edge of the shutdown comparison
    n_ok = 0
    bad = 0
    for i, j, s in b.all_stmts():
        if s[0] == "=" and s[1] == [0, []] and s[2][0] == "agg" and s[2][1].get("variant") == "Ok":
            n_ok += 1
            good = False
            for d in b.dominators().get(i, set()):
                si = switch_info(b, d)
                if si and si["kind"] == "bool" and si["subject"][0] == "call" and si["subject"][1].callee.endswith("::eq"):
                    if any(is_shutdown_const(b, a) for a in si["subject"][1].args):
                        for succ, lab in si["edges"].items():
                            if lab == [True] and (succ == i or succ in b.dominators().get(i, set())):
                                good = True
            if not good:
                bad += 1
    fb, form = dispatch_body(ctx)
    if n_ok == 0 and form == "find_map":
        # run returns find_map(..).ok_or(..): Ok exactly when the closure answered Some - which must be behind the shutdown comparison
        via = [c for c in b.calls() if (c.callee or "").split("::")[-1] in ("ok_or", "ok_or_else") and c.dest == [0, []]]
        somes = [i for i, _, st in fb.all_stmts() if st[0] == "=" and st[1] == [0, []] and st[2][0] == "agg" and isinstance(st[2][1], dict) and st[2][1].get("variant") == "Some"]
        good_all = bool(via) and bool(somes)
        for i in somes:
            good = False
            for d in fb.dominators().get(i, set()):
                si = switch_info(fb, d)
                if si and si["kind"] == "bool" and si["subject"][0] == "call" and si["subject"][1].callee.endswith("::eq") and any(is_shutdown_const(fb, a) for a in si["subject"][1].args):
                    for succ, lab in si["edges"].items():
                        if lab == [True] and (succ == i or succ in fb.dominators().get(i, set())):
                            good = True
            good_all = good_all and good
        if good_all:
            r.ok("run|Ok-return", "%s:%d" % (b.f["file"], b.f["line"]), "Ok is the Some of the per-message closure, which lies behind the shutdown comparison")
        else:
            r.finding("run|Ok-return", "%s:%d" % (b.f["file"], b.f["line"]), "run() can return Ok without having received shutdown")
    elif n_ok == 0 or bad:
        r.finding("run|Ok-return", "%s:%d" % (b.f["file"], b.f["line"]), "run() can return Ok without having received shutdown")
    else:
        r.ok("run|Ok-return", "%s:%d" % (b.f["file"], b.f["line"]))
    s = sb[0]
    hs = [c for c in s.calls() if c.callee == "lsp_server::Connection::handle_shutdown"]
    runs = [c for c in s.calls() if c.callee == LSP + "::run"]
    if hs and runs:
        r.ok("start_with_connection|handle_shutdown", "%s:%d" % (s.f["file"], s.f["line"]))
    else:
        r.finding("start_with_connection|handle_shutdown", "%s:%d" % (s.f["file"], s.f["line"]), "handle_shutdown / run not called")


def run(ctx, rep):
    rep.not_decided += ["liveness over arbitrary interleavings", "exit status after shutdown/exit ordering variants (inside lsp-server)",
                        "panics inside lsp-server / serde (trusted)"]
    rep.assumptions += ["lsp-server's Connection/handle_shutdown implement the shutdown/exit handshake as documented",
                        "send() on the channel fails only when the client is gone"]
    from rules import c09_durrange
    c09_durrange.run(ctx, rep, rid="R-C12-durrange")
    entries = entry_bodies(ctx, rep, [LSP + "::run", "ironplcc::lsp::start_with_connection", "ironplcc::lsp::start"])
    r = rep.rule("R-C12-panic", "every panic-capable construct reachable from the LSP message loop is discharged, justified or a known finding",
                 floor=60, floor_what="sites")
    tri = dict(T4)
    tri.update(TRIAGE)
    run_inventory(ctx, rep, r, entries, tri)
    rule_run(ctx, rep)
    rule_reply(ctx, rep)
    rule_dispatch(ctx, rep)
    rule_stdout(ctx, rep)
    rule_quiet(ctx, rep)
    rule_exit(ctx, rep)
    # the invariant the map_label slice triage relies on (offsets belong to the current text), re-verified here
    from rules.c11 import rule_cache
    rule_cache(ctx, rep, rid="R-C12-cache")
    # ... and the text that is cut is the text of the label's own file
    from rules.c05 import rule_pair
    rule_pair(ctx, rep, rid="R-C12-pair")
    # a request is only answered if the code between receiving and answering it terminates
    from rules import c04_progress
    c04_progress.run(ctx, rep, rid="R-C12-progress")
    from rules import c04_magnitude
    c04_magnitude.run(ctx, rep, rid="R-C12-magnitude")
    c04_magnitude.run_errrun(ctx, rep, rid="R-C12-errrun")
    from rules.c14 import rule_samestr
    rule_samestr(ctx, rep, rid="R-C12-samestr")
    from rules.c04 import rule_emptyok
    rule_emptyok(ctx, rep, rid="R-C12-emptyok")
    from rules import c04_backtrack
    c04_backtrack.run(ctx, rep, rid="R-C12-backtrack")
    from rules import c04_recursion
    c04_recursion.run_fanout(ctx, rep, rid="R-C12-fanout")
    c04_recursion.run_depth(ctx, rep, rid="R-C12-depth")
    c04_recursion.run_fmtself(ctx, rep, rid="R-C12-fmtself")
    c04_recursion.run(ctx, rep, rid="R-C12-recursion")
    # the server slices the text it stores with offsets computed on the pre-processed text: no step may change the length of the text
    from rules.c08 import rule_prestep
    rule_prestep(ctx, rep, rid="R-C12-prestep")
    # spans are byte offsets into the pre-processed text but are applied to the original text: the pre-processor must keep every byte position
    from rules import c05_blank
    c05_blank.run(ctx, rep, rid="R-C12-blank")


def thorough_extra(ctx, rep):
    from rules.c04 import clippy_cross_reference
    clippy_cross_reference(ctx, rep, entry_bodies(ctx, rep, [LSP + "::run", "ironplcc::lsp::start_with_connection", "ironplcc::lsp::start"]))
