"""C13 — Command-line contract: exit status, OK line and diagnostics agree (DESIGN.md §3 C13)."""
import re
from vlib.mir import norm, loc_str, op_place, switch_info, explore

CLI = "ironplcc::cli::"
HD = CLI + "handle_diagnostics"
EMIT_IF_ERR_CALLEES = {CLI + "create_project"}   # verified by this same rule: its Err returns are always preceded by an emission


def closure_emits(ctx, b, op):
    """operand is a closure (or fn) whose body calls handle_diagnostics"""
    p = op_place(op)
    if p is None:
        return False
    d = b.single_def(p[0])
    if d and d[0] == "stmt" and d[3][0] == "agg" and d[3][1].get("k") == "closure":
        for cb in ctx.prog.get(norm(d[3][1]["def"])):
            if any(c.callee == HD for c in cb.calls()):
                return True
    return False


def deferred_err_edges(ctx, b):
    """Err edges of a match whose payload is not dealt with in the arm but *stored*: the arm re-wraps it in an Err that is pushed into a
    vector V, and a later loop takes the items of V one by one and matches every one of them (no way round the loop that misses the
    match).  Taking such an edge creates no obligation of its own: the Err arm of the later match is where the diagnostics are emitted
    and the failure is recorded, and that arm is examined like any other.  -> {(bb, succ)}"""
    from vlib import units
    out = set()
    dom = b.dominators()
    # vectors whose every item is matched in a loop: V -> True
    matched = set()
    for nx in b.calls():
        if (nx.callee or nx.u or "").split("::")[-1] != "next" or not nx.args:
            continue
        names, root = units.upstream(b, nx)
        if root is None or any(n not in ("into_iter", "iter", "iter_mut", "by_ref", "deref_mut", "deref", "borrow_mut") for n in names):
            continue
        # the Some edge of the test on next()'s result
        si = switch_info(b, nx.target) if nx.target is not None else None
        k = 0
        cur = nx.target
        while si is None and cur is not None and k < 4:
            sc = b.succ(cur)
            if len(sc) != 1:
                break
            cur = sc[0]
            si = switch_info(b, cur)
            k += 1
        if not si or si["kind"] != "disc" or si.get("adt") != "core::option::Option":
            continue
        some = [sx for sx, labs in si["edges"].items() if labs == ["Some"]]
        if not some:
            continue
        # a discriminant test on a Result inside the loop that every way back to next() passes
        for i in b.reachable(some[0]):
            s2 = switch_info(b, i)
            if not s2 or s2["kind"] != "disc" or s2.get("adt") != "core::result::Result":
                continue
            if nx.bb in b.reachable(some[0], avoid=(i,)) and i != nx.bb:
                continue        # an iteration can go round without the match
            matched.add(root)
    if not matched:
        return out
    for bb in b.reachable(0):
        si = switch_info(b, bb)
        if not si or si["kind"] != "disc" or si.get("adt") != "core::result::Result":
            continue
        for succ, labs in si["edges"].items():
            if labs != ["Err"]:
                continue
            subj = si["subject"]
            src = None
            if subj[0] == "call":
                src = subj[1].dest[0]
            elif subj[0] == "place":
                src = subj[1][0]
            if src is None:
                continue
            taint = units.forward(b, {src})
            ok = False
            for i, j, s in b.all_stmts():
                if i not in dom or succ not in dom.get(i, ()):
                    continue
                if s[0] == "=" and s[2][0] == "agg" and isinstance(s[2][1], dict) and s[2][1].get("adt") == "core::result::Result" and s[2][1].get("variant") == "Err":
                    ps = [op_place(o) for o in s[2][2]]
                    if not any(p is not None and p[0] in taint for p in ps):
                        continue
                    t2 = units.forward(b, {s[1][0]})
                    for c in b.calls():
                        if c.callee == "alloc::vec::Vec::push" and len(c.args) > 1:
                            vp, xp = op_place(c.args[0]), op_place(c.args[1])
                            if vp is not None and xp is not None and xp[0] in t2 and b.root(vp)[0] in matched and not b.root(vp)[1]:
                                ok = True
            if ok:
                out.add((bb, succ))
    return out


def with_helpers(ctx, b):
    """the command function with the helpers of cli.rs it calls spliced in (`let files = enumerate_all_files(paths)?; push_files(..)`): the
    contract is about the command, not about how its steps are split into functions.  Not spliced: the emitter itself, the constructor of
    one diagnostic, enumerate_files (R-C13-dir decides it) and create_project where a command calls it (decided here as its own entry)."""
    from vlib.inline import inlined
    keep = {HD, CLI + "diagnostic", CLI + "enumerate_files", CLI + "create_project", CLI + "check", CLI + "echo", CLI + "tokenize"}
    return inlined(ctx.prog, b, accept=lambda h: norm(h.id) not in keep and norm(h.id).startswith(CLI))


def analyse(ctx, b):
    """Explore all paths; state = (emitted, ok_printed, saw_err_arm, nonempty, emit_if_err, ret, bools)"""
    deferred = deferred_err_edges(ctx, b)
    okstr_dest = set()
    for c in b.calls():
        if c.callee == "core::fmt::Arguments::from_str" and b.const_str(c.args[0]) == "OK\n":
            okstr_dest.add(c.dest[0])
    # user-visible bool locals assigned constants
    bool_locals = set()
    for i, j, s in b.all_stmts():
        if s[0] == "=" and not s[1][1] and b.local_ty(s[1][0]) == "bool" and b.local_name(s[1][0]):
            bool_locals.add(s[1][0])

    def step(st, bb):
        emitted, okp, sawerr, nonempty, eie, ret, bools = st
        for s in b.stmts(bb):
            if s[0] != "=":
                continue
            if s[1] == [0, []] and s[2][0] == "agg" and s[2][1].get("adt") == "core::result::Result":
                ret = s[2][1]["variant"]
            # the variant a Result variable holds on this path (a spliced helper builds `Err(..)` in one block and the caller's `?` tests it
            # in another: the two are one decision, not two)
            if not s[1][1]:
                l = s[1][0]
                if any(isinstance(k_, tuple) and k_[0] == "seen" and k_[1] == l for k_, _ in bools):
                    bools = frozenset((k_, x) for k_, x in bools if not (isinstance(k_, tuple) and k_[0] == "seen" and k_[1] == l))
                v = None
                if s[2][0] == "agg" and isinstance(s[2][1], dict) and s[2][1].get("adt") == "core::result::Result":
                    v = s[2][1]["variant"]
                elif s[2][0] == "use" and s[2][1][0] in ("cp", "mv") and not s[2][1][1][1]:
                    v = dict(bools).get(("var", s[2][1][1][0]))
                if v is not None or dict(bools).get(("var", l)) is not None:
                    bools = frozenset([(k_, x) for k_, x in bools if k_ != ("var", l)] + ([(("var", l), v)] if v is not None else []))
            if not s[1][1] and s[1][0] in bool_locals and s[2][0] == "use" and s[2][1][0] == "c":
                v = s[2][1][2] == "true"
                bools = frozenset([(l, x) for l, x in bools if l != s[1][0]] + [(s[1][0], v)])
        c = b.call_at(bb)
        if c is not None:
            if any(isinstance(k_, tuple) and k_[0] == "seen" and k_[1] == c.dest[0] for k_, _ in bools):
                bools = frozenset((k_, x) for k_, x in bools if not (isinstance(k_, tuple) and k_[0] == "seen" and k_[1] == c.dest[0]))
            if not c.dest[1]:
                v = None
                if (c.callee or "").endswith("Try>::branch") and c.args and op_place(c.args[0]) is not None and not op_place(c.args[0])[1]:
                    v = {"Ok": "Continue", "Err": "Break"}.get(dict(bools).get(("var", op_place(c.args[0])[0])))
                if v is not None or dict(bools).get(("var", c.dest[0])) is not None:
                    bools = frozenset([(k_, x) for k_, x in bools if k_ != ("var", c.dest[0])] + ([(("var", c.dest[0]), v)] if v is not None else []))
            if c.callee == "alloc::vec::Vec::push" and op_place(c.args[0]) is not None:
                vr = b.root(op_place(c.args[0]))
                if not vr[1]:
                    bools = frozenset(list(bools) + [(("vec", vr[0]), True)])
            if c.callee == HD:
                emitted = True
            elif c.callee in EMIT_IF_ERR_CALLEES:
                eie = True
            elif c.callee == "core::result::Result::map_err" and len(c.args) > 1 and closure_emits(ctx, b, c.args[1]):
                eie = True
            elif c.callee == "std::io::stdio::_print":
                p = op_place(c.args[0])
                if p is not None and p[0] in okstr_dest:
                    okp = True
            elif c.callee and "from_residual" in c.callee and c.dest == [0, []]:
                ret = "Err"
                if eie:
                    emitted = True
        return (emitted, okp, sawerr, nonempty, eie, ret, bools)

    def edge(st, bb, succ):
        emitted, okp, sawerr, nonempty, eie, ret, bools = st
        si = switch_info(b, bb)
        if si:
            labs = si["edges"].get(succ, [])
            if si["kind"] == "disc":
                sl = None
                if si["subject"][0] == "place" and not si["subject"][1][1]:
                    sl = si["subject"][1][0]
                elif si["subject"][0] == "call" and not si["subject"][2] and not si["subject"][1].dest[1]:
                    sl = si["subject"][1].dest[0]
                held = dict(bools).get(("var", sl)) if sl is not None else None
                if held is not None and held not in labs:
                    return None   # infeasible: the variable holds the other variant on this path
                # the same value is tested again further down (nested patterns, the drop glue of a partly moved value): the answer is the same
                sj = si["subject"]
                skey = ("seen", sj[1][0], repr(sj[1][1])) if sj[0] == "place" else (("seen", sj[1].dest[0], repr(list(sj[1].dest[1]) + list(sj[2]))) if sj[0] == "call" else None)
                if skey is not None:
                    prev = dict(bools).get(skey)
                    if prev is not None and prev not in labs:
                        return None
                    if len(labs) == 1 and prev is None:
                        bools = frozenset(list(bools) + [(skey, labs[0])])
            if si["kind"] == "disc" and si.get("adt") == "core::result::Result":
                if labs == ["Err"] and (bb, succ) not in deferred:
                    sawerr = True
            if si["kind"] == "disc" and si.get("adt") == "core::ops::control_flow::ControlFlow":
                if labs == ["Continue"]:
                    eie = False
            if si["kind"] == "bool" and si["subject"][0] == "call" and si["subject"][1].callee in ("alloc::vec::Vec::is_empty", "core::slice::is_empty"):
                vp = op_place(si["subject"][1].args[0])
                vr = b.root(vp) if vp else None
                if vr is not None and not vr[1] and dict(bools).get(("vec", vr[0])) and labs == [True]:
                    return None   # infeasible: something was pushed to this vector on this path
                if labs == [False]:
                    nonempty = True
            if si["kind"] == "bool" and si["subject"][0] == "place":
                root = si["subject"][1]
                if not root[1]:
                    known = dict(bools).get(root[0])
                    if known is not None and labs and labs[0] != known:
                        return None   # infeasible edge: the flag has the other value on this path
        return (emitted, okp, sawerr, nonempty, eie, ret, bools)

    rets = explore(b, (False, False, False, False, False, None, frozenset()), step, edge)
    finals = set()
    for sts in rets.values():
        finals |= sts
    return finals


def rule_exit(ctx, rep, rid="R-C13-exit"):
    # main: exit status is the command's result
    r_e = rep.rule(rid, "main returns the selected command's Result unchanged (exit status = command result)", floor=4, floor_what="command arms")
    mb = [b for b in ctx.prog.bodies.values() if b.f["crate"] == "ironplcc" and norm(b.id) == "ironplcc::main"]
    if not mb:
        rep.error(rid, "ironplcc::main not found")
    else:
        b = mb[0]
        for callee in (CLI + "check", CLI + "echo", CLI + "tokenize", "ironplcc::lsp::start"):
            cs = [c for c in b.calls() if c.callee == callee]
            inst = "main|%s" % callee.split("::", 1)[1]
            if len(cs) != 1:
                r_e.finding(inst + "|calls=%d" % len(cs), "%s:%d" % (b.f["file"], b.f["line"]), "command not called exactly once from main")
            elif cs[0].dest != [0, []]:
                r_e.finding(inst + "|result-not-returned", loc_str(b.f, cs[0].loc), "the command's Result is not written to main's return place")
            else:
                r_e.ok(inst, loc_str(b.f, cs[0].loc))


def rule_argv(ctx, rep, rid="R-C13-argv"):
    """The paths the commands work on are the arguments as the user gave them.  An `#[arg(..)]` attribute on a `files: Vec<PathBuf>` field
    that rewrites them - `value_delimiter` splits a name at a character, `value_parser` / `default_value*` / `num_args` with a terminator
    turn them into something else - makes `check dir` and `check dir/a,b.st` disagree about a file that exists.  The attributes are macro
    input (like the grammar): they are read from the source of the binary."""
    import os
    from vlib import facts as FF
    r = rep.rule(rid, "the path arguments of check / echo / tokenize reach the commands as given: no #[arg] attribute on a `files: Vec<PathBuf>` field splits or rewrites them",
                 floor=3, floor_what="path-list fields of the command-line definition")
    path = os.path.join(FF.WS, "plc2x/bin/main.rs")
    try:
        text = open(path, encoding="utf-8").read()
    except OSError:
        rep.error(rid, "plc2x/bin/main.rs not readable")
        return
    REWRITE = ("value_delimiter", "use_value_delimiter", "value_parser", "default_value", "default_values", "default_value_t", "default_missing_value", "value_terminator",
               "require_equals", "env")
    k = 0
    for m in re.finditer(r"((?:\s*(?:///[^\n]*|#\[[^\]]*\])\s*\n)*)\s*(\w+)\s*:\s*Vec\s*<\s*PathBuf\s*>", text):
        k += 1
        line = text[:m.start(2)].count("\n") + 1
        attrs = re.findall(r"#\[\s*(?:arg|clap)\s*\(([^\]]*)\)\s*\]", m.group(1))
        bad = sorted({w for a in attrs for w in re.findall(r"[A-Za-z_]+", a) if w in REWRITE})
        inst = "main.rs|%s#%d" % (m.group(2), k)
        if bad:
            r.finding(inst + "|" + ",".join(bad), "plc2x/bin/main.rs:%d" % line, "the path list is rewritten by the argument parser (%s): a file whose name the rewriting touches is a different "
                      "argument than the file a directory listing finds" % ", ".join(bad))
        else:
            r.ok(inst, "plc2x/bin/main.rs:%d" % line, "taken as given")


def rule_everyfile(ctx, rep, rid="R-C13-everyfile"):
    """`tokenize` succeeds only if every file tokenizes: in its loop over the sources, every way from the call that tokenizes a file to the
    next file passes the test of that file's problems (`diagnostics.is_empty()`).  A `continue` in between (for a file without tokens, a file
    that is 'too small to matter') skips the verdict of that file."""
    r = rep.rule(rid, "cli::tokenize tests the problems of every file it tokenizes: no way from tokenize_program to the next iteration avoids the emptiness test of its problems",
                 floor=1, floor_what="tokenizing calls in the per-file loop")
    bs = ctx.prog.get(CLI + "tokenize")
    if not bs:
        rep.error(rid, "cli::tokenize not found")
        return
    b = with_helpers(ctx, bs[0])
    n = 0
    for c in sorted(b.calls(), key=lambda c: (c.loc[0], c.loc[1])):
        if not (c.callee or "").endswith("tokenize_program"):
            continue
        n += 1
        where = loc_str(b.f, c.loc)
        heads = {h.bb for h in b.calls() if (h.u or "").endswith("Iterator::next") and c.bb in b.reachable(h.bb) and h.bb in b.reachable(c.bb)}
        if not heads:
            r.ok("tokenize|tokenize_program#%d" % n, where, "not in a loop")
            continue
        tests = set()
        for i in b.reachable(c.bb):
            si = switch_info(b, i)
            if si and si["kind"] == "bool" and si["subject"][0] == "call" and (si["subject"][1].callee or "").split("::")[-1] in ("is_empty", "len"):
                ap = op_place(si["subject"][1].args[0]) if si["subject"][1].args else None
                rt = b.root(ap) if ap is not None else None
                if rt is not None and rt[0] == c.dest[0]:
                    tests.add(i)
                elif rt is not None:
                    # the problems moved out of the pair first (`let (tokens, diagnostics) = tokenize_program(..)`)
                    d0 = b.single_def(rt[0])
                    if d0 and d0[0] == "stmt" and d0[3][0] == "use" and op_place(d0[3][1]) is not None and b.root(op_place(d0[3][1]))[0] == c.dest[0]:
                        tests.add(i)
        if not tests:
            r.finding("tokenize|tokenize_program#%d|problems-not-tested" % n, where, "the problems of the file are never tested for emptiness")
            continue
        seen, st, bad = set(), list(b.succ(c.bb)), False
        while st:
            x = st.pop()
            if x in seen or x in tests:
                continue
            seen.add(x)
            if x in heads:
                bad = True
                break
            st.extend(b.succ(x))
        if bad:
            r.finding("tokenize|tokenize_program#%d|file-skipped-before-verdict" % n, where, "a way from tokenizing a file to the next file does not test the file's problems: a file that takes "
                      "that way is counted as fine whatever the tokenizer reported")
        else:
            r.ok("tokenize|tokenize_program#%d" % n, where, "every way to the next file passes the test of this file's problems")
    if not n:
        rep.error(rid, "cli::tokenize does not call tokenize_program (anchor moved)")


def rule_pushadds(ctx, rep, rid="R-C13-pushadds"):
    """A file named on the command line is either in the project or an error: FileBackedProject::push has no way to say Ok without having
    added the file.  A `return Ok(())` for files push decides not to read (an extension table, a size limit) makes `echo F` / `tokenize F` /
    `check GOOD F` succeed for an F that does not parse, and makes the answer depend on the spelling of the file's name."""
    r = rep.rule(rid, "FileBackedProject::push returns Ok only after it has added the file to `sources` (every Ok return is behind the call that stores the text): "
                      "a file that is named is never skipped silently", floor=1, floor_what="Ok returns of push")
    bs = ctx.prog.get("ironplcc::project::FileBackedProject::push")
    if not bs:
        rep.error(rid, "FileBackedProject::push not found")
        return
    b = bs[0]
    adders = set()
    for c in b.calls():
        cal = c.callee or c.u or ""
        if cal.endswith("Project>::change_text_document") or cal.endswith("Project::change_text_document"):
            adders.add(c.bb)
        if cal.split("::")[-1] in ("insert", "entry") and c.args:
            p = op_place(c.args[0])
            rt = b.root(p) if p is not None else None
            if rt and [x[2] for x in rt[1] if isinstance(x, list) and x[0] == "f"][-1:] == ["sources"]:
                adders.add(c.bb)
    oks = [(i, s) for i, j, s in b.all_stmts() if s[0] == "=" and s[1] == [0, []] and s[2][0] == "agg" and isinstance(s[2][1], dict) and s[2][1].get("adt") == "core::result::Result" and s[2][1].get("variant") == "Ok"]
    where = "%s:%d" % (b.f["file"], b.f["line"])
    if not adders:
        r.finding("push|adds-nothing", where, "push calls nothing that stores the file's text in `sources`")
        return
    free = b.reachable(0, avoid=adders)
    k = 0
    for i, s in sorted(oks, key=lambda x: (x[1][3][0], x[1][3][1])):
        k += 1
        if i in free:
            r.finding("push|Ok without adding#%d" % k, loc_str(b.f, s[3]), "push can return Ok without having stored the file: a named file is skipped silently (its errors with it)")
        else:
            r.ok("push|Ok#%d" % k, loc_str(b.f, s[3]), "behind the call that stores the text")
    # a result handed through from a callee (`self.add(..)` as tail call) is not an Ok built here; the callee is then the function that adds
    if not oks:
        tail = [c for c in b.calls() if c.dest == [0, []]]
        if tail and all(c.bb in adders or not (c.bb in free) for c in tail):
            r.ok("push|result of the adding call", where)
        else:
            r.finding("push|no-Ok-found", where, "cannot find where push builds its Ok result")


def run(ctx, rep):
    rep.not_decided += ["directory argument equivalent to the list of its files (file-system dependent)", "argument-order equivalence (see C06)",
                        "that at least one *coded* diagnostic is rendered (codespan output text)"]
    rep.assumptions += ["println!/handle_diagnostics are the only output channels of the CLI functions", "process exit status is main's Result (std Termination)"]
    r_ok = rep.rule("R-C13-ok", "check/tokenize: `OK` is printed on every path that returns Ok and on no path that returns Err", floor=4, floor_what="exit classes")
    r_emit = rep.rule("R-C13-emit", "check/echo/tokenize/create_project: every Err return is preceded by a diagnostic emission, every path that "
                                    "emitted a diagnostic, took an Err arm of a Result, or saw a non-empty diagnostic list returns Err", floor=8, floor_what="exit classes")
    for name in ("check", "echo", "tokenize", "create_project"):
        bs = ctx.prog.get(CLI + name)
        if not bs:
            rep.error("R-C13-emit", "cli::%s not found" % name)
            continue
        b = with_helpers(ctx, bs[0])
        where = "%s:%d" % (b.f["file"], b.f["line"])
        finals = analyse(ctx, b)
        classes = set()
        for emitted, okp, sawerr, nonempty, eie, ret, bools in finals:
            classes.add((ret, emitted, okp, sawerr, nonempty))
        for ret, emitted, okp, sawerr, nonempty in sorted(classes, key=str):
            inst = "%s|ret=%s|emitted=%s|err_arm=%s|nonempty=%s" % (name, ret, emitted, sawerr, nonempty)
            if ret == "Err" and not emitted:
                r_emit.finding(inst, where, "a path returns Err without having emitted any diagnostic")
            elif ret == "Ok" and (emitted or sawerr or nonempty):
                r_emit.finding(inst, where, "a path returns Ok although it emitted a diagnostic / took an Err arm / saw diagnostics")
            elif ret is None:
                r_emit.finding(inst, where, "cannot determine the returned variant on a path")
            else:
                r_emit.ok(inst, where)
            if name in ("check", "tokenize"):
                inst2 = "%s|ret=%s|ok_printed=%s" % (name, ret, okp)
                if (ret == "Ok") != okp:
                    r_ok.finding(inst2, where, "`OK` printed=%s on a path returning %s" % (okp, ret))
                else:
                    r_ok.ok(inst2, where)

    # the verdict of check is semantic()'s result: inspected, not ignored
    r_v = rep.rule("R-C13-verdict", "cli::check inspects the Result of Project::semantic (its discriminant decides the return)", floor=1)
    bs = ctx.prog.get(CLI + "check")
    if bs:
        b = bs[0]
        sem = [c for c in b.calls() if (c.callee or "").endswith("Project>::semantic") or c.u == "ironplcc::project::Project::semantic"]
        if len(sem) != 1:
            r_v.finding("check|semantic-calls=%d" % len(sem), "%s:%d" % (b.f["file"], b.f["line"]), "expected exactly one call of Project::semantic")
        else:
            dl = sem[0].dest[0]
            inspected = any(s[0] == "=" and s[2][0] == "disc" and b.root(s[2][1])[0] == dl for _, _, s in b.all_stmts())
            on_path = any(switch_info(b, i) and switch_info(b, i)["kind"] == "disc" and switch_info(b, i)["subject"][0] == "call"
                          and switch_info(b, i)["subject"][1].bb == sem[0].bb for i in b.reachable(0))
            if inspected and on_path:
                r_v.ok("check|semantic-result-inspected", loc_str(b.f, sem[0].loc))
            else:
                r_v.finding("check|semantic-result-ignored", loc_str(b.f, sem[0].loc), "the result of semantic() never decides a branch")

    # emission failures must not be silent
    r_s = rep.rule("R-C13-swallow", "the Result of codespan term::emit is inspected (a failed emission is not silently dropped)", floor=1)
    found = 0
    for bd in ctx.prog.bodies.values():
        if bd.f["crate"] != "ironplcc":
            continue
        for c in bd.calls():
            if c.callee == "codespan_reporting::term::emit":
                found += 1
                # follow the result through map/map_err; is any discriminant of the chain ever read, or is it returned?
                cur = c.dest[0]
                inspected = False
                for _ in range(4):
                    if any(s[0] == "=" and s[2][0] == "disc" and bd.root(s[2][1])[0] == cur for _, _, s in bd.all_stmts()):
                        inspected = True
                        break
                    nxt = [c2 for c2 in bd.calls() if any(op_place(a) and bd.root(op_place(a))[0] == cur for a in c2.args)]
                    if cur == 0 or not nxt:
                        break
                    if nxt[0].callee and nxt[0].callee.startswith("core::result::Result::") and nxt[0].callee.split("::")[-1] in ("map_err", "map", "or_else", "and_then"):
                        cur = nxt[0].dest[0]
                        continue
                    inspected = True   # handed to some other function (unwrap, expect, is_err, ...)
                    break
                inst = "%s|term::emit" % norm(bd.id).replace("ironplcc::", "")
                if inspected or cur == 0:
                    r_s.ok(inst, loc_str(bd.f, c.loc))
                else:
                    r_s.finding(inst, loc_str(bd.f, c.loc), "the Result of term::emit is mapped and dropped: when rendering fails nothing reaches stderr")
    if not found:
        rep.error("R-C13-swallow", "no call of codespan_reporting::term::emit found")

    rule_exit(ctx, rep)
    rule_pushadds(ctx, rep)
    rule_argv(ctx, rep)
    rule_everyfile(ctx, rep)
    from rules import c13_dir, c13_nonempty, c13_emitall
    c13_dir.run(ctx, rep)
    c13_nonempty.run(ctx, rep)
    c13_emitall.run(ctx, rep)
    # every given file is one entry of the project's file table: its key must tell distinct paths apart and order them the same way in every run
    from rules.c06 import rule_types
    rule_types(ctx, rep, rid="R-C13-fileid")
    # a panic in the command-line glue is exit status 101 with no coded diagnostic: the commands' own code (cli.rs, main) must not be able to
    # panic (the libraries below it are C04's inventory; this is the part that belongs to the command-line contract)
    from rules import c04, panics
    from rules.panic_triage import TRIAGE
    from rules.c04 import entry_bodies
    entries = entry_bodies(ctx, rep, [CLI + "check", CLI + "echo", CLI + "tokenize", "ironplcc::main"])
    r_p = rep.rule("R-C13-panic", "no panic-capable construct in the command-line functions themselves (cli.rs, main): a panic there ends the command with status 101 and no coded diagnostic",
                   floor=0, floor_what="sites in cli.rs / main")
    sites_, _ = c04.run_inventory(ctx, rep, r_p, entries, TRIAGE, only=lambda s_: norm(s_.body.id).startswith(("ironplcc::cli::", "ironplcc::main")))
    if not sites_:
        r_p.count_override = len([b for b in ctx.prog.bodies.values() if norm(b.id).startswith(("ironplcc::cli::", "ironplcc::main")) and "::test" not in norm(b.id)])
        r_p.note("no panic-capable construct in the command-line functions today (zero expected; positive example: seeded/C13-N)")
