"""R-C03-allwalks: a registered analysis stage has one successful way out, and every diagnostic-producing step is on it.

Each `rule_*::apply` / `xform_*::apply` is a straight spine: walk(s) that can fail (`?` / returned Result), an inspection of
the collected diagnostics, then success.  A second successful exit (an early `return Ok(..)` fast path) skips whatever comes
after it on the spine - including the only place where some diagnostic is raised.  For every stage function the rule takes
the final successful return, the fallible steps that dominate it (calls whose Result is branched on by `?`, tested with
is_empty/matched, or returned), and requires every other successful exit to be dominated by all of them as well."""
from vlib.mir import op_place, loc_str, norm
from rules.c02_earlyok import ret_sites


def stage_functions(ctx):
    out = []
    for b in ctx.prog.bodies.values():
        n = norm(b.id)
        if b.f["crate"] == "ironplc_analyzer" and b.f["name"] == "apply" and b.f["dk"] == "Fn" and (".rule_" in n.replace("::", ".") or ".xform_" in n.replace("::", ".")):
            out.append(b)
    for n in ("ironplc_analyzer::stages::analyze", "ironplc_analyzer::stages::semantic", "ironplc_analyzer::stages::resolve_types"):
        out += ctx.prog.get(n)
    return sorted(out, key=lambda b: b.id)


def run(ctx, rep, rid="R-C03-allwalks"):
    r = rep.rule(rid, "every registered analysis stage (rule_*::apply, xform_*::apply, stages::*) reaches success only past all of its "
                      "diagnostic-producing steps: no successful exit that is not dominated by every fallible step on the spine of the final one",
                 floor=18, floor_what="stage functions")
    for b in stage_functions(ctx):
        fn = norm(b.id).replace("ironplc_analyzer::", "")
        where = "%s:%d" % (b.f["file"], b.f["line"])
        dom = b.dominators()
        reach = b.reachable(0)
        rs = [(i, k, d) for i, k, d in ret_sites(b) if i in reach]
        succ = [(i, k, d) for i, k, d in rs if k in ("ok", "call", "move")]
        if not succ:
            r.ok(fn, where, "no successful exit of its own")
            continue
        final = max(succ, key=lambda t: (len(dom.get(t[0], ())), t[0]))
        spine = dom.get(final[0], set()) | {final[0]}
        # fallible steps on the spine: calls returning a Result/Option carrying diagnostics, or any workspace call returning Result
        steps = []
        for c in b.calls():
            if c.bb not in spine or c.bb == final[0] and final[1] == "call":
                continue
            dt = b.local_ty(c.dest[0]) or ""
            if ("Result<" in dt or "ControlFlow<" in dt) and "Diagnostic" in dt and not (c.callee or "").endswith(("::branch", "::from_residual")):
                steps.append(c)
        bad = []
        for i, k, d in succ:
            if i == final[0]:
                continue
            missing = [c for c in steps if c.bb not in dom.get(i, set()) and c.bb != i]
            if missing:
                bad.append((i, k, d, missing))
        if bad:
            for i, k, d, missing in bad:
                loc = d.loc if hasattr(d, "loc") else d[3]
                r.finding("%s|successful exit bypasses %s" % (fn, ",".join(sorted({(c.callee or c.u or "?").split("::")[-1] for c in missing}))), loc_str(b.f, loc),
                          "this exit returns success without %d fallible step(s) of the stage having run (first at line %d): their diagnostics are never raised on this path"
                          % (len(missing), min(c.loc[0] for c in missing)))
        else:
            r.ok(fn, where, "%d fallible steps, %d successful exit(s)" % (len(steps), len(succ)))
