"""C02 — a rule is applied at every place its subject can occur (two more instances of the R-C02-uses scheme, DESIGN.md §R7).

  R-C02-enumunique  every list that *defines* the values of an enumeration (class `def` of c02_enum.ENUM_FIELDS: a type declaration's
                    values, the values of an enumeration declared inline with a variable) is read by the unique-values rule
  R-C02-taskrefs    every reference to a task in a configuration (every field named `task_name` of the configuration DSL) is read by the
                    task-definition rule
"""
import re
from vlib.mir import norm
from rules.c02_enum import ENUM_FIELDS, EV


def _rule_bodies(ctx, file_part):
    out = []
    for b in ctx.prog.bodies.values():
        if b.f["crate"] == "ironplc_analyzer" and file_part in b.f["file"] and "::test" not in norm(b.id):
            out.append(b)
    return out


def _reads(bodies, aid, field):
    for b in bodies:
        for _, k, pl in b.place_uses():
            if k == "write":
                continue
            if any(isinstance(x, list) and x[0] == "f" and x[3] == aid and x[2] == field for x in b.root(pl)[1]):
                return b
    return None


def run_enumunique(ctx, rep, rid="R-C02-enumunique"):
    r = rep.rule(rid, "every list that defines the values of an enumeration is looked at by the unique-values rule (P0005)", floor=2, floor_what="defining lists")
    bodies = _rule_bodies(ctx, "rule_enumeration_values_unique")
    if not bodies:
        rep.error(rid, "rule_enumeration_values_unique not found")
        return
    for aid, a in sorted(ctx.facts.adts.items()):
        if not aid.startswith("ironplc_dsl::"):
            continue
        short = aid.split("::")[-1]
        for v in a["variants"]:
            for fl in v["fields"]:
                if not EV.search(fl["ty"]) or ENUM_FIELDS.get((short, fl["name"]), ("",))[0] != "def":
                    continue
                inst = "%s.%s" % (short, fl["name"])
                where = "%s:%d" % (a["file"], a["line"])
                rb = _reads(bodies, aid, fl["name"])
                if rb is not None:
                    r.ok(inst, "%s:%d" % (rb.f["file"], rb.f["line"]), "read in %s" % rb.f["name"])
                else:
                    r.finding(inst + "|not-checked", where, "%s (%s) defines the values of an enumeration, but the unique-values rule never reads it: a duplicated value there is accepted" % (inst, ENUM_FIELDS[(short, fl["name"])][1]))


def run_taskrefs(ctx, rep, rid="R-C02-taskrefs"):
    r = rep.rule(rid, "every reference to a task in a configuration (each `task_name` field of the configuration DSL) is looked at by the task-definition rule (P0011)",
                 floor=2, floor_what="task references")
    bodies = _rule_bodies(ctx, "rule_program_task_definition_exists")
    if not bodies:
        rep.error(rid, "rule_program_task_definition_exists not found")
        return
    for aid, a in sorted(ctx.facts.adts.items()):
        if not aid.startswith("ironplc_dsl::configuration::"):
            continue
        short = aid.split("::")[-1]
        for v in a["variants"]:
            for fl in v["fields"]:
                if fl["name"] != "task_name" or "core::Id" not in fl["ty"]:
                    continue
                inst = "%s.task_name" % short
                where = "%s:%d" % (a["file"], a["line"])
                rb = _reads(bodies, aid, "task_name")
                if rb is not None:
                    r.ok(inst, "%s:%d" % (rb.f["file"], rb.f["line"]), "read in %s" % rb.f["name"])
                else:
                    r.finding(inst + "|not-checked", where, "%s names a task, but the task-definition rule never reads it: a reference to a task that is not defined is accepted there" % inst)


def run(ctx, rep):
    run_enumunique(ctx, rep)
    run_taskrefs(ctx, rep)
