"""C02 — a rule is applied at every place its subject can occur (two more instances of the R-C02-uses scheme, DESIGN.md §R7).

  R-C02-enumunique  every list that *defines* the values of an enumeration (class `def` of c02_enum.ENUM_FIELDS: a type declaration's
                    values, the values of an enumeration declared inline with a variable) is read by the unique-values rule
  R-C02-taskrefs    every reference to a task in a configuration (every field named `task_name` of the configuration DSL) is read by the
                    task-definition rule
"""
import re
from vlib.mir import norm, op_place
from rules.c02_enum import ENUM_FIELDS, EV


def _rule_bodies(ctx, file_part):
    out = []
    for b in ctx.prog.bodies.values():
        if b.f["crate"] == "ironplc_analyzer" and file_part in b.f["file"] and "::test" not in norm(b.id):
            out.append(b)
    return out


def _reads(bodies, aid, field):
    for b in bodies:
        for _, k, pl in b.place_uses():
            if k == "write":
                continue
            if any(isinstance(x, list) and x[0] == "f" and x[3] == aid and x[2] == field for x in b.root(pl)[1]):
                return b
    return None


def run_enumunique(ctx, rep, rid="R-C02-enumunique"):
    r = rep.rule(rid, "every list that defines the values of an enumeration is looked at by the unique-values rule (P0005)", floor=2, floor_what="defining lists")
    bodies = _rule_bodies(ctx, "rule_enumeration_values_unique")
    if not bodies:
        rep.error(rid, "rule_enumeration_values_unique not found")
        return
    for aid, a in sorted(ctx.facts.adts.items()):
        if not aid.startswith("ironplc_dsl::"):
            continue
        short = aid.split("::")[-1]
        for v in a["variants"]:
            for fl in v["fields"]:
                if not EV.search(fl["ty"]) or ENUM_FIELDS.get((short, fl["name"]), ("",))[0] != "def":
                    continue
                inst = "%s.%s" % (short, fl["name"])
                where = "%s:%d" % (a["file"], a["line"])
                rb = _reads(bodies, aid, fl["name"])
                if rb is not None:
                    r.ok(inst, "%s:%d" % (rb.f["file"], rb.f["line"]), "read in %s" % rb.f["name"])
                else:
                    r.finding(inst + "|not-checked", where, "%s (%s) defines the values of an enumeration, but the unique-values rule never reads it: a duplicated value there is accepted" % (inst, ENUM_FIELDS[(short, fl["name"])][1]))


def run_taskrefs(ctx, rep, rid="R-C02-taskrefs"):
    r = rep.rule(rid, "every reference to a task in a configuration (each `task_name` field of the configuration DSL) is looked at by the task-definition rule (P0011)",
                 floor=2, floor_what="task references")
    bodies = _rule_bodies(ctx, "rule_program_task_definition_exists")
    if not bodies:
        rep.error(rid, "rule_program_task_definition_exists not found")
        return
    for aid, a in sorted(ctx.facts.adts.items()):
        if not aid.startswith("ironplc_dsl::configuration::"):
            continue
        short = aid.split("::")[-1]
        for v in a["variants"]:
            for fl in v["fields"]:
                if fl["name"] != "task_name" or "core::Id" not in fl["ty"]:
                    continue
                inst = "%s.task_name" % short
                where = "%s:%d" % (a["file"], a["line"])
                rb = _reads(bodies, aid, "task_name")
                if rb is not None:
                    r.ok(inst, "%s:%d" % (rb.f["file"], rb.f["line"]), "read in %s" % rb.f["name"])
                else:
                    r.finding(inst + "|not-checked", where, "%s names a task, but the task-definition rule never reads it: a reference to a task that is not defined is accepted there" % inst)




TYPE_NAMING = {
    # InitialValueAssignmentKind variant -> (must the resolver look the type up?, reason when not)
    "None": (False, "no type named"),
    "Simple": (True, ""),
    "String": (False, "STRING/WSTRING are elementary"),
    "EnumeratedValues": (False, "inline enumeration: defines its values, names no type"),
    "EnumeratedType": (False, "the enumeration named is checked by rule_use_declared_enumerated_value (P0012)"),
    "FunctionBlock": (True, ""),
    "Subrange": (False, "the grammar only accepts an elementary integer type name in front of a subrange"),
    "Structure": (True, ""),
    "Array": (True, ""),
    "LateResolvedType": (True, ""),
}


FB_FORMS = {
    "LateResolvedType": "`inst : Callee;` (a bare type name: the parser cannot know its kind)",
    "Simple": "`VAR_EXTERNAL inst : Callee; END_VAR` (an external declaration names every type this way)",
    "Structure": "`inst : Callee := (IN1 := TRUE);` (written like a structure initializer)",
}


def run_typeuses(ctx, rep, rid="R-C02-typeuses"):
    """"Every used type declared": a variable declaration names its type in one of the InitialValueAssignmentKind variants.  For each variant
    that can name a user-declared type, the arm of TypeResolver::fold_initial_value_assignment_kind looks the name up in the type table
    (directly or through a helper all of whose paths do) - otherwise `x : Unknown := 5` is accepted."""
    from vlib.mir import switch_info
    from rules.c07 import must_call
    r = rep.rule(rid, "the type named by a variable declaration is looked up in the table of declared types for every kind of initializer that can name a user type (P0022)",
                 floor=8, floor_what="InitialValueAssignmentKind variants")
    bs = [b for b in ctx.prog.bodies.values() if b.f["crate"] == "ironplc_analyzer" and "xform_resolve_late_bound_type_initializer" in b.f["file"]
          and b.f["name"] == "fold_initial_value_assignment_kind" and "::test" not in norm(b.id)]
    if not bs:
        rep.error(rid, "TypeResolver::fold_initial_value_assignment_kind not found")
        return
    b = bs[0]
    sw = None
    for i in sorted(b.reachable(0)):
        si = switch_info(b, i)
        if si and si["kind"] == "disc" and (si.get("adt") or "").endswith("InitialValueAssignmentKind"):
            sw = si
            break
    if sw is None:
        rep.error(rid, "no match on InitialValueAssignmentKind")
        return
    arm_of = {}
    for succ, labs in sw["edges"].items():
        for l in labs:
            arm_of[str(l)] = succ
    entries = set(arm_of.values())
    look_bbs = set()

    def consults(nm, depth=4, seen=None):
        """an analyzer helper that (through other helpers) consults the type table"""
        seen = seen if seen is not None else set()
        if nm in seen or depth <= 0:
            return False
        seen.add(nm)
        for cb in ctx.prog.get(nm) or []:
            for c2 in cb.calls():
                n2 = c2.callee or ""
                if "symbol_table" in n2 and n2.endswith("::find"):
                    return True
                if n2.startswith("ironplc_analyzer::") and consults(n2, depth - 1, seen):
                    return True
        return False
    for c in b.calls():
        nm = c.callee or ""
        if nm.endswith("SymbolTable::find") or nm.endswith("::find") and "symbol_table" in nm:
            look_bbs.add(c.bb)
        elif nm.startswith("ironplc_analyzer::") and consults(nm):
            look_bbs.add(c.bb)          # a helper that consults the table (after ruling out the elementary names), however many helpers deep
    adt = ctx.facts.adts["ironplc_dsl::common::InitialValueAssignmentKind"]
    where = "%s:%d" % (b.f["file"], b.f["line"])
    for v in adt["variants"]:
        name = v["name"]
        inst = "InitialValueAssignmentKind::%s" % name
        row = TYPE_NAMING.get(name)
        if row is None:
            r.finding(inst + "|unclassified", where, "a new kind of initializer: can it name a user-declared type? (add it to the table)")
            continue
        must, why = row
        if not must:
            r.justified(inst, why, where)
            continue
        succ = arm_of.get(name)
        own_arm = succ is not None and len([l for l, s_ in arm_of.items() if s_ == succ]) == 1
        region = b.reachable(succ, avoid=entries - {succ}) if own_arm else set()
        if own_arm and region & look_bbs:
            r.ok(inst, where, "looked up in the type table")
        else:
            r.finding(inst + "|type-not-looked-up", where, "a variable declared with a %s initializer names a type that is never looked up: an undeclared type is accepted there (no P0022)" % name)
    # an instance of a function block can be declared in each of these forms; the rules that follow (invocation P0021, constant P0017)
    # recognise an instance by the FunctionBlock initializer only, so each of these arms must be able to turn its node into one
    r2 = rep.rule(rid.replace("typeuses", "fbinst"), "every form in which a function block instance can be declared is resolved to a FunctionBlock initializer (the invocation rules "
                  "know instances by that node only)", floor=3, floor_what="initializer kinds that can name a function block")
    for name, why in sorted(FB_FORMS.items()):
        inst = "InitialValueAssignmentKind::%s" % name
        succ = arm_of.get(name)
        own_arm = succ is not None and len([l for l, s_ in arm_of.items() if s_ == succ]) == 1
        region = b.reachable(succ, avoid=entries - {succ}) if own_arm else set()
        def builds_fb(body, blocks=None, depth=2, seen=None):
            """an InitialValueAssignmentKind::FunctionBlock aggregate in these blocks of the body, or in a helper of the analyzer called from them"""
            seen = seen if seen is not None else set()
            if body.id in seen:
                return False
            seen.add(body.id)
            for i, j, st in body.all_stmts():
                if (blocks is None or i in blocks) and st[0] == "=" and st[2][0] == "agg" and isinstance(st[2][1], dict) \
                        and (st[2][1].get("adt") or "").endswith("InitialValueAssignmentKind") and st[2][1].get("variant") == "FunctionBlock":
                    return True
            if depth > 0:
                for c in body.calls():
                    if (blocks is None or c.bb in blocks) and (c.callee or "").startswith("ironplc_analyzer::"):
                        for hb in ctx.prog.get(c.callee):
                            if builds_fb(hb, None, depth - 1, seen):
                                return True
            return False
        makes = builds_fb(b, region)
        if makes:
            r2.ok(inst, where, why)
        else:
            r2.finding(inst + "|stays-" + name, where, "%s: the resolver leaves it a %s initializer, so invoking the instance is reported as P0021 although it is declared" % (why, name))


def run_identity(ctx, rep, rid="R-C02-identity"):
    """Which declaration a name refers to is decided by the name (or by the identity of the declaration found under it), never by comparing
    what two declarations *contain*: two enumerations with the same list of values are different types, two structures with the same
    elements likewise.  In the analyzer no `==`/`!=` is applied to two collections of DSL nodes (slices or vectors).  Zero expected."""
    import re
    r = rep.rule(rid, "no rule or transform of the analyzer compares two collections of DSL nodes for equality (contents are not identity): "
                      "a qualifier, alias or reference is resolved by name or by the identity of the declaration", floor=0, floor_what="collection comparisons in the analyzer")
    n = 0
    k = {}
    for b in sorted(ctx.prog.bodies.values(), key=lambda x: x.id):
        if b.f["crate"] != "ironplc_analyzer" or "::test" in norm(b.id) or b.f.get("exp"):
            continue
        for c in b.calls():
            u = c.u or c.callee or ""
            if not (u.endswith("PartialEq::eq") or u.endswith("PartialEq::ne") or "as core::cmp::PartialEq" in (c.callee or "")):
                continue
            ga = re.sub(r"\s", "", c.ga or "")
            if ga.startswith("[") and ga.endswith("]"):
                ga = ga[1:-1]          # the list of generic arguments itself is printed in brackets
            if not re.search(r"(\[|Vec<)ironplc_dsl::", ga):
                continue
            n += 1
            fn = norm(b.id).replace("ironplc_analyzer::", "")
            k[fn] = k.get(fn, 0) + 1
            from vlib.mir import loc_str
            r.finding("%s|collection ==#%d" % (fn, k[fn]), loc_str(b.f, c.loc), "two collections of nodes (%s) are compared for equality: declarations with equal contents are taken for the same declaration" % ga[:80])
    if not n:
        r.count_override = 1
        r.note("no comparison of node collections in the analyzer today (zero expected; positive example: seeded/C02-O)")


def run_wholename(ctx, rep, rid="R-C02-wholename"):
    """Names are compared whole.  A rule that takes a name apart (strips a suffix, looks for a prefix, cuts at a character) treats different
    names alike: `TON_DINT` is not `TON`.  The analyzer has no reason to look inside a name - Id and Type compare case-insensitively as they
    are - so no text-dissecting str method is called anywhere in it.  Zero expected."""
    from vlib.mir import loc_str
    r = rep.rule(rid, "no rule or transform of the analyzer takes a name apart (strip_*, trim_*matches, split*, find, starts_with/ends_with/contains, slicing, replace): "
                      "names are looked up and compared whole", floor=0, floor_what="text-dissecting calls in the analyzer")
    DISSECT = ("strip_suffix", "strip_prefix", "trim_end_matches", "trim_start_matches", "trim_matches", "split", "rsplit", "split_once", "rsplit_once", "splitn", "rsplitn",
               "split_terminator", "split_at", "find", "rfind", "starts_with", "ends_with", "contains", "get", "index", "replace", "replacen", "char_indices", "chars", "bytes",
               "truncate", "pop", "remove", "drain")
    n = 0
    k = {}
    for b in sorted(ctx.prog.bodies.values(), key=lambda x: x.id):
        if b.f["crate"] != "ironplc_analyzer" or "::test" in norm(b.id) or b.f.get("exp"):
            continue
        for c in b.calls():
            nm = c.callee or c.u or ""
            if not (nm.startswith("core::str::") or nm.startswith("alloc::str::") or nm.startswith("alloc::string::String::")):
                continue
            last = nm.split("::")[-1]
            if last not in DISSECT:
                continue
            n += 1
            fn = norm(b.id).replace("ironplc_analyzer::", "")
            k[fn] = k.get(fn, 0) + 1
            r.finding("%s|%s#%d" % (fn, last, k[fn]), loc_str(b.f, c.loc), "the analyzer looks inside a piece of text with %s: a verdict that depends on part of a name treats different names alike" % nm)
    if not n:
        r.count_override = 1
        r.note("the analyzer calls no text-dissecting method today (zero expected; positive example: seeded/C02-P)")


def run_selfname(ctx, rep, rid="R-C02-selfname"):
    """Only a function has a variable that bears its name (the return value).  A scope rule that also enters the name of a function block or
    a program into that block's own scope accepts `b := Outer;` inside FUNCTION_BLOCK Outer.  In the undeclared-variable rule, an override
    for a declaration that adds the declaration's *own* name (`node.name`) to the scope must be the override for FunctionDeclaration."""
    from vlib.mir import loc_str
    r = rep.rule(rid, "in the undeclared-variable rule only the override for a function adds the declaration's own name to its scope (the return variable); "
                      "function blocks, programs and other declarations do not name a variable", floor=1, floor_what="overrides that add the declaration's own name")
    n = 0
    for b in sorted(ctx.prog.bodies.values(), key=lambda x: x.id):
        im = b.f.get("impl") or {}
        if b.f["crate"] != "ironplc_analyzer" or "rule_use_declared_symbolic_var" not in b.f["file"] or im.get("trait_def") != "ironplc_dsl::visitor::Visitor" or "::test" in norm(b.id):
            continue
        for c in b.calls():
            last = (c.callee or c.u or "").split("::")[-1]
            if last not in ("add", "try_add", "insert") or len(c.args) < 2:
                continue
            p = op_place(c.args[1])
            if p is None:
                continue
            rt = b.root(p)
            fs = [x for x in rt[1] if isinstance(x, list) and x[0] == "f"]
            if rt[0] != 2 or len(fs) != 1 or fs[0][2] != "name" or not (fs[0][3] or "").endswith("Declaration"):
                continue
            n += 1
            owner = fs[0][3].split("::")[-1]
            inst = "%s|adds %s.name" % (b.f["name"], owner)
            if owner == "FunctionDeclaration":
                r.ok(inst, loc_str(b.f, c.loc), "the return variable of the function")
            else:
                r.finding(inst + "|not-a-variable", loc_str(b.f, c.loc), "the name of a %s is entered into its own scope as if it were a variable: a use of that name inside it is accepted (no P0015)" % owner)


def run_foreignscope(ctx, rep, rid="R-C02-foreignscope"):
    """`PROGRAM P1 WITH T1 : Main (x := 5, y => g);` - x and y are variables of the program Main, written inside a configuration.  The
    undeclared-variable rule keeps one scope per declaration it walks; when its traversal descends from a program connection into the
    program-side variable, it looks x up among the names of the *configuration* and reports P0015 for a correct connection.  Under the rule's
    own overrides, no variable-naming node is reachable below ProgramConnectionSource / ProgramConnectionSink."""
    from vlib.traversal import Traversal
    r = rep.rule(rid, "the undeclared-variable rule does not look up the program-side variable of a program connection in the scope of the configuration: under its "
                      "overrides no variable node is reachable below ProgramConnectionSource/Sink", floor=2, floor_what="program connection node types")
    T = Traversal(ctx, "visit")
    ov = {}
    for b in ctx.prog.bodies.values():
        im = b.f.get("impl") or {}
        if b.f["crate"] == "ironplc_analyzer" and "rule_use_declared_symbolic_var" in b.f["file"] and im.get("trait_def") == "ironplc_dsl::visitor::Visitor" \
                and b.f["name"].startswith("visit_") and "::test" not in norm(b.id):
            ov[b.f["name"]] = b
    if not ov:
        rep.error(rid, "the undeclared-variable rule has no overrides")
        return
    VARS = {"visit_named_variable", "visit_symbolic_variable_kind", "visit_variable", "visit_array_variable", "visit_structured_variable"}
    for m in ("visit_program_connection_source", "visit_program_connection_sink"):
        if m not in T.default and m not in ov:
            r.finding(m + "|missing", "dsl/src/visitor.rs", "the visitor has no such method any more: re-derive the rule")
            continue
        reached = {x for k, x in T.reach([("v", m)], ov) if k == "v"}
        hit = sorted(reached & VARS)
        where = "%s:%d" % (ov[m].f["file"], ov[m].f["line"]) if m in ov else "analyzer/src/rule_use_declared_symbolic_var.rs"
        if hit:
            r.finding("%s|reaches %s" % (m, hit[0]), where, "below a program connection the rule's traversal reaches %s: the program's own variable is looked up among the configuration's names "
                      "and a correct connection gets P0015" % ", ".join(hit))
        else:
            r.ok(m, where, "the program-side variable is not walked")


def run(ctx, rep):
    run_selfname(ctx, rep)
    run_foreignscope(ctx, rep)
    run_identity(ctx, rep)
    run_wholename(ctx, rep)
    run_enumunique(ctx, rep)
    run_taskrefs(ctx, rep)
    run_typeuses(ctx, rep)
    run_typefields(ctx, rep)
    run_foldall(ctx, rep)


def run_foldall(ctx, rep, rid="R-C02-foldall"):
    """The transform that resolves ambiguous names must reach every expression: the rules afterwards treat a surviving `LateBound` as already
    resolved (R-C02-uses table).  A fold override of the resolver that rebuilds its node by hand must take every field that can hold an
    expression from a fold call; a field moved over from the original node keeps the placeholders inside it (`BUFFER[INDEXX] := ..` with
    `INDEXX` undeclared is then accepted)."""
    from vlib.traversal import Traversal
    from rules.c02 import type_closure
    r = rep.rule(rid, "a fold override of the name resolver that rebuilds its node takes every expression-bearing field from a fold call, never from the unfolded original",
                 floor=0, floor_what="hand-rebuilt nodes in the resolver's fold overrides")
    T = Traversal(ctx, "visit")
    EXPR = "ironplc_dsl::textual::ExprKind"
    n = 0
    for b in sorted(ctx.prog.bodies.values(), key=lambda x: x.id):
        im = b.f.get("impl") or {}
        if b.f["crate"] != "ironplc_analyzer" or "xform_resolve_late_bound_expr_kind" not in b.f["file"] or im.get("trait_def") != "ironplc_dsl::fold::Fold" \
                or not b.f["name"].startswith("fold_") or "::test" in norm(b.id):
            continue
        for i, j, st in sorted(b.all_stmts(), key=lambda t: (t[2][3][0], t[2][3][1]) if len(t[2]) > 3 else (0, 0)):
            if not (st[0] == "=" and st[2][0] == "agg" and isinstance(st[2][1], dict) and st[2][1].get("k") == "adt" and st[2][1].get("adt", "").startswith("ironplc_dsl::")):
                continue
            adt = st[2][1]["adt"]
            if "fold_" + re.sub(r"(?<!^)(?=[A-Z])", "_", adt.split("::")[-1]).lower() != b.f["name"]:
                continue        # builds some other node (for example the variable a late-bound name resolves to)
            a = ctx.facts.adts.get(adt)
            if not a:
                continue
            fields = {fl["name"]: fl["ty"] for v in a["variants"] for fl in v["fields"]}
            for fname, o in zip(st[2][1].get("fields", []), st[2][2]):
                tys = [m.group(0) for m in re.finditer(r"ironplc_dsl::[A-Za-z_:]*[A-Za-z_]", fields.get(fname, "")) if m.group(0) in ctx.facts.adts]
                if not any(EXPR in type_closure(T, t) or t == EXPR for t in tys):
                    continue
                n += 1
                p = op_place(o)
                rt = b.root(p) if p is not None else None
                inst = "%s|%s.%s" % (b.f["name"], adt.split("::")[-1], fname)
                from vlib.mir import loc_str
                moved = rt is not None and rt[0] == 2 and any(isinstance(x, list) and x[0] == "f" and x[2] == fname for x in rt[1])
                if moved:
                    r.finding(inst + "|not-folded", loc_str(b.f, st[3]), "the rebuilt %s takes `%s` straight from the original node: the ambiguous names inside it (array subscripts, for example) are "
                              "never resolved, and the undeclared-variable rule does not look at unresolved names" % (adt.split("::")[-1], fname))
                else:
                    r.ok(inst, loc_str(b.f, st[3]), "taken from a computed value")
    if not n:
        r.count_override = 1
        r.note("no fold override of the resolver rebuilds its own node today (they use recurse_fold); positive example: seeded/C02-N")


# every field of the DSL that holds a type name (ironplc_dsl::common::Type): what it is, and who must look it up
TYPE_FIELDS = {
    # (owner, variant, field): (role, reason / checker)
    ("ArrayDeclaration", "ArrayDeclaration", "type_name"): ("declares", ""),
    ("EnumerationDeclaration", "EnumerationDeclaration", "type_name"): ("declares", ""),
    ("LateBoundDeclaration", "LateBoundDeclaration", "data_type_name"): ("declares", ""),
    ("SimpleDeclaration", "SimpleDeclaration", "type_name"): ("declares", ""),
    ("StringDeclaration", "StringDeclaration", "type_name"): ("declares", ""),
    ("StructureDeclaration", "StructureDeclaration", "type_name"): ("declares", ""),
    ("SubrangeDeclaration", "SubrangeDeclaration", "type_name"): ("declares", ""),
    ("ArraySpecificationKind", "Type", "0"): ("use", ""),
    ("ArraySubranges", "ArraySubranges", "type_name"): ("use", ""),
    ("FunctionBlockInitialValueAssignment", "FunctionBlockInitialValueAssignment", "type_name"): ("use", ""),
    ("FunctionDeclaration", "FunctionDeclaration", "return_type"): ("use", ""),
    ("InitialValueAssignmentKind", "LateResolvedType", "0"): ("use", ""),
    ("SimpleInitializer", "SimpleInitializer", "type_name"): ("use", ""),
    # as a TYPE declaration the name is declared, as the initializer of a variable it is used: the use is what must be looked up; the
    # declaration is excused by name below (DECLARING_CONTEXT)
    ("StructureInitializationDeclaration", "StructureInitializationDeclaration", "type_name"): ("use", ""),
    ("LateBoundDeclaration", "LateBoundDeclaration", "base_type_name"): ("other", "resolved (or reported as not implemented, P9999) by xform_resolve_late_bound_data_decl"),
    ("EnumeratedInitialValueAssignment", "EnumeratedInitialValueAssignment", "type_name"): ("other", "P0012 by rule_use_declared_enumerated_value"),
    ("EnumeratedSpecificationKind", "TypeName", "0"): ("other", "P0012 by rule_use_declared_enumerated_value"),
    ("EnumeratedValue", "EnumeratedValue", "type_name"): ("other", "the qualifier of a value: P0012/P0014 by rule_use_declared_enumerated_value"),
    ("SubrangeSpecificationKind", "Type", "0"): ("other", "an alias of a subrange type: resolved by xform_resolve_late_bound_data_decl"),
    ("ProgramAccessDecl", "ProgramAccessDecl", "type_name"): ("other", "VAR_ACCESS: not analysed (the access path is not resolved either)"),
    ("AccessDeclaration", "AccessDeclaration", "type_name"): ("other", "not part of a Library (dropped by the parser, R-C01-drain)"),
    ("FunctionBlockInit", "FunctionBlockInit", "type_name"): ("other", "VAR_CONFIG: instance paths are not resolved, so neither is the type at their end"),
    ("VariableSpecificationKind", "Simple", "0"): ("other", "converted by the parser before the library is built"),
    ("VariableSpecificationKind", "Ambiguous", "0"): ("other", "converted by the parser before the library is built"),
}
# containers in which a `use` field's owner is itself the thing being declared
DECLARING_CONTEXT = {("StructureInitializationDeclaration", "DataTypeDeclarationKind")}


def run_typefields(ctx, rep, rid="R-C02-typefields"):
    """"Every used type is declared" for *every place a type can be named*, not only variable declarations.  Each field of the DSL that holds
    a type name is classified (declares / use / looked after elsewhere, frozen table with reasons).  For every `use` field: on every way the
    type-containment graph leads from Library to the field's owner, there is a fold override of the type resolver that reads this very field
    - otherwise the owner is reached in some context the resolver does not look at (the element type of an array *type declaration*, the
    return type of a function) and an undeclared type is accepted there."""
    from vlib.traversal import Traversal
    from rules.c10 import field_reads
    r = rep.rule(rid, "every field of the DSL that names a type is classified, and every `use` is read by an override of the type resolver on every containment path "
                      "from Library to its owner (P0022 wherever a type can be named)", floor=20, floor_what="type-naming fields of the DSL")
    T = Traversal(ctx, "fold")
    TY = "ironplc_dsl::common::Type"
    ovs = {}
    for b in ctx.prog.bodies.values():
        im = b.f.get("impl") or {}
        if b.f["crate"] == "ironplc_analyzer" and "xform_resolve_late_bound_type_initializer" in b.f["file"] and im.get("trait_def") == "ironplc_dsl::fold::Fold" \
                and b.f["name"].startswith("fold_") and "::test" not in norm(b.id):
            ovs[b.f["name"]] = b
    if not ovs:
        rep.error(rid, "the type resolver has no fold override")
        return
    cont = T.containment()
    short = {a: a.split("::")[-1] for a in ctx.facts.adts}
    # what each override reads
    reads = {}
    for m, b in ovs.items():
        ty = T.method_type.get(m)
        for a in ctx.facts.adts:
            if not a.startswith("ironplc_dsl::"):
                continue
            for v, f in field_reads(ctx, b, a):
                reads.setdefault((short[a], v, f), set()).add((m, ty))
    for aid, a in sorted(ctx.facts.adts.items()):
        if a["crate"] != "ironplc_dsl":
            continue
        for v in a["variants"]:
            for fl in v["fields"]:
                if TY not in fl["ty"] or "TypeName" in fl["ty"]:
                    continue
                key = (short[aid], v["name"], fl["name"])
                inst = "%s::%s.%s" % key if a["kind"] == "enum" else "%s.%s" % (key[0], key[2])
                where = "%s:%d" % (a["file"], a["line"])
                row = TYPE_FIELDS.get(key)
                if row is None:
                    r.finding(inst + "|unclassified", where, "a new field that names a type: does it declare the name or use it, and who looks it up? (add it to the table)")
                    continue
                role, why = row
                if role != "use":
                    r.justified(inst, role + (": " + why if why else ""), where)
                    continue
                covering = {ty for m, ty in reads.get(key, ())}
                if aid in covering:
                    r.ok(inst, where, "read by the override for its own node")
                    continue
                # a containment path from Library to the owner that meets no covering override
                start = "ironplc_dsl::common::Library"
                parent, st, hit = {start: None}, [start], None
                while st and hit is None:
                    n = st.pop()
                    for c in sorted(cont.get(n, ())):
                        if c in parent or c in covering:
                            continue
                        if (short.get(c), short.get(n)) in DECLARING_CONTEXT:
                            continue
                        parent[c] = n
                        if c == aid:
                            hit = c
                            break
                        st.append(c)
                if hit is None:
                    r.ok(inst, where, "every way from Library passes an override that reads it: " + ", ".join(sorted(m for m, _ in reads.get(key, ()))))
                else:
                    path = []
                    n = hit
                    while n is not None:
                        path.append(short[n])
                        n = parent[n]
                    r.finding(inst + "|not-looked-up", where, "a %s reached through %s is read by no override of the type resolver: an undeclared type named there is accepted (no P0022)"
                              % (key[0], " <- ".join(path)))
