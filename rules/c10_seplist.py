"""R-C10-seplist: a comma-separated list is written with exactly one comma between every two consecutive elements.

Where an override of the renderer writes the elements of one or more lists in loops that also write `,`, the sequence of what it writes
is checked on every feasible path of the override against the automaton of a separated list:

    start --element--> after-element --`,`--> after-comma --element--> after-element ...
    any other constant text (a bracket, a keyword) or another child ends the list: allowed from `start` and `after-element` only.

A second element without a comma in between, a comma before the first element, two commas, and a comma that is followed by the end of
the list (or of the function) are reported.  Paths are pruned with a small set of facts that the idioms of separated lists rely on:

  * a bool variable assigned constants on the path (`let mut first = true; .. first = false;`) decides the tests it feeds;
  * `it.peek().is_some()` decides the next `it.next()` (and the other way round nothing is assumed);
  * the index that `enumerate()` hands out is 0 in the first iteration and positive in every later one (`if index > 0 { "," }`);
  * the first `next()` of an iterator over a list is `Some` exactly when the list is not empty, and `list.is_empty()` says the same thing
    every time it is asked on one path (lists are named by the field of the node they come from).

That is what makes `visit_comma_separated!` (peek) and the shared `first` flag of visit_program_configuration provable, and what shows that
"a comma between two lists when both are non-empty" loses the comma when the list in the middle is empty (seeded/C10-Q)."""
import re
from vlib.mir import norm, loc_str, op_place, switch_info
from rules.c10 import R, renderer_overrides

SEP = ","


def _origin_list(b, place, hops=10):
    """name of the list an iterator / a list operand stands for: the field of the node (parameter 2) it is taken from, else a local"""
    p = place
    for _ in range(hops):
        if p is None:
            return None
        rt = b.root(p)
        fs = [x for x in rt[1] if isinstance(x, list) and x[0] == "f"]
        if rt[0] == 2 and fs:
            return "node." + ".".join(str(x[2]) for x in fs)
        d = b.single_def(rt[0])
        if d and d[0] == "call" and d[2].args and (d[2].callee or d[2].u or "").split("::")[-1] in ("iter", "into_iter", "peekable", "iter_mut", "deref", "by_ref", "as_slice", "borrow", "as_ref", "rev", "enumerate"):
            p = op_place(d[2].args[0])
            continue
        if d and d[0] == "stmt" and d[3][0] == "ref":
            p = d[3][2]
            continue
        if d and d[0] == "stmt" and d[3][0] == "use" and op_place(d[3][1]) is not None:
            p = op_place(d[3][1])
            continue
        return "local._%d" % rt[0]
    return None


class Model:
    def __init__(self, ctx, b):
        self.ctx, self.b = ctx, b
        self.next_of = {}       # block of a next() call -> (iterator local, dest local)
        self.next_dest = {}     # dest local of next() -> iterator local
        self.peek_dest = {}     # dest local of peek() -> iterator local
        self.meaning = {}       # bool local -> ("peek", it) | ("empty", listname)  (value True means is_some / is_empty)
        self.it_list = {}       # iterator local -> list name
        self.kind = {}          # block -> "S" | "R" | "E" | "X"(other visit)
        self.err = set()
        for c in b.calls():
            cal = c.callee or c.u or ""
            nm = cal.split("::")[-1]
            a0 = op_place(c.args[0]) if c.args else None
            r0 = b.root(a0)[0] if a0 is not None else None
            if (c.u or "").endswith("Iterator::next") or cal.endswith("Iterator>::next"):
                if r0 is not None and not c.dest[1]:
                    self.next_of[c.bb] = (r0, c.dest[0])
                    self.next_dest[c.dest[0]] = r0
                    self.it_list.setdefault(r0, _origin_list(b, [r0, []]))
            elif cal.endswith("Peekable::<I>::peek") or (nm == "peek" and "Peekable" in cal):
                if r0 is not None:
                    self.peek_dest[c.dest[0]] = r0
            elif nm in ("is_some", "is_none") and "Option" in cal and a0 is not None:
                src = b.root(a0)[0]
                if src in self.peek_dest:
                    self.meaning[c.dest[0]] = ("peek", self.peek_dest[src], nm == "is_some")
            elif nm == "is_empty" and a0 is not None:
                ln = _origin_list(b, a0)
                if ln:
                    self.meaning[c.dest[0]] = ("empty", ln, True)
            elif "from_residual" in cal:
                self.err.add(c.bb)
        # `index > 0` where index is the counter of an enumerate() over the list: true exactly from the second iteration on
        for i_, j_, st_ in b.all_stmts():
            if st_[0] != "=" or st_[1][1] or st_[2][0] != "bin" or st_[2][1] not in ("Gt", "Ge", "Ne", "Eq", "Lt", "Le"):
                continue
            from rules import panics
            for idx_op, c_op, flip in ((st_[2][2], st_[2][3], False), (st_[2][3], st_[2][2], True)):
                cv = panics._int_const(b, c_op)
                ip = op_place(idx_op)
                if cv is None or ip is None:
                    continue
                rt = b.root(ip)
                if rt[0] not in self.next_dest:
                    continue
                it = self.next_dest[rt[0]]
                dd = b.single_def(it)
                ity = b.local_ty(it) or ""
                if "Enumerate<" not in ity:
                    continue
                op_ = st_[2][1]
                if flip:
                    op_ = {"Gt": "Lt", "Lt": "Gt", "Ge": "Le", "Le": "Ge"}.get(op_, op_)
                # truth of the comparison in the first iteration (index = 0) and in a later one (index >= 1)
                def ev(x):
                    return {"Gt": x > cv, "Ge": x >= cv, "Ne": x != cv, "Eq": x == cv, "Lt": x < cv, "Le": x <= cv}[op_]
                if cv in (0, 1) and ev(1) == ev(2) == ev(10 ** 6):
                    self.meaning[st_[1][0]] = ("first", it, ev(0), ev(1))
        # what each call writes
        loops = {}

        def in_cycle_with(bb, others):
            if bb not in loops:
                loops[bb] = {x for s_ in b.succ(bb) for x in b.reachable(s_)} if bb in {x for s_ in b.succ(bb) for x in b.reachable(s_)} else set()
            return bool(loops[bb] & others)
        seps = set()
        writes = {}
        for c in b.calls():
            tg = ctx.prog.get(c.callee) if c.callee else []
            if tg and (tg[0].f.get("impl") or {}).get("self") == R and not (tg[0].f.get("impl") or {}).get("trait_def"):
                for a in c.args[1:]:
                    sv = b.const_str(a)
                    if sv is not None and sv.strip():
                        writes[c.bb] = sv.strip()
        seps = {bb for bb, sv in writes.items() if sv == SEP}
        self.seps = seps
        for bb, sv in writes.items():
            self.kind[bb] = "S" if sv == SEP else "R"
        for c in b.calls():
            nm = (c.callee or c.u or "").split("::")[-1]
            if not nm.startswith("visit_") or len(c.args) < 2:
                continue
            ap = op_place(c.args[1])
            is_item = False
            if ap is not None:
                rt = b.root(ap)
                if rt[0] in self.next_dest:
                    is_item = True
            self.kind[c.bb] = "E" if (is_item and in_cycle_with(c.bb, seps)) else "X"


def explore(ctx, b):
    m = Model(ctx, b)
    if not m.seps or "E" not in m.kind.values():
        return None, m
    viol = {}

    def note(kind, bb):
        viol.setdefault(kind, bb)
    start = (0, frozenset())
    seen = set()
    work = [(0, start)]
    steps = 0
    while work:
        bb, st = work.pop()
        if (bb, st) in seen:
            continue
        seen.add((bb, st))
        steps += 1
        if steps > 200000:
            return "state explosion", m
        auto, facts = st
        f = dict(facts)
        # statements: flags
        for s_ in b.stmts(bb):
            if s_[0] != "=" or s_[1][1]:
                continue
            l = s_[1][0]
            if b.local_ty(l) != "bool":
                continue
            rv = s_[2]
            key = ("flag", l)
            if rv[0] == "use" and rv[1][0] == "c":
                f[key] = (rv[1][2] == "true")
            elif rv[0] == "use" and rv[1][0] in ("cp", "mv") and not rv[1][1][1] and ("flag", rv[1][1][0]) in f:
                f[key] = f[("flag", rv[1][1][0])]
            elif rv[0] == "un" and rv[1] == "Not" and op_place(rv[2]) is not None and not op_place(rv[2])[1] and ("flag", op_place(rv[2])[0]) in f:
                f[key] = not f[("flag", op_place(rv[2])[0])]
            else:
                f.pop(key, None)
        k = m.kind.get(bb)
        if bb in m.err:
            continue            # the error path of a `?`: nothing more is written
        if k == "E":
            if auto == 1:
                note("two elements without a comma between them", bb)
                continue
            auto = 1
        elif k == "S":
            if auto == 0:
                note("a comma before the first element", bb)
                continue
            if auto == 2:
                note("two commas in a row", bb)
                continue
            auto = 2
        elif k in ("R", "X"):
            if auto == 2:
                note("a comma that no element follows", bb)
                continue
            auto = 0
        t = b.term(bb)
        if t[0] == "ret":
            if auto == 2:
                note("a comma that no element follows", bb)
            continue
        for succ in b.succ(bb):
            g = dict(f)
            ok = True
            if t[0] == "switch":
                p_ = op_place(t[1])
                loc_ = p_[0] if p_ is not None and not p_[1] else None
                # a bool with a known value / a meaning
                if loc_ is not None and b.local_ty(loc_) == "bool":
                    ft = [x[1] for x in t[2] if x[0] == "0"]
                    val = None
                    if len(t[2]) == 1 and ft:
                        val = (succ != ft[0]) if succ in (ft[0], t[3]) else None
                        if ft[0] == t[3]:
                            val = None
                    src, neg = loc_, False
                    for _ in range(4):
                        d = b.single_def(src)
                        if d and d[0] == "stmt" and d[3][0] == "un" and d[3][1] == "Not" and op_place(d[3][2]) is not None:
                            neg = not neg
                            src = op_place(d[3][2])[0]
                        elif d and d[0] == "stmt" and d[3][0] == "use" and d[3][1][0] in ("cp", "mv") and not d[3][1][1][1]:
                            src = d[3][1][1][0]
                        else:
                            break
                    if val is not None:
                        if ("flag", loc_) in g and g[("flag", loc_)] != val:
                            ok = False
                        mean = m.meaning.get(src)
                        if ok and mean is not None and mean[0] == "first":
                            truth = (val != neg)
                            pos = g.get(("iterpos", mean[1]))
                            if pos == "first" and truth != mean[2]:
                                ok = False
                            if pos == "later" and truth != mean[3]:
                                ok = False
                        elif ok and mean is not None:
                            truth = (val != neg)
                            kind_, key_, pos_ = mean
                            fact = truth if pos_ else (not truth)
                            fk = (kind_, key_)
                            if fk in g and g[fk] != fact:
                                ok = False
                            else:
                                g[fk] = fact
                else:
                    si = switch_info(b, bb)
                    if si and si["kind"] == "disc" and si.get("adt") == "core::option::Option":
                        sj = si["subject"]
                        rl = sj[1].dest[0] if sj[0] == "call" else (sj[1][0] if sj[0] == "place" else None)
                        if rl in m.next_dest:
                            it = m.next_dest[rl]
                            labs = [str(x) for x in si["edges"].get(succ, [])]
                            some = labs == ["Some"]
                            none = labs == ["None"]
                            if some or none:
                                pk = g.get(("peek", it))
                                if pk is not None and pk != some:
                                    ok = False
                                g.pop(("peek", it), None)
                                ln = m.it_list.get(it)
                                if ok and not g.get(("started", it)) and ln:
                                    ek = ("empty", ln)
                                    if ek in g and g[ek] == some:
                                        ok = False
                                    else:
                                        g[ek] = not some
                                if some:
                                    g[("iterpos", it)] = "later" if g.get(("started", it)) else "first"
                                g[("started", it)] = True
            if ok:
                work.append((succ, (auto, frozenset(g.items()))))
    return viol, m


def own_comma_nodes(ctx):
    """node types one of whose productions has a `,` as an element of its own (not as the separator of a repetition): there a comma can stand
    before the first element of a list (`( qualifier? , indicator, indicator )`)"""
    from vlib.traversal import Traversal
    from rules import c10_tokens as T10
    g = ctx.peg
    out = set()
    for rule, sq in g.all_seqs():
        if sq.action is None:
            continue
        own = []

        def scan(seq_, depth=0):
            for e in seq_.elems:
                t = g.terminal(e.prim)
                if t and t[0] == "tok" and t[1] == "Comma":
                    own.append(e)
                elif e.prim.kind == "group" and depth < 4:
                    ex = e.prim.expr
                    for a_ in (getattr(ex, "alts", None) or [ex]):
                        if hasattr(a_, "elems"):
                            scan(a_, depth + 1)
                # never into e.sep: the separator of a repetition is not an element of its own
        scan(sq)
        if own:
            for a, v in T10.built_by_action(ctx, rule, sq):
                out.add(a)
    return out


def run(ctx, rep, rid="R-C10-seplist"):
    r = rep.rule(rid, "an override that writes list elements and `,` in loops writes exactly one `,` between every two consecutive elements on every feasible path "
                      "(no element directly after an element, no leading, doubled or trailing comma)", floor=8, floor_what="overrides with comma-separated loops")
    from vlib.traversal import Traversal
    ov = renderer_overrides(ctx)
    Tv = Traversal(ctx, "visit")
    own_comma = own_comma_nodes(ctx)
    n = 0
    for mname, b in sorted(ov.items()):
        viol, m = explore(ctx, b)
        if viol is None:
            continue
        if isinstance(viol, dict) and Tv.method_type.get(mname) in own_comma:
            viol.pop("a comma before the first element", None)      # the production itself has a comma in front of the list
        n += 1
        where = "%s:%d" % (b.f["file"], b.f["line"])
        lists = sorted({v for v in m.it_list.values() if v})
        if viol == "state explosion":
            r.finding("%s|not-decided" % mname, where, "too many path states: the separator discipline of this override could not be decided")
        elif viol:
            for kind, bb in sorted(viol.items()):
                c = b.call_at(bb)
                r.finding("%s|%s" % (mname, kind.replace(" ", "-")), loc_str(b.f, c.loc) if c is not None else where,
                          "on some path the override writes %s (lists: %s): the rendered list does not parse back (or parses to other elements)" % (kind, ", ".join(lists)))
        else:
            r.ok(mname, where, "lists: " + ", ".join(lists))
