"""R-C10-order: a writer spells the terminals of its production in the production's order, with the opener before and the closer after
what it writes for the children.

R-C10-tokens decides *which* terminals of a production a writer of the node spells.  This rule decides the part of *where* that is
visible in the shape of the writer's own control flow.  For a node kind that has an override in the renderer, and every production that
builds the node (as the struct the production's action constructs) all of whose terminals are spelled:

  (pair)   two different terminals T1 .. T2 of the production, in that order, each written at exactly one place of the override's own
           body: the place of T2 must not be reachable from the entry without passing the place of T1 (T2 is never written first);
  (child)  a terminal T written at one place, on every normal path, outside any loop, and a labelled element L of the production whose value
           the action stores in exactly one field f of the node (read off the struct literal of the action), all visits of f in the override
           being identifiable (the visited value comes from `node.f`, directly or through iter()/next()): if L stands after T in the
           production no visit of f is reachable from the entry without passing T's place, if L stands before T no visit of f is reachable
           from T's place.  `(` subrange `)`: the subrange is written between the brackets.

A clause is reported only if every production of the node that contains the terminals involved demands the same order (a writer cannot
satisfy two productions that disagree).  Terminals spelled in closures or helpers, or at several places, are not decided here."""
import re
from vlib.mir import norm, loc_str, op_place
from vlib.traversal import Traversal, snake
from rules.c10 import R, renderer_overrides
from rules import c10_tokens as T10


def production_items(g, s, tt):
    """the top-level elements of a sequence in order: ('T', spellings) for a mandatory terminal, ('L', label) for a labelled element,
    ('O', None) for anything else that can produce text (an unlabelled call other than trivia, an optional terminal)"""
    out = []
    for e in s.elems:
        if e.look:
            continue
        t = g.terminal(e.prim)
        if t and t[0] in ("tok", "id_eq"):
            sp = tuple(tt.get(t[1], ())) if t[0] == "tok" else (t[1].upper(),)
            if not sp:
                out.append(("O", None))      # a regex token: data
            elif e.rep:
                out.append(("O", None))
            else:
                out.append(("T", sp))
            continue
        if e.prim.kind == "call" and e.prim.name in ("_", "__"):
            continue
        if e.label:
            out.append(("L", e.label))
        else:
            out.append(("O", None))
    return out


def write_sites(ctx, b, symbols):
    """token -> [block] for the constant texts handed to the renderer's own write helpers in this body (not its closures)"""
    sites = {}
    for c in b.calls():
        if not c.callee:
            continue
        tg = ctx.prog.get(c.callee)
        if not tg or (tg[0].f.get("impl") or {}).get("self") != R or (tg[0].f.get("impl") or {}).get("trait_def"):
            continue
        for a in c.args[1:]:
            sv = b.const_str(a)
            if sv is None:
                k = b.const_of(a)
                if k is not None and k[1] == "char" and len(k) > 3 and isinstance(k[3], dict) and "int" in k[3]:
                    sv = chr(int(k[3]["int"]))
            if sv is None:
                continue
            for w in T10.words_of([sv], symbols):
                sites.setdefault(w, []).append(c.bb)
    return sites


def visit_sites(ctx, b, adt):
    """[(block, field of the node that is visited or None)] for the visit calls of the override"""
    out = []
    for c in b.calls():
        nm = (c.callee or c.u or "").split("::")[-1]
        if not (nm.startswith("visit_") or nm == "recurse_visit"):
            continue
        arg = c.args[1] if nm.startswith("visit_") and len(c.args) > 1 else (c.args[0] if c.args else None)
        p = op_place(arg) if arg is not None else None
        out.append((c.bb, origin_field(b, p, adt) if p is not None else None))
    return out


def label_fields(s, adt_short):
    """label -> field for the labels the action stores, each alone, in one field of the struct literal `Adt { f, g: expr, .. }`; labels
    that feed several fields, or share a field with another label, are left out"""
    labels = {e.label for e in s.elems if e.label}
    code = s.action.code if s.action is not None else []
    out, rev = {}, {}
    for i in range(len(code) - 1):
        if code[i].v == adt_short and code[i + 1].v == "{":
            depth, part, parts = 0, [], []
            for t in code[i + 2:]:
                if t.v in ("(", "[", "{"):
                    depth += 1
                elif t.v in (")", "]", "}"):
                    if depth == 0:
                        parts.append(part)
                        break
                    depth -= 1
                if t.v == "," and depth == 0:
                    parts.append(part)
                    part = []
                else:
                    part.append(t)
            for part in parts:
                if not part:
                    continue
                fld = part[0].v
                ls = {t.v for t in (part if len(part) == 1 else part[2:])} & labels
                for l in ls:
                    out.setdefault(l, set()).add(fld)
                    rev.setdefault(fld, set()).add(l)
            break
    return {l: next(iter(fs)) for l, fs in out.items() if len(fs) == 1 and len(rev[next(iter(fs))]) == 1}


def origin_field(b, place, adt, hops=8):
    """the field of the node (parameter 2 of the override) a visited value is taken from: `node.f`, or an item of `node.f.iter()` / what
    `next()` hands out of such an iterator.  None when it cannot be told."""
    p = place
    for _ in range(hops):
        if p is None:
            return None
        rt = b.root(p)
        fs = [x for x in rt[1] if isinstance(x, list) and x[0] == "f" and x[3] == adt]
        if rt[0] == 2 and fs:
            return fs[0][2]
        d = b.single_def(rt[0])
        if d and d[0] == "call" and d[2].args:
            p = op_place(d[2].args[0])
            continue
        if d and d[0] == "stmt" and d[3][0] == "ref":
            p = d[3][2]
            continue
        return None
    return None


def unconditional(b, site):
    """the block is passed on every way from the entry to a normal return (ways through a `?` that fails do not count)"""
    err = {c.bb for c in b.calls() if "from_residual" in (c.callee or c.u or "")}
    reach = b.reachable(0, avoid={site} | err)
    return not any(b.term(i)[0] == "ret" for i in reach)


def run(ctx, rep, rid="R-C10-order"):
    r = rep.rule(rid, "an override of the renderer writes the terminals of the production that builds its node in the production's order, the opening "
                      "terminal before and the closing terminal after everything it writes for the children (decided where a terminal is written at "
                      "one place of the override's own body)", floor=200, floor_what="ordered obligations on overrides")
    g = ctx.peg
    tt = T10.token_texts(ctx)
    symbols = {l for ls in tt.values() for l in ls if not any(ch.isalnum() for ch in l)}
    Tv = Traversal(ctx, "visit")
    ov = renderer_overrides(ctx)
    by_type = {}
    for m, b in ov.items():
        ty = Tv.method_type.get(m)
        if ty:
            by_type[ty] = b
    nodes, _ = T10.analyse(ctx)
    seq_of = {}
    for rule, s in g.all_seqs():
        seq_of.setdefault(rule.name, []).append(s)
    n = 0
    for (a, v), prods in sorted(nodes.items()):
        b = by_type.get(a)
        if b is None:
            continue
        usable = []
        for rn, kind, terms, ws, missing in prods:
            if kind != "struct" or missing:
                continue
            for s in seq_of.get(rn, ()):
                if s.action is None:
                    continue
                if (a, v) not in {(x, y) for x, y in T10.built_by_action(ctx, g.rules[rn], s)}:
                    continue
                usable.append((rn, production_items(g, s, tt), label_fields(s, a.split("::")[-1])))
        if not usable:
            continue
        sites = write_sites(ctx, b, symbols)
        vs_all = visit_sites(ctx, b, a)
        fn = b.f["name"]
        where = "%s:%d" % (b.f["file"], b.f["line"])

        def one_site(sp):
            """the single block at which one of the spellings is written, else None"""
            bbs = [bb for x in sp for bb in sites.get(x, ())]
            return bbs[0] if len(bbs) == 1 else None

        def order_in(items, sp1, sp2):
            """+1 if sp1 occurs (once) before sp2 (once) among the terminals of the production, -1 if after, 0 if not both present exactly once"""
            i1 = [i for i, it in enumerate(items) if it[0] == "T" and set(it[1]) & set(sp1)]
            i2 = [i for i, it in enumerate(items) if it[0] == "T" and set(it[1]) & set(sp2)]
            if len(i1) != 1 or len(i2) != 1 or i1 == i2:
                return 0
            return 1 if i1[0] < i2[0] else -1
        done = set()
        for rn, items, fed in usable:
            terms = [it[1] for it in items if it[0] == "T"]
            # (pair)
            for i in range(len(terms)):
                for j in range(i + 1, len(terms)):
                    t1, t2 = terms[i], terms[j]
                    key = ("pair", t1, t2)
                    if key in done or order_in(items, t1, t2) != 1:
                        continue
                    s1, s2 = one_site(t1), one_site(t2)
                    if s1 is None or s2 is None or s1 == s2:
                        continue
                    if any(order_in(it2, t1, t2) == -1 for _, it2, _f in usable) or not unconditional(b, s1):
                        continue
                    done.add(key)
                    n += 1
                    inst = "%s|%s before %s" % (fn, "/".join(t1), "/".join(t2))
                    if s2 in b.reachable(0, avoid={s1}):
                        r.finding(inst + "|written-in-the-other-order", where, "rule %s has `%s` before `%s`; the override can write `%s` without having written `%s`: the text "
                                  "does not parse back to this node" % (rn, "/".join(t1), "/".join(t2), "/".join(t2), "/".join(t1)))
                    else:
                        r.ok(inst, where, "rule %s" % rn)
            # (child)
            in_loop = lambda bb: bb in {x for s_ in b.succ(bb) for x in b.reachable(s_)}
            for ti, it in enumerate(items):
                if it[0] != "T":
                    continue
                st = one_site(it[1])
                if st is None or in_loop(st) or not unconditional(b, st):
                    continue
                if sum(1 for x in items if x[0] == "T" and set(x[1]) & set(it[1])) != 1:
                    continue
                for li, lt in enumerate(items):
                    if lt[0] != "L" or lt[1] not in fed:
                        continue
                    fld = fed[lt[1]]
                    vf = [bb for bb, f_ in vs_all if f_ == fld]
                    if not vf or any(f_ is None for _, f_ in vs_all):
                        continue        # a visit whose origin cannot be told might be this child: not decided
                    key = ("child", it[1], fld)
                    if key in done:
                        continue
                    # every usable production must put this child on the same side of the terminal
                    side = li > ti
                    agree = True
                    for _, it2, fed2 in usable:
                        tpos = [k for k, x in enumerate(it2) if x[0] == "T" and set(x[1]) & set(it[1])]
                        lpos = [k for k, x in enumerate(it2) if x[0] == "L" and fed2.get(x[1]) == fld]
                        if len(tpos) == 1 and lpos and any((k > tpos[0]) != side for k in lpos):
                            agree = False
                    if not agree:
                        continue
                    done.add(key)
                    n += 1
                    if side:
                        inst = "%s|%s before the %s" % (fn, "/".join(it[1]), fld)
                        bad = [x for x in vf if x in b.reachable(0, avoid={st})]
                        msg = "rule %s has `%s` before %s; the override can visit node.%s without having written `%s`" % (rn, "/".join(it[1]), lt[1], fld, "/".join(it[1]))
                    else:
                        inst = "%s|%s after the %s" % (fn, "/".join(it[1]), fld)
                        bad = [x for x in vf if x in (b.reachable(st) - {st})]
                        msg = "rule %s has `%s` after %s; the override visits node.%s after it has written `%s`" % (rn, "/".join(it[1]), lt[1], fld, "/".join(it[1]))
                    if bad:
                        r.finding(inst + "|child-on-the-other-side", where, msg + ": the text does not parse back to this node")
                    else:
                        r.ok(inst, where, "rule %s" % rn)
    r.note("%d ordered obligations on %d overrides" % (n, len(by_type)))
