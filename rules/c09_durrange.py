"""R-C09-durrange: the components of a duration literal are range-checked before the constructors that cannot represent them run.

`DurationLiteral::{days,hours,minutes,seconds}` convert `whole as i64` and call `time::Duration::{days,hours,minutes,seconds}`,
which wrap / panic for values the type cannot hold.  They are total only under a precondition on `value.whole`; this module
establishes that precondition from the code, on every run:

  clause 1 (the guard guards)   a function G(value: FixedPoint, k: u64) returns Ok(value) only on the Some edge of
                                `value.whole.checked_mul(k)` and the true edge of `product <= C` for a constant C
  clause 2 (every site guarded) every use of a constructor in the parser crate - a direct call in a closure handed to
                                Result::map, or the function item itself handed to Result::map - maps the Ok payload of G(_, k)
                                (directly or through and_then(|v| G(v, k))), with k equal to the constructor's seconds per unit
  clause 3 (sums stay in range) the grammar chains the components days -> hours -> minutes -> seconds -> milliseconds without a
                                cycle, so a literal has at most five components, and 5 * C (plus the millisecond component,
                                at most u64::MAX/1000 s) is below i64::MAX: `plus` and the negation cannot overflow

When all three hold, `value.whole <= C / k` is a fact inside the constructor; it is published in panics.PARAM_FIELD_BOUNDS and the
cast / arithmetic / panic rules use it like any other bound.  When one fails the bound is not published and those rules report
the constructors' sites as before."""
import re
from vlib.mir import norm, loc_str, op_place, switch_info
from rules import panics

UNITS = {"days": 86400, "hours": 3600, "minutes": 60, "seconds": 1}
CTOR = "ironplc_dsl::time::DurationLiteral::"
I64_MAX = 2 ** 63 - 1
_CACHE = {}


def _is_param_field(b, op, param, field):
    p = op_place(op)
    if p is None:
        return False
    rt = b.root(p)
    fs = [x for x in rt[1] if isinstance(x, list) and x[0] == "f"]
    return rt[0] == param and [x[2] for x in fs] == ([field] if field else [])


def find_guards(ctx):
    """{function id: C} for functions of the shape of clause 1"""
    out = {}
    for b in ctx.prog.bodies.values():
        if b.f["crate"] != "ironplc_parser" or b.f["argc"] != 2 or "::test" in norm(b.id):
            continue
        cm = [c for c in b.calls() if (c.callee or "").endswith("num::checked_mul")]
        if len(cm) != 1 or not (_is_param_field(b, cm[0].args[0], 1, "whole") and _is_param_field(b, cm[0].args[1], 2, None)):
            continue
        prod = cm[0].dest[0]
        dom = b.dominators()
        oks = [i for i, j, s in b.all_stmts() if s[0] == "=" and s[1] == [0, []] and s[2][0] == "agg" and s[2][1].get("adt") == "core::result::Result" and s[2][1]["variant"] == "Ok"]
        if not oks:
            continue
        bound = None
        good = True
        for okb in oks:
            # (a) reached only through the Some edge of the product
            some_ok = False
            for d_ in dom.get(okb, set()):
                si = switch_info(b, d_)
                if not si or si["kind"] != "disc" or si.get("adt") != "core::option::Option":
                    continue
                subj_local = si["subject"][1][0] if si["subject"][0] == "place" else (si["subject"][1].dest[0] if si["subject"][0] == "call" else None)
                if subj_local != prod:
                    continue
                for succ, labs in si["edges"].items():
                    if labs == ["Some"] and (succ == okb or succ in dom.get(okb, set())):
                        some_ok = True
            # (b) under a comparison of the product with a constant that bounds it from above, in whatever form it is written
            #     (`p <= C` taken, `p > C` not taken, ...)
            ub = None
            for g in panics._cmp_guards(b, okb):
                if g[0] != "bin":
                    continue
                _, op2, a, c, holds = g
                ap = op_place(a)
                cv = panics._int_const(b, c)
                if ap is None or cv is None or b.root(ap)[0] != prod:
                    continue
                if (op2 == "Le" and holds) or (op2 == "Gt" and not holds):
                    ub = cv if ub is None else min(ub, cv)
                elif (op2 == "Lt" and holds) or (op2 == "Ge" and not holds):
                    ub = cv - 1 if ub is None else min(ub, cv - 1)
            # (c) both at once: on the true edge of `product.is_some_and(|p| p <= C)`
            for g in panics._cmp_guards(b, okb):
                if g[0] != "call" or not g[4]:
                    continue
                c2 = g[1]
                if not norm(c2.callee or "").endswith("Option::is_some_and") or len(c2.args) != 2:
                    continue
                ap = op_place(c2.args[0])
                if ap is None or b.root(ap)[0] != prod or b.root(ap)[1]:
                    continue
                cb = _closure_body(ctx, b, c2.args[1])
                cu = _true_only_below(cb) if cb is not None else None
                if cu is not None:
                    some_ok = True
                    ub = cu if ub is None else min(ub, cu)
            if not some_ok or ub is None:
                good = False
                break
            bound = ub if bound is None else max(bound, ub)
        if good and bound is not None:
            out[norm(b.id)] = bound
    return out


def _true_only_below(cb):
    """C if the one-parameter predicate closure returns true only when its parameter is <= C (every assignment of the result is
    `param <= C`, `param < C+1` or the constant false), else None"""
    ub = None
    for i, j, s in cb.all_stmts():
        if s[0] != "=" or s[1] != [0, []]:
            continue
        rv = s[2]
        if rv[0] == "use" and rv[1][0] == "c" and panics._int_const(cb, rv[1]) == 0:
            continue
        if rv[0] != "bin" or rv[1] not in ("Le", "Lt"):
            return None
        ap = op_place(rv[2])
        cv = panics._int_const(cb, rv[3])
        if ap is None or cv is None:
            return None
        rt = cb.root(ap)
        if rt[0] != 2 or [x for x in rt[1] if x != "*"]:
            return None
        u = cv if rv[1] == "Le" else cv - 1
        ub = u if ub is None else max(ub, u)
    for c in cb.calls():
        if c.dest[0] == 0:
            return None
    return ub


def _closure_body(ctx, b, op):
    p = op_place(op)
    d = b.single_def(p[0]) if p is not None and not p[1] else None
    if d and d[0] == "stmt" and d[3][0] == "agg" and d[3][1].get("k") == "closure":
        bs = ctx.prog.get(norm(d[3][1]["def"]))
        return bs[0] if bs else None
    return None


def _payload_guard_kparam(h, op, guards):
    """the index of the parameter of `h` that is passed as k when `op` is the Ok payload (`G(x, k)?`) of a guard, else None"""
    p = op_place(op)
    if p is None:
        return None
    rt = h.root(p)
    if [x[1] for x in rt[1] if isinstance(x, list) and x[0] == "d"] != ["Continue"]:
        return None
    d = h.single_def(rt[0])
    if not (d and d[0] == "call" and (d[2].callee or "").endswith("Try>::branch") and d[2].args):
        return None
    rp = op_place(d[2].args[0])
    d2 = h.single_def(h.root(rp)[0]) if rp is not None else None
    if not (d2 and d2[0] == "call" and norm(d2[2].callee or "") in guards and len(d2[2].args) == 2):
        return None
    kp = op_place(d2[2].args[1])
    kr = h.root(kp) if kp is not None else None
    if kr is None or kr[1] or not (1 <= kr[0] <= h.f["argc"]):
        return None
    return kr[0]


def _guard_k(ctx, b, op, guards, depth=3):
    """the constant k if the Result operand is G(_, k) or X.and_then(|v| G(v, k)) for a guard G"""
    p = op_place(op)
    if p is None or depth == 0:
        return None
    d = b.single_def(b.root(p)[0])
    if not (d and d[0] == "call"):
        return None
    c = d[2]
    nm = norm(c.callee or "")
    if nm in guards and len(c.args) == 2:
        return panics._int_const(b, c.args[1])
    if (c.callee or "").endswith("Result::and_then") and len(c.args) == 2:
        k = _closure_body(ctx, b, c.args[1])
        if k is not None:
            for c2 in k.calls():
                if norm(c2.callee or "") in guards and c2.dest == [0, []] and len(c2.args) == 2:
                    return panics._int_const(k, c2.args[1])
    return None


def establish(ctx):
    """(re)computed for the tree of `ctx`; what an earlier call published (for another tree analysed in the same process: the thorough
    tier looks at HEAD, the pinned commit and seeded copies one after the other) is withdrawn first"""
    key = id(ctx)
    if _CACHE.get("last") == key and key in _CACHE:
        return _CACHE[key]
    for k in [k for k in panics.PARAM_FIELD_BOUNDS if k[0].startswith(CTOR) or "From<ironplc_dsl::common::Integer>" in k[0]]:
        del panics.PARAM_FIELD_BOUNDS[k]
    panics.DURATION_SUM_OK[0] = False
    _CACHE.clear()
    _CACHE["last"] = key
    guards = find_guards(ctx)
    sites = []        # (ctor, where, body, loc, k or None, form)
    accounted = set()
    for b in ctx.prog.bodies.values():
        if b.f["crate"] != "ironplc_parser" or "::test" in norm(b.id):
            continue
        for c in b.calls():
            if not (c.callee or "").endswith("Result::map") or len(c.args) != 2:
                continue
            k = _guard_k(ctx, b, c.args[0], guards)
            # form A: the constructor itself is the mapper
            kk = b.const_of(c.args[1])
            rfn = norm(kk[3]["rfn"]) if kk is not None and len(kk) > 3 and isinstance(kk[3], dict) and "rfn" in kk[3] else None
            if rfn is None:
                m = re.search(r"FnDef\(DefId\([^)]*::time::\{impl#\d+\}::(days|hours|minutes|seconds)\)", c.ga or "")
                if m:
                    rfn = CTOR + m.group(1)
            if rfn and rfn.startswith(CTOR) and rfn[len(CTOR):] in UNITS:
                sites.append((rfn[len(CTOR):], b, c.loc, k, "map(%s)" % rfn.split("::")[-1]))
                continue
            # form B: a closure that calls the constructor on its parameter
            cl = _closure_body(ctx, b, c.args[1])
            if cl is not None:
                for c2 in cl.calls():
                    nm = norm(c2.callee or "")
                    if nm.startswith(CTOR) and nm[len(CTOR):] in UNITS and c2.args:
                        ap = op_place(c2.args[0])
                        if ap is not None and cl.root(ap)[0] == 2 and not [x for x in cl.root(ap)[1] if x != "*"]:
                            sites.append((nm[len(CTOR):], cl, c2.loc, k, "map(|v| .. %s(v))" % nm.split("::")[-1]))
                            accounted.add((cl.id, c2.bb))
    # form C: a helper of the parser that receives (k, constructor) together and applies the constructor, through the function
    #         pointer, to the Ok payload of G(_, k): each call of the helper is a site, with the constant k and the function item
    #         it passes
    for h in ctx.prog.bodies.values():
        if h.f["crate"] != "ironplc_parser" or "::test" in norm(h.id):
            continue
        for ic in h.calls():
            if ic.callee is not None or not ic.indirect or len(ic.args) != 1:
                continue
            fp = op_place(ic.indirect)
            fr = h.root(fp) if fp is not None else None
            if fr is None or not (1 <= fr[0] <= h.f["argc"]) or fr[1]:
                continue
            kp = _payload_guard_kparam(h, ic.args[0], guards)
            if kp is None:
                continue
            for b in ctx.prog.bodies.values():
                if b.f["crate"] != "ironplc_parser" or "::test" in norm(b.id):
                    continue
                for c in b.calls():
                    if norm(c.callee or "") != norm(h.id) or len(c.args) < max(kp, fr[0]):
                        continue
                    k = panics._int_const(b, c.args[kp - 1])
                    kk = b.const_of(c.args[fr[0] - 1])
                    rfn = norm(kk[3]["rfn"]) if kk is not None and len(kk) > 3 and isinstance(kk[3], dict) and kk[3].get("rfn") else None
                    if rfn and rfn.startswith(CTOR) and rfn[len(CTOR):] in UNITS:
                        sites.append((rfn[len(CTOR):], b, c.loc, k, "%s(.., %s)" % (norm(h.id).split("::")[-1], rfn.split("::")[-1])))
                    # anything else that is passed (a closure, another function) is covered by the sweep below: a constructor
                    # call inside it is a direct call that no guard accounts for
    # direct calls that no guarded map accounts for
    for b in ctx.prog.bodies.values():
        if b.f["crate"] not in ("ironplc_parser", "ironplc_analyzer", "ironplcc", "ironplc_plc2plc") or "::test" in norm(b.id):
            continue
        for c in b.calls():
            nm = norm(c.callee or "")
            if nm.startswith(CTOR) and nm[len(CTOR):] in UNITS and (b.id, c.bb) not in accounted:
                sites.append((nm[len(CTOR):], b, c.loc, None, "direct call"))
    C = min(guards.values()) if guards else None
    bounds = {}
    if C is not None:
        for ctor, unit in UNITS.items():
            ss = [s for s in sites if s[0] == ctor]
            if ss and all(s[3] == unit for s in ss):
                bounds[ctor] = C // unit
    # clause 3: the chain of component rules
    g = ctx.peg
    order = ["days", "hours", "minutes", "seconds", "milliseconds"]
    chain_ok = True
    for idx, name in enumerate(order):
        rule = g.rules.get(name)
        if rule is None:
            chain_ok = False
            continue
        refs = set()
        g.walk_elems(rule.expr, lambda e, s, c: refs.add(e.prim.name) if e.prim.kind == "call" else None)
        if refs & set(order[:idx + 1]):
            chain_ok = False
    sum_ok = chain_ok and C is not None and len(bounds) == len(UNITS) and 4 * C + (2 ** 64 - 1) // 1000 + 5 <= I64_MAX
    # clause 4: Integer -> FixedPoint (`value as u64` in the From impl) only runs on values that fit
    FROM = "<ironplc_dsl::common::FixedPoint as core::convert::From<ironplc_dsl::common::Integer>>::from"
    conv = []
    for b in ctx.prog.bodies.values():
        if b.f["crate"] not in ("ironplc_parser", "ironplc_analyzer", "ironplcc", "ironplc_plc2plc", "ironplc_dsl") or "::test" in norm(b.id):
            continue
        for c in b.calls():
            is_conv = norm(c.callee or "") == FROM or ((c.u or "").endswith(("Into::into", "From::from")) and re.sub(r"\s", "", c.ga or "") in
                                                        ("[ironplc_dsl::common::Integer,ironplc_dsl::common::FixedPoint]", "[ironplc_dsl::common::FixedPoint,ironplc_dsl::common::Integer]"))
            if not is_conv or not c.args or norm(b.id) == FROM:
                continue
            ap = op_place(c.args[0])
            src = b.root(ap) if ap is not None else None
            bound = None
            if src is not None and not [x for x in src[1] if x != "*"]:
                for g in panics._cmp_guards(b, c.bb):
                    if g[0] != "bin":
                        continue
                    _, op2, a, cc, holds = g
                    gp = op_place(a)
                    cv = panics._int_const(b, cc)
                    if gp is None or cv is None:
                        continue
                    grt = b.root(gp)
                    fs = [x for x in grt[1] if isinstance(x, list) and x[0] == "f"]
                    if grt[0] == src[0] and [x[2] for x in fs] == ["value"]:
                        if (op2 == "Gt" and not holds) or (op2 == "Le" and holds):
                            bound = cv
                        elif (op2 == "Ge" and not holds) or (op2 == "Lt" and holds):
                            bound = cv - 1
            conv.append((b, c.loc, bound))
    conv_bound = None
    if conv and all(x[2] is not None for x in conv):
        conv_bound = max(x[2] for x in conv)
        panics.PARAM_FIELD_BOUNDS[(FROM, 1, "value")] = conv_bound
    res = {"guards": guards, "sites": sites, "bounds": bounds, "C": C, "chain_ok": chain_ok, "sum_ok": sum_ok, "conv": conv, "conv_bound": conv_bound}
    _CACHE[key] = res
    # publish
    for ctor, bd in bounds.items():
        panics.PARAM_FIELD_BOUNDS[(CTOR + ctor, 1, "whole")] = bd
    panics.DURATION_SUM_OK[0] = bool(sum_ok)
    return res


def run(ctx, rep, rid="R-C09-durrange"):
    r = rep.rule(rid, "every component of a duration literal passes a range check (value.whole * seconds-per-unit <= C, C constant) before the constructor "
                      "that cannot represent larger values runs, with the constructor's own unit; a literal has at most five components and their sum fits",
                 floor=9, floor_what="guard + constructor sites + chain")
    res = establish(ctx)
    if res["guards"]:
        for gname, C in sorted(res["guards"].items()):
            b = ctx.prog.get(gname)[0]
            r.ok("guard|%s" % gname.split("::")[-1], "%s:%d" % (b.f["file"], b.f["line"]), "Ok only if whole.checked_mul(k) is Some and <= %d" % C)
    else:
        r.finding("guard|missing", "parser/src/parser.rs", "no function of the parser returns Ok(value) only under `value.whole.checked_mul(k) <= C`: the duration constructors run on unchecked values "
                  "(`T#99999999999999999999d` panics, `T#18446744073709551616s` wraps to 0)")
    n = {}
    for ctor, b, loc, k, form in sorted(res["sites"], key=lambda s: (s[0], s[1].id, s[2][0], s[2][1])):
        i = n[(ctor, form)] = n.get((ctor, form), 0) + 1
        inst = "%s|%s#%d" % (ctor, form, i)
        if k == UNITS[ctor]:
            r.ok(inst, loc_str(b.f, loc), "maps the Ok payload of the guard with k = %d" % k)
        elif k is None:
            r.finding(inst + "|unguarded", loc_str(b.f, loc), "DurationLiteral::%s is applied to a value that did not pass the range guard: it wraps (`as i64`) or panics (time::Duration::%s) for large values" % (ctor, ctor))
        else:
            r.finding(inst + "|wrong-unit", loc_str(b.f, loc), "the value is range-checked with %d seconds per unit but DurationLiteral::%s multiplies by %d: values the guard accepts still overflow" % (k, ctor, UNITS[ctor]))
    for ctor in UNITS:
        if not [s for s in res["sites"] if s[0] == ctor]:
            r.finding("%s|no-site" % ctor, "parser/src/parser.rs", "no use of DurationLiteral::%s found in the parser (anchor moved)" % ctor)
    for i, (b, loc, bound) in enumerate(sorted(res["conv"], key=lambda x: (x[0].id, x[1][0], x[1][1])), 1):
        inst = "Integer->FixedPoint|%s#%d" % (norm(b.id).split("::")[-1], i)
        if bound is not None and bound <= 2 ** 64 - 1:
            r.ok(inst, loc_str(b.f, loc), "only reached with value <= %d (dominating comparison)" % bound)
        else:
            r.finding(inst + "|unguarded", loc_str(b.f, loc), "an integer of up to 128 bits is converted to the 64-bit whole part of a FixedPoint without a range test: `T#18446744073709551616s` is read as 0 s")
    if res["sum_ok"]:
        r.ok("chain|days>hours>minutes>seconds>milliseconds", "parser/src/parser.rs", "at most five components; 4*C + u64::MAX/1000 s < i64::MAX s")
    elif res["chain_ok"]:
        r.finding("chain|sum-not-bounded", "parser/src/parser.rs", "the components are not all bounded (see above), so their sum and its negation can overflow")
    else:
        r.finding("chain|cyclic", "parser/src/parser.rs", "a component rule refers to itself or an earlier component: the number of components of one literal is unbounded")
