"""R-C01-vars: what happens to a VAR block on its way through flatten / drain_* / with.

`VarDeclarations` is the carrier of one VAR block (its kind = the enum variant, its variables = the payload) between the grammar rule
that parsed it and the POU that receives it.  The rule follows the payload of every variant from every match on that enum and decides,
arm by arm, three things that are visible in the code's shape and that the returned tree depends on:

  kept        the payload (or the whole matched value) is stored: handed to a call together with a `&mut` collection, or returned.
              An arm that does nothing with it (`_ => {}`) makes a whole block of variables vanish from the tree.
  same kind   where the payload is wrapped into a VarDeclarations again, the variant is the one that was matched.
  qualified   in a function that receives a DeclarationQualifier (the `with` step: RETAIN / CONSTANT / ...), a payload whose elements have
              a `qualifier` field goes through a function that assigns that field.

How arms are *written* is not the rule's business: six identical arms merged into an or-pattern, or `other @ (A(_) | B(_)) => push(other)`,
move the same values to the same places (neutral corpus C01-a)."""
import re
from vlib.mir import norm, switch_info, op_place

VD = "ironplc_parser::vars::VarDeclarations"
QUAL = "ironplc_dsl::common::DeclarationQualifier"


def _elem_adt(ctx, ty):
    m = re.match(r"^alloc::vec::Vec<(.*)>$", ty or "")
    return ctx.facts.adts.get(m.group(1)) if m else None


def _has_qualifier(ctx, ty):
    a = _elem_adt(ctx, ty)
    return bool(a) and any(f["name"] == "qualifier" and f["ty"] == QUAL for v in a["variants"] for f in v["fields"])


def _writes_qualifier(ctx, fn, seen=None, depth=3):
    """does the workspace function `fn` (or a closure / helper of it) assign a field named `qualifier`?"""
    seen = seen if seen is not None else set()
    if fn in seen or depth < 0:
        return False
    seen.add(fn)
    for h in ctx.prog.get(fn) or []:
        for i, j, s in h.all_stmts():
            if s[0] == "=":
                if any(isinstance(x, list) and x and x[0] == "f" and x[2] == "qualifier" for x in s[1][1]):
                    return True
                if s[2][0] == "agg" and s[2][1].get("k") == "closure" and _writes_qualifier(ctx, norm(s[2][1]["def"]), seen, depth - 1):
                    return True
                if s[2][0] == "agg" and s[2][1].get("k") == "adt" and "qualifier" in (s[2][1].get("fields") or []):
                    return True
        for c in h.calls():
            if any(isinstance(x, list) and x and x[0] == "f" and x[2] == "qualifier" for x in c.dest[1]):
                return True
            if c.callee and ctx.prog.get(c.callee) and c.callee.startswith("ironplc_") and _writes_qualifier(ctx, c.callee, seen, depth - 1):
                return True
    return False


def follow(ctx, b, sw, arm, subj, variant):
    """forward flow of the matched value `subj` / its payload `(subj as variant).0` from the arm's first block.
    -> (stored?, [variants it is re-wrapped in], [workspace callees it passes through])"""
    blocks, todo = set(), [arm]
    while todo:
        i = todo.pop()
        if i in blocks or i == sw or b.bbs[i].get("cu"):
            continue
        blocks.add(i)
        todo += [x for x in b.succ(i) if x is not None]
    taint = set()            # locals holding (part of) the value

    def tainted_place(p):
        if p is None:
            return False
        if p[0] in taint:
            return True
        if p[0] == subj[0] and p[1][:len(subj[1])] == subj[1]:
            rest = p[1][len(subj[1]):]
            if not rest:
                return True
            return isinstance(rest[0], list) and rest[0][0] == "d" and rest[0][1] == variant
        return False

    def tainted_op(o):
        return o and o[0] in ("cp", "mv") and tainted_place(o[1])
    stored, wraps, through = False, [], []
    changed = True
    while changed:
        changed = False
        for i in sorted(blocks):
            for s in b.bbs[i]["s"]:
                if s[0] != "=":
                    continue
                rv = s[2]
                src = False
                if rv[0] in ("use", "cast", "rep"):
                    src = tainted_op(rv[1] if rv[0] != "cast" else rv[2])
                elif rv[0] in ("ref", "ptr"):
                    src = tainted_place(rv[2])
                elif rv[0] == "agg":
                    src = any(tainted_op(o) for o in rv[2])
                    if src and rv[1].get("adt") == VD and rv[1]["variant"] not in wraps:
                        wraps.append(rv[1]["variant"])
                if src:
                    if s[1][0] == 0:
                        stored = True
                    if s[1][0] not in taint and s[1][0] != subj[0]:
                        taint.add(s[1][0])
                        changed = True
            t = b.bbs[i]["t"]
            if t[0] == "call" and any(tainted_op(a) for a in t[2]):
                cal = norm(t[1].get("d") or "") or ""
                if cal.startswith("ironplc_") and cal not in through:
                    through.append(cal)
                # stored: handed over together with a `&mut` collection that is not itself (part of) the value
                for a in t[2]:
                    if a[0] in ("cp", "mv") and not tainted_op(a) and (b.f["locals"][a[1][0]][0] or "").startswith("&mut "):
                        stored = True
                d = t[3]
                if d[0] == 0:
                    stored = True
                if d[0] not in taint and d[0] != subj[0] and (b.f["locals"][d[0]][0] or "") != "()":
                    taint.add(d[0])
                    changed = True
    return stored, wraps, through


def run(ctx, rep):
    r = rep.rule("R-C01-vars", "every variant of VarDeclarations (the carrier of a VAR block through flatten/drain/with) keeps its variables in every match: the "
                               "payload is stored, re-wrapped only in the variant that was matched, and - where a qualifier is applied - goes through a "
                               "function that assigns it", floor=30, floor_what="(match, variant) pairs on VarDeclarations")
    adt = ctx.facts.adts.get(VD)
    if not adt:
        rep.error("R-C01-vars", "enum VarDeclarations not found")
        return
    payload = {v["name"]: (v["fields"][0]["ty"] if v["fields"] else "") for v in adt["variants"]}
    n = {}
    for b in sorted(ctx.prog.bodies.values(), key=lambda x: x.id):
        if b.f["crate"] != "ironplc_parser":
            continue
        for i in sorted(b.reachable(0)):
            si = switch_info(b, i)
            if not (si and si["kind"] == "disc" and si.get("adt") == VD):
                continue
            # the place whose discriminant is read (as written in this body, not its origin)
            t = b.bbs[i]["t"]
            dl = op_place(t[1])
            subj = None
            for s in reversed(b.bbs[i]["s"]):
                if s[0] == "=" and dl is not None and s[1] == dl and s[2][0] == "disc":
                    subj = s[2][1]
                    break
            if subj is None:
                d0 = b.single_def(dl[0]) if dl is not None else None
                if d0 and d0[0] == "stmt" and d0[3][0] == "disc":
                    subj = d0[3][1]
            if subj is None:
                r.finding("%s|match at bb%d|subject-not-found" % (norm(b.id), i), b.f["file"], "cannot find the matched place of a match on VarDeclarations")
                continue
            # skip drop-elaboration re-tests of a discriminant already matched above
            if any(d != i and (switch_info(b, d) or {}).get("adt") == VD and (switch_info(b, d) or {}).get("subject") == si["subject"] for d in b.dominators().get(i, set())):
                continue
            fn = norm(b.id)
            k = n[fn] = n.get(fn, 0) + 1
            where = "%s:%d" % (b.f["file"], b.f["line"])
            # does this function (or, for a closure, the function around it) apply a qualifier?
            outer = [b] + (ctx.prog.get(re.sub(r"::\{closure#\d+\}$", "", fn)) or [] if "{closure#" in fn else [])
            applies = any(QUAL in (l[0] or "") for o in outer for l in o.f["locals"][1:o.f["argc"] + 1]) or \
                any(QUAL in (l[0] or "") for l in b.f["locals"][1:b.f["argc"] + 1])
            if "{closure#" in fn:
                applies = applies or any(QUAL in (u or "") for u in (b.f.get("upvars") or []))
            edge_of = {}
            for succ, labs in si["edges"].items():
                for lab in labs:
                    edge_of[lab] = succ
            for v in [x["name"] for x in adt["variants"]]:
                arm = edge_of.get(v, edge_of.get("otherwise"))
                inst = "%s|match#%d|%s" % (fn.replace("ironplc_parser::", ""), k, v)
                if arm is None:
                    r.finding(inst + "|no-arm", where, "no arm of this match handles VarDeclarations::%s" % v)
                    continue
                stored, wraps, through = follow(ctx, b, i, arm, subj, v)
                if not stored:
                    r.finding(inst + "|dropped", where, "the variables of a %s block reach an arm that neither stores nor returns them: the whole block vanishes from the tree" % v)
                elif [w for w in wraps if w != v]:
                    r.finding(inst + "|rewrapped-as:" + ",".join(w for w in wraps if w != v), where,
                              "the variables of a %s block are wrapped into VarDeclarations::%s: they end up in the wrong class of the POU" % (v, [w for w in wraps if w != v][0]))
                elif applies and _has_qualifier(ctx, payload[v]) and not any(_writes_qualifier(ctx, c) for c in through):
                    r.finding(inst + "|qualifier-not-applied", where, "the elements of a %s block have a `qualifier` field, and this function receives the block's qualifier, but "
                              "the payload passes through no function that assigns it (%s): RETAIN / CONSTANT / ... is lost for these variables" % (v, ", ".join(through) or "none"))
                else:
                    r.ok(inst, where)
