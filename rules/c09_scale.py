"""R-C09-scale: the whole part and the fraction of a fixed-point literal are scaled by the same unit.

Every function that turns a FixedPoint (whole, femptos) into a `time::Duration` calls Duration constructors
(`hours(..)`, `seconds(..)`, `nanoseconds(..)`, ...) with values computed from the two fields by multiplications and
divisions with constants.  Each such argument is evaluated symbolically to a linear form  q * field  (q an exact rational
read off the MIR: constants are resolved by rustc, `%` keeps the scale, casts are transparent), and multiplied with the
constructor's unit in seconds.  Obligations per function (sibling agreement, no external oracle):

  S1  all terms fed from `whole` denote the same number of seconds per unit of the literal  (S_U)
  S2  every term fed from `femptos` denotes  S_U / 10^N  seconds per count, N = the number of decimal places FixedPoint::parse pads to

`T#0.5h`: whole -> Duration::hours(whole) gives S_U = 3600; the fraction must then be worth 3600e-15 s per count."""
import re
from fractions import Fraction
from vlib.mir import op_place, loc_str, norm
from vlib import facts as F

FP = "ironplc_dsl::common::FixedPoint"
UNIT = {"weeks": Fraction(604800), "days": Fraction(86400), "hours": Fraction(3600), "minutes": Fraction(60), "seconds": Fraction(1),
        "milliseconds": Fraction(1, 1000), "microseconds": Fraction(1, 10**6), "nanoseconds": Fraction(1, 10**9)}


class Stuck(Exception):
    pass


def linear(b, op, depth=0):
    """(Fraction coefficient, base) with base in {None (pure constant), 'whole', 'femptos', ...}"""
    if depth > 30:
        raise Stuck("expression too deep")
    if op[0] == "c":
        if len(op) > 3 and isinstance(op[3], dict) and "int" in op[3]:
            return Fraction(int(op[3]["int"])), None
        raise Stuck("non-integer constant %s" % op[2])
    p = op[1]
    fl = [x for x in p[1] if isinstance(x, list) and x[0] == "f"]
    if fl and fl[-1][3] == FP:
        return Fraction(1), fl[-1][2]
    if fl and fl[-1][3] == "(tuple)" and fl[-1][1] == 0 and len(fl) == 1:
        # result part of a checked operation
        d = b.single_def(p[0])
        if d and d[0] == "stmt" and d[3][0] == "bin":
            return lin_rv(b, d[3], depth + 1)
        raise Stuck("tuple field of unknown origin")
    if fl:
        # field of something else: follow a reference to a FixedPoint field
        rt = b.root(p)
        fl2 = [x for x in rt[1] if isinstance(x, list) and x[0] == "f"]
        if fl2 and fl2[-1][3] == FP:
            return Fraction(1), fl2[-1][2]
        raise Stuck("field %s.%s" % (fl[-1][3], fl[-1][2]))
    d = b.single_def(p[0])
    if not d:
        raise Stuck("local _%d has no single definition" % p[0])
    if d[0] == "call":
        c = d[2]
        nm = (c.callee or c.u or "").split("::")[-1]
        if nm in ("from", "into", "try_from", "try_into", "unwrap", "unwrap_or", "unwrap_or_default", "abs", "unsigned_abs", "clone") and c.args:
            return linear(b, c.args[0], depth + 1)
        if nm in ("checked_mul", "saturating_mul", "wrapping_mul") and len(c.args) == 2:
            return mul(linear(b, c.args[0], depth + 1), linear(b, c.args[1], depth + 1))
        if nm in ("checked_div", "saturating_div", "wrapping_div", "div_euclid") and len(c.args) == 2:
            return div(linear(b, c.args[0], depth + 1), linear(b, c.args[1], depth + 1))
        raise Stuck("call to %s" % (c.callee or c.u))
    return lin_rv(b, d[3], depth + 1)


TRUNC = []      # (reason) collected while evaluating one argument


def mul(x, y):
    if x[1] is not None and y[1] is not None:
        raise Stuck("product of two variables")
    v = x if x[1] is not None else y
    k = y if x[1] is not None else x
    if v[1] is not None and v[0].denominator != 1 and k[0] != 1:
        # the variable part was already divided (integer division) and is multiplied afterwards: digits are lost first
        TRUNC.append("divides by %d before multiplying by %s" % (v[0].denominator, k[0]))
    return x[0] * y[0], x[1] if x[1] is not None else y[1]


def div(x, y):
    if y[1] is not None:
        raise Stuck("division by a variable")
    if y[0] == 0:
        raise Stuck("division by zero constant")
    return x[0] / y[0], x[1]


def lin_rv(b, rv, depth):
    k = rv[0]
    if k == "use":
        return linear(b, rv[1], depth)
    if k == "cast":
        return linear(b, rv[2], depth)
    if k == "bin":
        opn = rv[1]
        x, y = linear(b, rv[2], depth), linear(b, rv[3], depth)
        if opn.startswith("Mul"):
            return mul(x, y)
        if opn.startswith("Div"):
            return div(x, y)
        if opn.startswith("Rem"):
            if y[1] is not None:
                raise Stuck("remainder by a variable")
            return x
        raise Stuck("operator %s" % opn)
    raise Stuck("rvalue %s" % k)


def fractional_units(ctx):
    """counts per unit of FixedPoint.femptos, from where the field is produced: FixedPoint::parse right-pads the decimal digits to
    N places (`N - decimal.len()` zeros) and parses them as an integer, so one count is 10^-N.  N is read from that subtraction."""
    ns = set()
    for b in ctx.prog.get("ironplc_dsl::common::FixedPoint::parse"):
        for i, j, s in b.all_stmts():
            if s[0] == "=" and s[2][0] == "bin" and s[2][1].startswith("Sub"):
                a, c = s[2][2], s[2][3]
                if a[0] == "c" and len(a) > 3 and isinstance(a[3], dict) and "int" in a[3] and c[0] != "c":
                    ns.add(int(a[3]["int"]))
    if len(ns) == 1:
        return 10 ** next(iter(ns))
    if not ns:
        # the same padding written with the formatter: format!("{:0<width$}", digits, width = N) - left-aligned, filled with zeros up to N places.
        # N is the constant handed to the formatter as the width; the fill/alignment is read from the format string in the source.
        import os
        from vlib import facts as FF
        from vlib.mir import op_place
        for b in ctx.prog.get("ironplc_dsl::common::FixedPoint::parse"):
            widths = set()
            for c in b.calls():
                if (c.callee or "").endswith("fmt::rt::Argument::from_usize") and c.args:
                    o = c.args[0]
                    k = None
                    if o[0] == "c" and len(o) > 3 and isinstance(o[3], dict) and "int" in o[3]:
                        k = int(o[3]["int"])
                    else:
                        p = op_place(o)
                        src = None
                        for _ in range(8):          # through references and through the (arg0, arg1, ..) tuple that format_args! builds
                            if p is None:
                                break
                            rt = b.root(p)
                            d = b.single_def(rt[0])
                            fs = [x for x in rt[1] if isinstance(x, list) and x[0] == "f"]
                            if d and d[0] == "stmt" and d[3][0] == "agg" and isinstance(d[3][1], dict) and d[3][1].get("k") == "tuple" and fs and str(fs[0][2]).isdigit():
                                p = op_place(d[3][2][int(fs[0][2])])
                                continue
                            if d and d[0] == "stmt" and d[3][0] == "use":
                                if d[3][1][0] == "c":
                                    src = d[3][1]
                                    break
                                p = op_place(d[3][1])
                                continue
                            if d and d[0] == "stmt" and d[3][0] == "ref":
                                p = d[3][2]
                                continue
                            break
                        if src is not None and src[0] == "c" and "promoted[" in str(src[2]):
                            idx = int(str(src[2]).split("promoted[")[1].split("]")[0])
                            for po in (b.f.get("promoted") or [])[idx:idx + 1]:
                                for q in po:
                                    if len(q) > 3 and isinstance(q[3], dict) and "int" in q[3]:
                                        k = int(q[3]["int"])
                    if k is not None:
                        widths.add(k)
            try:
                text = "\n".join(open(os.path.join(FF.WS, b.f["file"]), encoding="utf-8").read().splitlines()[b.f["line"] - 1:b.f.get("endline", b.f["line"])])
            except OSError:
                text = ""
            zero_left = re.search(r'format!\s*\(\s*"\{:0<\w*\$?\}"', text) is not None
            if len(widths) == 1 and zero_left:
                return 10 ** next(iter(widths))
    return None


def run(ctx, rep, rid="R-C09-scale"):
    r = rep.rule(rid, "whole part and fraction of a fixed-point duration are scaled by the same unit: per function, all Duration constructor "
                      "arguments fed from `whole` denote the same seconds-per-unit S_U and every one fed from `femptos` denotes "
                      "S_U / FRACTIONAL_UNITS (exact rational evaluation of the MIR expressions)", floor=10, floor_what="Duration constructor calls fed from FixedPoint fields")
    fu = fractional_units(ctx)
    if not fu:
        rep.error(rid, "cannot read the number of decimal places from FixedPoint::parse (`N - decimal.len()`): the unit of FixedPoint.femptos is unknown")
        return
    n = 0
    for b in sorted(ctx.prog.bodies.values(), key=lambda x: x.id):
        if b.f["crate"] not in F.PRODUCT or "::test" in norm(b.id):
            continue
        terms, hms, trunc = [], [], []
        for c in sorted(b.calls(), key=lambda c: (c.loc[0], c.loc[1])):
            cal = c.callee or ""
            if not cal.startswith("time::duration::Duration::") or cal.split("::")[-1] not in UNIT or len(c.args) != 1:
                continue
            unit = cal.split("::")[-1]
            del TRUNC[:]
            try:
                q, base = linear(b, c.args[0])
            except Stuck as e:
                terms.append((c, unit, None, str(e)))
                continue
            terms.append((c, unit, (q * UNIT[unit], base), None))
            if TRUNC:
                trunc.append((c, unit, list(TRUNC)))
        # sub-second argument of Time::from_hms_*: the seconds position fixes S_U = 1
        for c in sorted(b.calls(), key=lambda c: (c.loc[0], c.loc[1])):
            cal = c.callee or ""
            sub = {"from_hms_nano": "nanoseconds", "from_hms_micro": "microseconds", "from_hms_milli": "milliseconds"}.get(cal.split("::")[-1])
            if not (cal.startswith("time::time::Time::") and sub and len(c.args) == 4):
                continue
            try:
                q, base = linear(b, c.args[3])
            except Stuck as e:
                hms.append((c, sub, None, str(e)))
                continue
            hms.append((c, sub, (q * UNIT[sub], base), None))
        for c, unit, why in trunc:
            r.finding("%s|Duration::%s|divides-before-multiplying" % (norm(b.id), unit), loc_str(b.f, c.loc),
                      "the argument %s: the integer division drops digits that the multiplication would have kept (the literal is truncated, not read exactly)" % "; ".join(why))
        fed = [t for t in terms if t[2] is None or t[2][1] in ("whole", "femptos")]
        fn = norm(b.id)
        for c, sub, val, err in hms:
            if val is not None and val[1] != "femptos":
                continue
            n += 1
            inst = "%s|Time::from_hms sub-second" % fn
            if val is None:
                r.finding(inst + "|not-evaluable", loc_str(b.f, c.loc), "the sub-second argument is not a constant multiple of a FixedPoint field (%s)" % err)
            elif val[0] == Fraction(1, fu):
                r.ok(inst, loc_str(b.f, c.loc), "fraction of a second: 1 / %d s per count" % fu)
            else:
                ratio = val[0] * fu
                r.finding(inst + "|fraction-scaled-by-%s" % (ratio if ratio.denominator == 1 else "%d/%d" % (ratio.numerator, ratio.denominator)), loc_str(b.f, c.loc),
                          "the fraction of the seconds is worth %s of its value" % float(ratio))
        if not any(t[2] is not None and t[2][1] in ("whole", "femptos") for t in terms):
            continue
        wholes = {t[2][0] for t in fed if t[2] is not None and t[2][1] == "whole"}
        su = None
        if len(wholes) == 1:
            su = next(iter(wholes))
        k = 0
        for c, unit, val, err in fed:
            k += 1
            n += 1
            inst = "%s|Duration::%s#%d" % (fn, unit, k)
            where = loc_str(b.f, c.loc)
            if val is None:
                r.finding(inst + "|not-evaluable", where, "the argument is not a constant multiple of a FixedPoint field (%s): the scale of this term cannot be established" % err)
            elif val[1] == "whole":
                if su is None:
                    r.finding(inst + "|whole-parts-disagree", where, "terms fed from `whole` denote different units (%s seconds per unit)" % ", ".join(str(float(x)) for x in sorted(wholes)))
                else:
                    r.ok(inst, where, "whole: %s s per unit" % (su if su.denominator == 1 else float(su)))
            else:
                if su is None:
                    r.finding(inst + "|no-reference", where, "no consistent whole-part scale in this function to compare the fraction with")
                elif val[0] == su / fu:
                    r.ok(inst, where, "fraction: S_U / %d" % fu)
                else:
                    ratio = val[0] / (su / fu)
                    r.finding(inst + "|fraction-scaled-by-%s" % (ratio if ratio.denominator == 1 else "%d/%d" % (ratio.numerator, ratio.denominator)), where,
                              "the fraction is worth %s of what the whole part's unit implies (whole: %s s per unit; a count of the fraction should be %s s, is %s s)"
                              % (float(ratio), float(su), float(su / fu), float(val[0])))
    r.note("%d Duration constructor calls fed from FixedPoint fields; FRACTIONAL_UNITS = %d" % (n, fu))
