"""R-C13-nonempty: a failure always carries a diagnostic.

`check` exits non-zero exactly when Project::semantic returns Err(v) and prints what is in v.  So every
Err(Vec<Diagnostic>) constructed anywhere in the product crates must carry a non-empty vector on the path that builds
it.  Evidence accepted on a path (forward must-analysis over the MIR, set of vectors known to be non-empty):
  * the false edge of `v.is_empty()`, the true edge of `!v.is_empty()`
  * `v.push(..)`;  `v.extend/append(w)` with w known non-empty;  vec![a, ..] with at least one element
  * a vector moved out of another Err(Vec<Diagnostic>) or Err(Vec<&Diagnostic>) (inductive: that one is covered by this same rule)
  * what `collect()` gathers from a one-to-one adaptor chain (into_iter/iter/cloned/copied/map/rev/enumerate) over a non-empty vector
  * moves/borrows of the above."""
import re
from vlib.mir import op_place, loc_str, norm, explore, switch_info, loc_macro
from vlib import facts as F

VEC_DIAG = "alloc::vec::Vec<ironplc_dsl::diagnostic::Diagnostic"


def _err_sites(b):
    for i, j, s in b.all_stmts():
        if s[0] == "=" and s[2][0] == "agg" and isinstance(s[2][1], dict) and s[2][1].get("adt") == "core::result::Result" \
                and s[2][1].get("variant") == "Err" and VEC_DIAG in (s[2][1].get("ga") or "").rsplit(", alloc::vec::Vec<", 1)[-1].join(["alloc::vec::Vec<", ""]) :
            yield i, j, s


_RET = {}


def returns_nonempty(ctx, fid):
    """workspace function returning Vec<Diagnostic>: is the returned vector non-empty on every path?"""
    if fid in _RET:
        return _RET[fid]
    _RET[fid] = False          # recursion guard (pessimistic)
    bs = ctx.prog.get(fid)
    if bs and (bs[0].local_ty(0) or "").startswith(VEC_DIAG):
        res = analyse(ctx, bs[0], want_ret=True)
        _RET[fid] = res
    return _RET[fid]


def analyse(ctx, b, want_ret=False):
    """returns list of (bb, stmt idx, stmt, ok?)"""
    sites = list(_err_sites(b))
    if not sites and not want_ret:
        return []
    site_at = {}
    for i, j, s in sites:
        site_at.setdefault(i, []).append((j, s))
    verdict = {}          # (bb, j) -> True if non-empty on all paths seen so far
    def key_of(rt):
        fl = [x for x in rt[1] if isinstance(x, list) and x[0] == "f"]
        if fl and fl[-1][3] == "core::result::Result" and fl[-1][4] == "Err" and re.match(r"alloc::vec::Vec<(&('\w+ )?)?ironplc_dsl::diagnostic::Diagnostic", fl[-1][5] or ""):
            return "ERR-PAYLOAD"
        if any(isinstance(x, list) and x[0] == "d" for x in rt[1]):
            return None
        return (rt[0], tuple(x[2] for x in fl))

    def root_local(op):
        p = op_place(op)
        if p is None:
            return None
        return key_of(b.root(p))

    def kill(ne, l):
        for k in [k for k in ne if isinstance(k, tuple) and k[0] == l]:
            ne.discard(k)

    def step(state, bb):
        ne = set(state)
        blk = b.bbs[bb]
        for j, s in enumerate(blk["s"]):
            if s[0] != "=":
                continue
            dst, rv = s[1], s[2]
            if rv[0] == "agg" and (bb, j) in {(bb, jj) for jj, _ in site_at.get(bb, [])}:
                src = root_local(rv[2][0]) if rv[2] else None
                p0 = op_place(rv[2][0]) if rv[2] else None
                ok = src in ne or (p0 is not None and key_of((p0[0], p0[1])) in ne)
                verdict[(bb, j)] = verdict.get((bb, j), True) and ok
            if dst[1]:
                continue
            l = dst[0]
            if rv[0] == "use":
                p = op_place(rv[1])
                src = key_of((p[0], p[1])) if p is not None else None
                src2 = root_local(rv[1])
                kill(ne, l)
                if src in ne or src2 in ne:
                    ne.add((l, ()))
            elif rv[0] == "ref":
                pass
            else:
                kill(ne, l)
        t = blk["t"]
        if t[0] == "call":
            c = b.call_at(bb)
            nm = (c.callee or c.u or "")
            last = nm.split("::")[-1]
            recv = root_local(c.args[0]) if c.args else None
            if last in ("push", "push_back", "insert") and recv is not None:
                ne.add(recv)
            elif last in ("extend", "append", "extend_from_slice") and len(c.args) >= 2 and recv is not None:
                src = root_local(c.args[1])
                if src in ne:
                    ne.add(recv)
            elif last in ("clear", "truncate", "drain", "pop", "remove", "retain", "take", "split_off") and recv is not None:
                ne.discard(recv)
            elif not c.dest[1]:
                kill(ne, c.dest[0])
                d = (c.dest[0], ())
                m = loc_macro(c.loc)
                if last in ("into_vec", "box_assume_init_into_vec_unsafe") or (m and m[0] == "Bang:vec" and last not in ("new", "new_uninit", "with_capacity")):
                    mm = re.search(r"(\d+)(?:_usize)?\]$", c.ga or "")
                    if (mm and int(mm.group(1)) >= 1) or last in ("from_elem",):
                        ne.add(d)
                elif last in ("clone", "to_vec", "into", "from") and recv in ne:
                    ne.add(d)
                elif last in ("into_iter", "iter", "cloned", "copied", "map", "rev", "enumerate", "peekable", "collect") and recv in ne:
                    ne.add(d)      # an iterator over a non-empty vector, adapted one-to-one, and what is collected from it
                elif c.callee and ctx.prog.get(c.callee) and returns_nonempty(ctx, c.callee):
                    ne.add(d)
        ne.add("ERR-PAYLOAD")
        return frozenset(ne)

    def edge(state, bb, succ):
        si = switch_info(b, bb)
        if si and si["kind"] == "bool" and si["subject"][0] == "call":
            c = si["subject"][1]
            if (c.callee or c.u or "").split("::")[-1] == "is_empty" and c.args:
                v = root_local(c.args[0])
                if si["edges"].get(succ) == [False] and v is not None:
                    return frozenset(set(state) | {v})
        return state
    rets = explore(b, frozenset({"ERR-PAYLOAD"}), step, edge)
    if want_ret:
        return bool(rets) and all((0, ()) in st for sts in rets.values() for st in sts)
    return [(i, j, s, verdict.get((i, j))) for i, j, s in sites]


def run(ctx, rep):
    _RET.clear()        # per tree: the thorough tier analyses several trees in one process
    r = rep.rule("R-C13-nonempty", "a failure always carries a diagnostic: every Err(Vec<Diagnostic>) built in the product crates holds a vector that is "
                                   "non-empty on every path reaching it (is_empty test, push, vec![x,..], or the payload of another such Err)",
                 floor=15, floor_what="Err(Vec<Diagnostic>) constructions")
    n = 0
    for b in sorted(ctx.prog.bodies.values(), key=lambda x: x.id):
        if b.f["crate"] not in F.PRODUCT or "::test" in norm(b.id):
            continue
        k = 0
        for i, j, s, ok in analyse(ctx, b):
            k += 1
            n += 1
            inst = "%s|Err#%d" % (norm(b.id), k)
            if ok is None:
                r.ok(inst, loc_str(b.f, s[3]), "unreachable")
            elif ok:
                r.ok(inst, loc_str(b.f, s[3]))
            else:
                r.finding(inst + "|possibly-empty", loc_str(b.f, s[3]), "this Err can carry an empty diagnostic list: the command fails (non-zero exit) without saying why")
