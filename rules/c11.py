"""C11 — LSP diagnostics depend only on current contents and equal `check` (DESIGN.md §3 C11)."""
import re
from vlib.mir import norm, loc_str, op_place, switch_info, explore
from rules.c12 import cast_label, LSP

SRC = "ironplcc::source::Source"
PROJ = "ironplcc::project::FileBackedProject"


def fields_of(place_or_root):
    proj = place_or_root[1]
    return [x[2] for x in proj if isinstance(x, list) and x[0] == "f"]


def rule_once(ctx, rep):
    r = rep.rule("R-C11-once", "handle_notification: exactly one publishDiagnostics on the didOpen / didChange arms (after "
                               "change_text_document then semantic, with the notification's uri and Some(version)), none on any other path",
                 floor=4, floor_what="exit classes")
    hb = ctx.prog.get(LSP + "::handle_notification")
    if not hb:
        rep.error("R-C11-once", "handle_notification not found")
        return
    SEND = LSP + "::send_notification"
    # a helper of the server that analyses/publishes (`self.publish_diagnostics(uri, version)`) is part of the arm that calls it
    from vlib.inline import inlined
    from vlib import units as _u
    STEPS = (SEND, "ironplcc::lsp_project::LspProject::change_text_document", "ironplcc::lsp_project::LspProject::semantic", "crossbeam_channel::channel::Sender::send")
    b = inlined(ctx.prog, hb[0], accept=lambda h: norm(h.id) != SEND and any((c.callee or "") in STEPS for _, c, _ in _u.calls_in_unit(ctx, h)))

    def is_publish(c):
        return c is not None and c.callee == SEND and "PublishDiagnostics" in (c.ga or "")

    def step(st, bb):
        dec, cnt, seq = st
        c = b.call_at(bb)
        if c is not None:
            if is_publish(c) or c.callee == "crossbeam_channel::channel::Sender::send":
                cnt = min(cnt + 1, 2)
                seq = seq + ("publish",)
            elif c.callee == "ironplcc::lsp_project::LspProject::change_text_document":
                seq = seq + ("change",)
            elif c.callee == "ironplcc::lsp_project::LspProject::semantic":
                seq = seq + ("semantic",)
            seq = seq[-6:]
        return (dec, cnt, seq)

    LASTS = ("Iterator>::last", "Iterator::last", "Vec::pop", "DoubleEndedIterator>::next_back", "DoubleEndedIterator::next_back")

    def edge(st, bb, succ):
        dec, cnt, seq = st
        si = switch_info(b, bb)
        if si and si["kind"] == "disc" and si["subject"][0] == "place" and not si["subject"][1][1]:
            # a value that was built as one variant a few lines up (`self.document_changed(uri, version, Some(text))`, spliced in): the test
            # of it has one answer
            d0 = b.single_def(si["subject"][1][0])
            if d0 and d0[0] == "stmt" and d0[3][0] == "agg" and isinstance(d0[3][1], dict) and d0[3][1].get("variant") and d0[3][1].get("adt") in ("core::option::Option", "core::result::Result"):
                if si["edges"].get(succ) != [d0[3][1]["variant"]]:
                    return None
        if si and si["kind"] == "disc" and si["subject"][0] == "call" and (si["subject"][1].callee or "").endswith(("Option::<T>::map", "Option::<T>::and_then", "Option::map", "Option::and_then")) and si["subject"][1].args:
            # `.last().map(|change| change.text)`: Some exactly when there was a last change event
            ap_ = op_place(si["subject"][1].args[0])
            dl = b.single_def(b.root(ap_)[0]) if ap_ is not None else None
            if dl and dl[0] == "call" and (dl[2].callee or "").endswith(LASTS):
                arms = si["edges"].get(succ)
                if arms:
                    dec = dec | frozenset([("last-change", arms[0])])
                return (dec, cnt, seq)
        if si and si["kind"] == "disc" and si["subject"][0] == "call":
            lab = cast_label(si["subject"][1])
            if lab:
                arms = si["edges"].get(succ)
                if arms and si.get("adt") == "core::result::Result":
                    # the discriminant of one cast result cannot change along a path: later re-tests (drop elaboration,
                    # nested patterns) that contradict the first outcome are infeasible edges
                    prev = [a for (l, a) in dec if l == lab]
                    if prev and prev[0] != arms[0]:
                        return None
                    dec = dec | frozenset([(lab, arms[0])])
                elif arms:
                    dec = dec | frozenset([(lab + "/" + str(si.get("adt", "")).split("::")[-1], arms[0])])
            elif (si["subject"][1].callee or "").endswith(("Iterator>::last", "Iterator::last", "Vec::pop", "DoubleEndedIterator>::next_back", "DoubleEndedIterator::next_back")):
                arms = si["edges"].get(succ)
                if arms:
                    dec = dec | frozenset([("last-change", arms[0])])
        return (dec, cnt, seq)

    rets = explore(b, (frozenset(), 0, ()), step, edge)
    finals = set()
    for sts in rets.values():
        finals |= sts
    where = "%s:%d" % (b.f["file"], b.f["line"])
    seen_arms = set()
    for dec, cnt, seq in sorted(finals, key=lambda x: (sorted(x[0]), x[1], x[2])):
        oks = sorted(l for l, a in dec if a == "Ok")
        no_change_event = ("last-change", "None") in dec
        name = "Ok:" + "+".join(oks) if oks else "fallthrough"
        if no_change_event:
            name += "(empty contentChanges)"
        inst = "handle_notification|%s|publishes=%d|%s" % (name, cnt, ">".join(seq))
        if oks in (["DidOpenTextDocument"], ["DidChangeTextDocument"]):
            seen_arms.add(oks[0])
            if cnt != 1:
                r.finding(inst, where, "%d publishDiagnostics on this arm (exactly one required)" % cnt)
            elif oks == ["DidChangeTextDocument"] and no_change_event and seq[-2:] == ("semantic", "publish") and "change" not in seq:
                # a didChange without any change event: nothing to apply, the current contents are analysed and published
                r.ok(inst, where)
            elif seq[-3:] != ("change", "semantic", "publish"):
                r.finding(inst, where, "publish is not preceded by change_text_document then semantic (order: %s)" % (seq,))
            else:
                r.ok(inst, where)
        else:
            if cnt != 0:
                r.finding(inst, where, "publishDiagnostics sent for a notification that is neither didOpen nor didChange")
            else:
                r.ok(inst, where)
    for need in ("DidOpenTextDocument", "DidChangeTextDocument"):
        if need not in seen_arms:
            r.finding("handle_notification|missing-arm|" + need, where, "no path handles " + need)

    # the published params: uri and version come from the same notification's params
    rp = rep.rule("R-C11-params", "every PublishDiagnosticsParams built in handle_notification has uri = params.text_document.uri and "
                                  "version = Some(params.text_document.version) of the notification being handled", floor=2, floor_what="aggregates")
    n = 0
    for i, j, s in b.all_stmts():
        if s[0] == "=" and s[2][0] == "agg" and s[2][1].get("adt") == "lsp_types::PublishDiagnosticsParams":
            n += 1
            names = s[2][1]["fields"]
            ops = dict(zip(names, s[2][2]))
            inst = "PublishDiagnosticsParams#%d" % n
            problems = []
            # uri
            up = op_place(ops["uri"])
            ur = b.root(up) if up else None
            ur = follow_moves(b, ur)
            if not ur or fields_of(ur)[-2:] != ["text_document", "uri"]:
                problems.append("uri does not come from params.text_document.uri")
            # version
            vp = op_place(ops["version"])
            vd = b.single_def(vp[0]) if vp and not vp[1] else None
            okv = False
            if vd and vd[0] == "stmt" and vd[3][0] == "agg" and vd[3][1].get("variant") == "Some":
                ip = op_place(vd[3][2][0])
                ir = follow_moves(b, b.root(ip)) if ip else None
                if ir and fields_of(ir)[-2:] == ["text_document", "version"]:
                    okv = True
                    # same params object as the uri
                    if ur and ir[0] != ur[0]:
                        problems.append("uri and version come from different params objects")
            if not okv:
                problems.append("version is not Some(params.text_document.version)")
            if problems:
                rp.finding(inst, loc_str(b.f, s[3]), "; ".join(problems))
            else:
                rp.ok(inst, loc_str(b.f, s[3]))


def follow_moves(b, root, depth=6):
    """a root (local, proj) whose local is itself a single-def move of a field path: concatenate"""
    for _ in range(depth):
        if root is None:
            return None
        d = b.single_def(root[0])
        if d and d[0] == "stmt" and d[3][0] == "use" and d[3][1][0] in ("cp", "mv"):
            src = d[3][1][1]
            root = b.root((src[0], list(src[1]) + list(root[1])))
            if root[0] == src[0] and not d:
                break
            nd = b.single_def(root[0])
            if nd is d:
                break
        else:
            break
    return root


def rule_last(ctx, rep, rid="R-C11-last"):
    r = rep.rule(rid, "didChange: the text handed to change_text_document derives from the LAST content change "
                               "(full-document sync: later events supersede earlier ones)", floor=1)
    hb = ctx.prog.get(LSP + "::handle_notification")
    if not hb:
        return
    b = hb[0]
    # find uses of the content_changes field
    sites = []
    for c in b.calls():
        for a in c.args:
            p = op_place(a)
            if p is None:
                continue
            rt = follow_moves(b, b.root(p))
            if rt and "content_changes" in fields_of(rt):
                sites.append(c)
    if not sites:
        rep.error(rid, "no use of params.content_changes found in handle_notification")
        return
    # forward slice: calls that consume the result of those calls
    chain = []
    frontier = list(sites)
    seen = set()
    while frontier:
        c = frontier.pop()
        if c.bb in seen:
            continue
        seen.add(c.bb)
        chain.append(c.callee)
        dl = c.dest[0]
        for c2 in b.calls():
            for a in c2.args:
                p = op_place(a)
                if p is not None and b.root(p)[0] == dl and c2.bb not in seen:
                    frontier.append(c2)
    names = [x.split("::")[-1] for x in chain if x]
    where = loc_str(b.f, sites[0].loc)
    inst = "didChange|" + ">".join(names[:6])
    if any(n in ("last", "pop", "next_back", "rev") for n in names):
        r.ok(inst, where)
    elif any(n in ("next", "first", "nth", "index") for n in names):
        r.finding("didChange|first-change-wins", where, "content_changes consumed via %s: the FIRST change event is used" % ">".join(names[:6]))
    else:
        r.finding("didChange|unknown-selection", where, "cannot see how a content change is selected: %s" % ">".join(names[:6]))


def rule_cache(ctx, rep, rid="R-C11-cache"):
    r = rep.rule(rid, "a Source's cached library is always the parse of its current text: Source fields are private and "
                                "written only in Source::new / Source::library; FileBackedProject.sources is mutated only by the listed methods",
                 floor=6, floor_what="writers")
    adt = ctx.facts.adts.get(SRC)
    if not adt:
        rep.error(rid, "struct Source not found")
        return
    for fld in adt["variants"][0]["fields"]:
        inst = "Source.%s|visibility" % fld["name"]
        if fld["vis"].startswith("Public"):
            r.finding(inst, "%s:%d" % (adt["file"], adt["line"]), "field is public: any crate can change the text without dropping the cached library")
        else:
            r.ok(inst, "%s:%d" % (adt["file"], adt["line"]))
    allowed_writers = {
        "data": {SRC + "::new"},
        "file_id": {SRC + "::new"},
        "library": {SRC + "::new", SRC + "::library"},
    }
    MUT = {"insert", "clear", "remove", "iter_mut", "values_mut", "get_mut", "entry", "retain", "drain", "extend", "remove_entry", "get_or_insert_with"}
    allowed_mut = {("change_text_document", "insert"), ("initialize", "clear"), ("semantic", "iter_mut"), ("sources_mut", "values_mut")}
    for bd in ctx.prog.bodies.values():
        if bd.f["crate"] != "ironplcc":
            continue
        fn = norm(bd.id)
        for i, j, s in bd.all_stmts():
            if s[0] != "=":
                continue
            fl = [p for p in s[1][1] if isinstance(p, list) and p[0] == "f"]
            if fl and fl[-1][3] == SRC:
                name = fl[-1][2]
                inst = "%s|writes Source.%s" % (fn, name)
                if fn in allowed_writers.get(name, set()):
                    # library may only be assigned the result of parse_program(self.data, self.file_id, ..)
                    r.ok(inst, loc_str(bd.f, s[3]))
                else:
                    r.finding(inst, loc_str(bd.f, s[3]), "Source.%s written outside its constructor / cache filler" % name)
            if s[2][0] == "agg" and s[2][1].get("adt") == SRC:
                inst = "%s|constructs Source" % fn
                if fn == SRC + "::new":
                    lib = s[2][2][s[2][1]["fields"].index("library")]
                    ld = bd.const_of(lib)
                    pl = op_place(lib)
                    dd = bd.single_def(pl[0]) if pl else None
                    is_none = dd and dd[0] == "stmt" and dd[3][0] == "agg" and dd[3][1].get("variant") == "None"
                    if is_none:
                        r.ok(inst, loc_str(bd.f, s[3]), "library: None")
                    else:
                        r.finding(inst, loc_str(bd.f, s[3]), "Source::new does not start with an empty cache")
                else:
                    r.finding(inst, loc_str(bd.f, s[3]), "Source constructed outside Source::new")
        # the cached parse result is handed out, never taken apart: a mutable use of `library` (mem::take of the diagnostics, Option::take,
        # replace) other than the assignment that fills it leaves a cache that no longer is the parse of the text
        k_ = 0
        for i_, j_, s_ in bd.all_stmts():
            if not (s_[0] == "=" and s_[2][0] == "ref" and s_[2][1] == "mut"):
                continue
            fs_ = [x for x in bd.root(s_[2][2])[1] if isinstance(x, list) and x[0] == "f"]
            if not any(x[3] == SRC and x[2] == "library" for x in fs_):
                continue
            # fill-if-empty is the cache filler itself, written as one call: Option::get_or_insert_with hands out the stored value and
            # only writes when the Option is None
            users = [c for c in bd.calls() if any(op_place(a) is not None and op_place(a)[0] == s_[1][0] for a in c.args)]
            if users and all((c.callee or "").endswith("Option::get_or_insert_with") and fn == SRC + "::library" for c in users):
                r.ok("%s|fills Source.library when empty (get_or_insert_with)" % fn, loc_str(bd.f, s_[3]))
                continue
            k_ += 1
            r.finding("%s|mutable use of Source.library#%d" % (fn, k_), "%s:%d" % (bd.f["file"], bd.f["line"]), "the cached parse result is borrowed mutably (to take or replace a part of it): after the "
                      "first answer the cache is no longer the parse of the text - a document that does not parse yields its diagnostics once and then nothing")
        # mutations of FileBackedProject.sources
        for c in bd.calls():
            if not c.callee or not c.callee.startswith("std::collections::hash::map::HashMap::") and not c.callee.startswith("alloc::collections::btree::map::BTreeMap::"):
                continue
            meth = c.callee.split("::")[-1]
            if meth not in MUT or not c.args:
                continue
            p = op_place(c.args[0])
            rt = bd.root(p) if p else None
            if rt and fields_of(rt)[-1:] == ["sources"]:
                inst = "%s|sources.%s" % (fn.split("::")[-1], meth)
                if (bd.f["name"], meth) in allowed_mut:
                    r.ok(inst, loc_str(bd.f, c.loc))
                elif meth in ("iter_mut", "values_mut", "get_mut"):
                    # element access: the set of documents is unchanged and what is handed out is `&mut Source`, whose fields are private
                    # and whose writers are decided above (text only in the constructor, cache only in the filler)
                    r.ok(inst, loc_str(bd.f, c.loc), "hands out &mut Source only; Source's own writers are decided by this rule")
                else:
                    r.finding(inst, loc_str(bd.f, c.loc), "FileBackedProject.sources mutated by an unlisted method")
    # Source::library: the cache is filled from parse_program(self.data, self.file_id)
    lb = ctx.prog.get(SRC + "::library")
    if lb:
        lb = lb[0]
        from vlib import units
        pc = [(bd_, c) for bd_, c, site in units.calls_in_unit(ctx, lb) if c.callee == "ironplc_parser::parse_program"]
        ok = False

        def derives(op, field, bd_, depth=5):
            """the operand is (a borrow / Borrow::borrow / deref of) self.<field>; inside a closure, captured variables are followed out"""
            p = op_place(op)
            for _ in range(depth):
                if p is None:
                    return False
                root = bd_.root(p)
                if bd_ is not lb and root[0] == 1:
                    o2 = units.upvar_operand(ctx, lb, bd_, root)
                    if o2 is None:
                        return False
                    return derives(o2, field, lb, depth - 1)
                if fields_of(root)[-1:] == [field] and (bd_ is not lb or root[0] == 1):
                    return True
                d = bd_.single_def(root[0])
                if d and d[0] == "call" and d[2].args and (d[2].callee or d[2].u or "").split("::")[-1] in ("borrow", "deref", "as_ref", "as_str", "clone"):
                    p = op_place(d[2].args[0])
                    continue
                if d and d[0] == "stmt" and d[3][0] == "use" and d[3][1][0] in ("cp", "mv"):
                    p = d[3][1][1]
                    continue
                if d and d[0] == "stmt" and d[3][0] == "ref":
                    p = d[3][2]
                    continue
                return False
            return False
        for bd_, c in pc:
            if derives(c.args[0], "data", bd_) and derives(c.args[1], "file_id", bd_):
                ok = True
        if ok:
            r.ok("Source::library|parse_program(self.data, self.file_id)", "%s:%d" % (lb.f["file"], lb.f["line"]))
        else:
            r.finding("Source::library|parse_program-args", "%s:%d" % (lb.f["file"], lb.f["line"]), "the cached library is not the parse of self.data under self.file_id")


def rule_same(ctx, rep):
    r = rep.rule("R-C11-same", "the editor and `check` obtain diagnostics from the same analysis entry point (Project::semantic, single implementor)", floor=3)
    impls = ctx.prog.impls.get("ironplcc::project::Project::semantic", [])
    if len(impls) == 1:
        r.ok("Project::semantic|single-impl:" + norm(impls[0].id).split(" as ")[0].strip("<"), "%s:%d" % (impls[0].f["file"], impls[0].f["line"]))
    else:
        r.finding("Project::semantic|impls=%d" % len(impls), None, "Project::semantic has %d implementors in product code" % len(impls))
    for fn, what in (("ironplcc::lsp_project::LspProject::semantic", "LSP"), ("ironplcc::cli::check", "CLI check")):
        bs = ctx.prog.get(fn)
        if not bs:
            rep.error("R-C11-same", fn + " not found")
            continue
        b = bs[0]
        cs = [c for c in b.calls() if (c.u or c.callee) in ("ironplcc::project::Project::semantic",) or c.callee == "ironplcc::project::Project::semantic"
              or (c.callee or "").endswith("as ironplcc::project::Project>::semantic")]
        other = [c for c in b.calls() if c.callee in ("ironplc_analyzer::stages::analyze", "ironplc_parser::parse_program")]
        if len(cs) == 1 and not other:
            r.ok("%s|calls Project::semantic" % what, loc_str(b.f, cs[0].loc))
        else:
            r.finding("%s|analysis-entry" % what, "%s:%d" % (b.f["file"], b.f["line"]),
                      "%d calls to Project::semantic, %d direct analysis calls" % (len(cs), len(other)))


def _returns_file_path(hb):
    """the helper's return place is written from a Url::to_file_path call (directly), or from constant Err aggregates only"""
    good = False
    for d in hb.defs.get(0, []):
        if d[0] == "call":
            if (d[2].callee or "").endswith("Url::to_file_path"):
                good = True
            else:
                return False
        elif d[0] == "stmt":
            rv = d[3]
            if rv[0] == "agg" and isinstance(rv[1], dict) and rv[1].get("adt") == "core::result::Result" and rv[1].get("variant") == "Err":
                continue
            if rv[0] == "use":
                p = op_place(rv[1])
                dd = hb.single_def(p[0]) if p is not None else None
                if dd and dd[0] == "call" and (dd[2].callee or "").endswith("Url::to_file_path"):
                    good = True
                    continue
            return False
    return good


def rule_scheme(ctx, rep, rid="R-C11-scheme"):
    """A document is identified by its URL; the project identifies it by the path `Url::to_file_path` decodes - which does not look at the
    scheme.  `git:/home/u/main.st?ref=HEAD` (the revision an editor shows in a diff view) and `file:///home/u/main.st` then are one file,
    and opening the one replaces the text of the other.  Every call of Url::to_file_path in plc2x lies on the `file` side of a comparison of
    the same URL's scheme with the constant "file"."""
    r = rep.rule(rid, "every Url::to_file_path in plc2x is guarded by a comparison of the URL's scheme with \"file\" (documents with another scheme and the same path are other documents)",
                 floor=1, floor_what="Url::to_file_path calls")
    n = 0
    for b in sorted(ctx.prog.bodies.values(), key=lambda x: x.id):
        if b.f["crate"] != "ironplcc" or "::test" in norm(b.id):
            continue
        k = 0
        dom = None
        for c in sorted(b.calls(), key=lambda c: (c.loc[0], c.loc[1])):
            if not (c.callee or "").endswith("Url::to_file_path"):
                continue
            k += 1
            n += 1
            fn = norm(b.id).replace("ironplcc::", "")
            inst = "%s|to_file_path#%d" % (fn, k)
            where = loc_str(b.f, c.loc)
            if dom is None:
                dom = b.dominators()
            guarded = False
            for c2 in b.calls():
                u = c2.u or c2.callee or ""
                if not (u.endswith("PartialEq::eq") or u.endswith("PartialEq::ne") or u.endswith("::eq") or u.endswith("::ne")) or len(c2.args) < 2:
                    continue
                consts = [b.const_str(a) for a in c2.args]
                if "file" not in consts:
                    continue
                # the other side comes from Url::scheme
                other = [a for a, cs in zip(c2.args, consts) if cs != "file"]
                from_scheme = False
                for a in other:
                    p = op_place(a)
                    cur = p
                    for _ in range(6):
                        if cur is None:
                            break
                        d = b.single_def(b.root(cur)[0])
                        if d and d[0] == "call":
                            if (d[2].callee or "").endswith("Url::scheme"):
                                from_scheme = True
                            break
                        if d and d[0] == "stmt" and d[3][0] in ("use", "ref"):
                            cur = op_place(d[3][1]) if d[3][0] == "use" else d[3][2]
                            continue
                        break
                if not from_scheme:
                    continue
                # the comparison's outcome decides a branch that dominates the call
                if c2.bb in dom.get(c.bb, ()):
                    guarded = True
            if guarded:
                r.ok(inst, where, "on the `file` side of a scheme test")
            else:
                r.finding(inst + "|scheme-not-checked", where, "the path of the URL is taken whatever its scheme: a document `git:/p` or `untitled:/p` is taken for the file /p and replaces its text")
    if not n:
        rep.error(rid, "no call of Url::to_file_path in plc2x")


def rule_idorigin(ctx, rep, rid="R-C11-idorigin"):
    """The editor and the command line must give one file one identity: both build FileIds with FileId::from_path of a file-system
    path (the editor: the path `Url::to_file_path` decodes).  A FileId built from the URL's text (`url.path()`, `as_str()`: still
    percent-encoded) names the same file differently - files sort differently, and two spellings of one URL become two documents."""
    r = rep.rule(rid, "every FileId made in plc2x comes from FileId::from_path, and in the LSP adapter its argument derives from Url::to_file_path",
                 floor=3, floor_what="FileId constructions in plc2x")
    n = 0
    for b in sorted(ctx.prog.bodies.values(), key=lambda x: x.id):
        if b.f["crate"] != "ironplcc" or "::test" in norm(b.id):
            continue
        k = 0
        for c in sorted(b.calls(), key=lambda c: (c.loc[0], c.loc[1])):
            cal = c.callee or ""
            if not cal.startswith("ironplc_dsl::core::FileId::") and "as core::convert::From" not in cal:
                continue
            nm = cal.split("::")[-1]
            if "FileId" not in cal or nm in ("clone", "fmt", "eq", "hash", "cmp", "partial_cmp", "to_string", "default", "new"):
                continue
            k += 1
            n += 1
            fn = norm(b.id).replace("ironplcc::", "")
            inst = "%s|FileId::%s#%d" % (fn, nm, k)
            where = loc_str(b.f, c.loc)
            if nm == "from_dir_entry":
                r.ok(inst, where, "the path of a directory entry (same text as from_path(entry.path()))")
                continue
            if nm != "from_path":
                r.finding(inst + "|not-from-path", where, "a FileId is built with %s: the same file gets a different identity than the one `check` gives it" % nm)
                continue
            if "lsp" in fn.split("::")[0]:
                # the path argument must come from Url::to_file_path
                cur = op_place(c.args[0]) if c.args else None
                ok = False
                for _ in range(8):
                    if cur is None:
                        break
                    rt = b.root(cur)
                    d = b.single_def(rt[0])
                    if d and d[0] == "call":
                        if (d[2].callee or "").endswith("Url::to_file_path"):
                            ok = True
                            break
                        # a helper of the adapter that wraps to_file_path: every value it returns as Ok comes from that call
                        hb = [x for x in ctx.prog.get(d[2].callee or "") if x.f["crate"] == "ironplcc"]
                        if hb and _returns_file_path(hb[0]):
                            ok = True
                            break
                        cur = op_place(d[2].args[0]) if d[2].args else None
                    elif d and d[0] == "stmt" and d[3][0] in ("use", "ref", "cast"):
                        cur = op_place(d[3][1]) if d[3][0] == "use" else (d[3][2] if d[3][0] == "ref" else op_place(d[3][2]))
                    else:
                        break
                if ok:
                    r.ok(inst, where, "path from Url::to_file_path")
                else:
                    r.finding(inst + "|path-not-from-to_file_path", where, "the path handed to FileId::from_path does not come from Url::to_file_path")
            else:
                r.ok(inst, where)


def rule_keyorder(ctx, rep, rid="R-C11-keyorder"):
    """The analysis is order-sensitive (which of two duplicates is "the second", which error comes first), so the order in which the
    project's sources reach it must be a function of the sources themselves.  `FileBackedProject.sources` is a map ordered by
    FileId; a sequence (Vec, VecDeque, LinkedList, IndexMap: insertion order = edit history) or a hash container (order = hasher
    seed) in its place makes the published diagnostics depend on which document was opened first."""
    r = rep.rule(rid, "the project's sources are kept in a container whose iteration order depends on the keys only (BTreeMap/BTreeSet keyed by "
                      "FileId): not on insertion history (Vec, VecDeque, LinkedList, IndexMap) and not on a hasher (HashMap, HashSet)", floor=1)
    a = ctx.facts.adts.get("ironplcc::project::FileBackedProject")
    if not a:
        rep.error(rid, "struct FileBackedProject not found")
        return
    where = "%s:%d" % (a["file"], a["line"])
    n = 0
    for f in a["variants"][0]["fields"]:
        if "ironplcc::source::Source" not in f["ty"]:
            continue
        n += 1
        t = f["ty"]
        inst = "FileBackedProject.%s" % f["name"]
        if re.match(r"^(alloc|std)::collections::(btree::map::|btree_map::)?BTreeMap<ironplc_dsl::core::FileId, ", t):
            r.ok(inst, where, "BTreeMap<FileId, Source>")
        else:
            r.finding(inst + "|order-depends-on-history", where, "sources are kept in `%s`: the order in which files reach the analysis depends on the order in which documents "
                      "were opened/changed (or on the hasher), so a document's diagnostics depend on the edit history" % t[:80])
    if n == 0:
        r.finding("FileBackedProject|no-source-container", where, "no field holding Source values found")


def rule_stateless(ctx, rep, rid="R-C11-stateless"):
    r = rep.rule(rid, "the LSP adapter keeps no state of its own between notifications (LspProject wraps the project and nothing else; the "
                                    "server holds only the channel and the project), and LspProject::semantic runs Project::semantic on every path that "
                                    "has a file path - so published diagnostics are a function of the project's current sources", floor=3)
    a = ctx.facts.adts.get("ironplcc::lsp_project::LspProject")
    if not a:
        rep.error("R-C11-stateless", "struct LspProject not found")
        return
    flds = [(f["name"], f["ty"]) for f in a["variants"][0]["fields"]]
    where = "%s:%d" % (a["file"], a["line"])
    extra = [n for n, t in flds if "dyn ironplcc::project::Project" not in t]
    if not extra:
        r.ok("LspProject|fields=" + ",".join(n for n, _ in flds), where)
    else:
        r.finding("LspProject|extra-state:" + ",".join(extra), where, "LspProject carries state besides the wrapped project (%s): what is published can depend on the edit history" % extra)
    s = ctx.facts.adts.get("ironplcc::lsp::LspServer")
    if s:
        sf = [(f["name"], f["ty"]) for f in s["variants"][0]["fields"]]
        extra = [n for n, t in sf if not ("Sender<" in t or t.endswith("LspProject"))]
        if not extra:
            r.ok("LspServer|fields=" + ",".join(n for n, _ in sf), "%s:%d" % (s["file"], s["line"]))
        else:
            r.finding("LspServer|extra-state:" + ",".join(extra), "%s:%d" % (s["file"], s["line"]), "the server keeps per-history state (%s)" % extra)
    bs = ctx.prog.get("ironplcc::lsp_project::LspProject::semantic")
    if bs:
        b = bs[0]
        sem = [c for c in b.calls() if c.u == "ironplcc::project::Project::semantic" or (c.callee or "").endswith("Project>::semantic")]
        # every return that is reached through the Ok arm of to_file_path() must pass a Project::semantic call
        ok = bool(sem)
        if sem:
            avoid = {c.bb for c in sem}
            # blocks reachable from entry without passing semantic
            reach_wo = b.reachable(0, avoid=avoid)
            for rb in b.returns():
                if rb in reach_wo:
                    # allowed only on the path where the URL is not a file path (Err arm of to_file_path)
                    through_ok_arm = False
                    for i in sorted(reach_wo):
                        si = switch_info(b, i)
                        if si and si["kind"] == "disc" and si["subject"][0] == "call" and (si["subject"][1].callee or "").endswith("Url::to_file_path"):
                            for succ, labs in si["edges"].items():
                                if labs == ["Ok"] and rb in b.reachable(succ, avoid=avoid):
                                    through_ok_arm = True
                    if through_ok_arm:
                        ok = False
        inst = "LspProject::semantic|always analyses"
        w = "%s:%d" % (b.f["file"], b.f["line"])
        if ok:
            r.ok(inst, w)
        else:
            r.finding("LspProject::semantic|can-return-without-analysis", w, "a path with a valid file path returns without calling Project::semantic (cached / stale diagnostics)")


IDENTITY_TEXT = ("alloc::string::String::as_str", "<alloc::string::String as core::ops::deref::Deref>::deref", "<str as alloc::string::ToString>::to_string",
                 "<alloc::string::String as core::clone::Clone>::clone", "<str as alloc::borrow::ToOwned>::to_owned", "<alloc::string::String as core::convert::From<&str>>::from",
                 "<T as core::convert::Into<U>>::into", "<alloc::string::String as core::borrow::Borrow<str>>::borrow", "<T as core::convert::From<T>>::from",
                 "<alloc::string::String as core::convert::AsRef<str>>::as_ref", "alloc::str::<impl str>::to_string", "alloc::str::<impl alloc::borrow::ToOwned for str>::to_owned",
                 "<alloc::string::String as alloc::string::ToString>::to_string")


_CTX = [None]


def text_origin(b, operand, depth=12):
    """where does a text operand come from?  Follows moves, reborrows and identity conversions (IDENTITY_TEXT).  Returns
    ("param", n) | ("field", struct, name) | ("call", callee) | ("?", ...)"""
    p = op_place(operand)
    for _ in range(depth):
        if p is None:
            return ("const",)
        rt = b.root(p)
        fs = [x for x in rt[1] if isinstance(x, list) and x[0] == "f"]
        if fs and fs[-1][3] == "core::option::Option" and len(fs) == 1:
            # the payload of an Option that was made a few lines up: `Some(text)`, or `last().map(|change| change.text)`
            if 1 <= rt[0] <= b.f["argc"]:
                return ("param-some", rt[0])
            d0 = b.single_def(rt[0])
            if d0 and d0[0] == "stmt" and d0[3][0] == "agg" and isinstance(d0[3][1], dict) and d0[3][1].get("variant") == "Some" and d0[3][2]:
                p = op_place(d0[3][2][0])
                continue
            if d0 and d0[0] == "call" and (d0[2].callee or "").endswith(("Option::map", "Option::<T>::map")) and len(d0[2].args) > 1 and _CTX[0] is not None:
                cp = op_place(d0[2].args[1])
                cd = b.single_def(cp[0]) if cp is not None and not cp[1] else None
                if cd and cd[0] == "stmt" and cd[3][0] == "agg" and isinstance(cd[3][1], dict) and cd[3][1].get("k") == "closure":
                    for cb in _CTX[0].prog.get(norm(cd[3][1]["def"])):
                        for dd in cb.defs.get(0, []):
                            if dd[0] == "stmt" and dd[3][0] == "use":
                                q = op_place(dd[3][1])
                                qr = cb.root(q) if q is not None else None
                                qf = [x for x in (qr[1] if qr else []) if isinstance(x, list) and x[0] == "f"]
                                if qr is not None and qr[0] == 2 and qf:
                                    return ("field", qf[-1][3], qf[-1][2])
            return ("field", fs[-1][3], fs[-1][2])
        if fs:
            return ("field", fs[-1][3], fs[-1][2])
        if 1 <= rt[0] <= b.f["argc"]:
            return ("param", rt[0])
        d = b.single_def(rt[0])
        if d and d[0] == "call":
            c = d[2]
            nm = c.callee or c.u or "?"
            ident = nm in IDENTITY_TEXT or (nm == "<T as alloc::string::ToString>::to_string" and (c.ga or "") in ("[str]", "[alloc::string::String]", "[&str]"))
            if ident and c.args:
                p = op_place(c.args[0])
                continue
            return ("call", nm)
        return ("?", rt[0])
    return ("?", "depth")


def rule_nodedup(ctx, rep, rid="R-C11-nodedup"):
    """The language server publishes, per document, the diagnostics `check` would print for it.  A keyed container of diagnostics (a map or
    set built to sort or de-duplicate them) silently merges two diagnostics with the same key - the same code at the same offset in two
    different documents, for instance - and one document is told it has no problem."""
    r = rep.rule(rid, "diagnostics are never collected into a map or set in the language-server crate (two diagnostics with equal keys would become one)",
                 floor=0, floor_what="keyed containers of diagnostics")
    n = 0
    for b in sorted(ctx.prog.bodies.values(), key=lambda x: x.id):
        if b.f["crate"] != "ironplcc" or "::test" in norm(b.id):
            continue
        k = 0
        for c in sorted(b.calls(), key=lambda c: (c.loc[0], c.loc[1])):
            nm = c.callee or c.u or ""
            ga = c.ga or ""
            keyed = re.search(r"(BTreeMap|HashMap|BTreeSet|HashSet)<", ga) or re.search(r"(BTreeMap|HashMap|BTreeSet|HashSet)", nm)
            if keyed and "diagnostic::Diagnostic" in ga and not re.search(r"&'?\{?erased\}? ?ironplc_dsl::diagnostic::Diagnostic", ga) and nm.split("::")[-1] in ("collect", "from_iter", "insert", "extend", "entry"):
                k += 1
                n += 1
                r.finding("%s|%s#%d" % (norm(b.id).replace("ironplcc::", ""), nm.split("::")[-1], k), loc_str(b.f, c.loc), "diagnostics are put into a keyed container (%s): two diagnostics with the "
                          "same key collapse into one, so a document can be published as clean although `check` reports a problem in it" % (keyed.group(1)))
    if not n:
        r.count_override = 1
        r.note("no keyed container of diagnostics today (zero expected; positive example: seeded/C11-M)")


def rule_doctext(ctx, rep, rid="R-C11-doctext"):
    """The diagnostics of a document are those of the text the client sent only if that text reaches the analysed Source unchanged.
    Four hand-overs: notification parameter -> LspProject::change_text_document -> Project::change_text_document -> Source::new ->
    Source.data.  At each, the text operand is the function's own text parameter (or the `text` field of the protocol structure),
    reached through moves and identity conversions only; any other call on the way (a normalisation, a trim) is reported."""
    r = rep.rule(rid, "the text of didOpen/didChange reaches Source.data unchanged: at every hand-over the operand is the incoming text itself "
                      "(moves and identity conversions only)", floor=4, floor_what="hand-overs of the document text")

    def through_params(b, o, depth=2):
        """the text is a parameter of a helper of the server (`document_changed(uri, version, Some(text))`): what the callers hand in"""
        if o[0] not in ("param", "param-some") or depth == 0 or not norm(b.id).startswith("ironplcc::lsp::") or b.f.get("dk") == "Closure":
            return o
        outs = set()
        for cb in ctx.prog.bodies.values():
            if cb.f["crate"] != "ironplcc" or "::test" in norm(cb.id):
                continue
            for c in cb.calls():
                if norm(c.callee or "") != norm(b.id) or len(c.args) < o[1]:
                    continue
                a = c.args[o[1] - 1]
                if o[0] == "param":
                    o2 = text_origin(cb, a)
                else:
                    ap = op_place(a)
                    o2 = text_origin(cb, ["cp", [ap[0], list(ap[1]) + [["d", "Some", 1], ["f", 0, "0", "core::option::Option", "Some", "alloc::string::String"]]]]) if ap is not None else ("?", "arg")
                outs.add(through_params(cb, o2, depth - 1))
        if len(outs) == 1:
            return next(iter(outs))
        if outs and all(x[0] == "field" and x[2] == "text" and x[1].startswith("lsp_types::") for x in outs):
            return sorted(outs)[0]
        return o if not outs else ("?", "callers disagree: %s" % sorted(outs))

    def check(inst, b, c_or_loc, operand, want, what):
        o = through_params(b, text_origin(b, operand))
        where = loc_str(b.f, c_or_loc)
        ok = (want[0] == "param" and o == want) or (want[0] == "field" and o[0] == "field" and o[2] == want[1] and o[1].startswith("lsp_types::"))
        if ok:
            r.ok(inst, where, what)
        elif o[0] == "call":
            r.finding(inst + "|text-transformed", where, "the document text passes through %s() before it is stored: the server analyses a different text than the "
                      "client sent (positions and end-of-input errors move)" % o[1].split("::")[-1].replace(">", ""))
        else:
            r.finding(inst + "|text-not-forwarded", where, "the operand is %s, not the incoming text" % (o,))
    # 1. notification handlers
    _CTX[0] = ctx
    n1 = 0
    for b in sorted(ctx.prog.bodies.values(), key=lambda x: x.id):
        if b.f["crate"] != "ironplcc" or "::test" in norm(b.id) or norm(b.id).startswith("ironplcc::lsp_project::"):
            continue
        k = 0
        for c in sorted(b.calls(), key=lambda c: (c.loc[0], c.loc[1])):
            if (c.callee or "") == "ironplcc::lsp_project::LspProject::change_text_document":
                k += 1
                n1 += 1
                check("%s|change_text_document#%d" % (norm(b.id).replace("ironplcc::", ""), k), b, c.loc, c.args[2], ("field", "text"), "the `text` of the notification")
    if not n1:
        r.finding("lsp|no-handler", "plc2x/src/lsp.rs", "no caller of LspProject::change_text_document found")
    # 2-3. the two change_text_document layers
    for fid, callee_suffix, argi, parm in (("ironplcc::lsp_project::LspProject::change_text_document", "change_text_document", 2, 3),
                                            ("<ironplcc::project::FileBackedProject as ironplcc::project::Project>::change_text_document", "source::Source::new", 0, 3)):
        bs = ctx.prog.get(fid)
        if not bs:
            rep.error(rid, fid + " not found")
            continue
        b = bs[0]
        cs = [c for c in b.calls() if (c.callee or c.u or "").endswith(callee_suffix)]
        if not cs:
            r.finding("%s|no-forward" % fid.split("::")[-2].replace(" as ironplcc", ""), "%s:%d" % (b.f["file"], b.f["line"]), "does not call %s" % callee_suffix)
        for c in cs:
            check("%s -> %s" % (re.sub(r".*::(\w+)( as .*)?>?::change_text_document", r"\1::change_text_document", norm(fid)), callee_suffix.split("::")[-1] if "Source" not in callee_suffix else "Source::new"),
                  b, c.loc, c.args[argi], ("param", parm), "its own `content` parameter")
    # 4. Source::new stores its parameter
    bs = ctx.prog.get("ironplcc::source::Source::new")
    if not bs:
        rep.error(rid, "Source::new not found")
        return
    b = bs[0]
    for i, j, st in b.all_stmts():
        if st[0] == "=" and st[2][0] == "agg" and isinstance(st[2][1], dict) and st[2][1].get("adt") == "ironplcc::source::Source":
            ops = dict(zip(st[2][1]["fields"], st[2][2]))
            check("Source::new -> Source.data", b, st[3], ops["data"], ("param", 1), "its own `source` parameter")


def rule_origin(ctx, rep, rid="R-C11-origin"):
    """`check` reports what Project::semantic returns.  The language server reports the same only if every problem it publishes comes out of
    that one call: a second producer of problems inside LspProject::semantic (the tokenizer, a rule run on the side) makes the published set
    a different one.  Decided on the unit (function + closures): every call of a workspace function whose result type carries
    ironplc_dsl Diagnostics and may flow to the return value must be Project::semantic."""
    from vlib import units
    r = rep.rule(rid, "the problems LspProject::semantic returns all come out of its one call of Project::semantic: no other workspace call that yields ironplc "
                      "diagnostics flows to the return value", floor=1, floor_what="producers of diagnostics in LspProject::semantic")
    bs = [b for b in ctx.prog.get("ironplcc::lsp_project::LspProject::semantic")]
    if not bs:
        rep.error(rid, "LspProject::semantic not found")
        return
    b = bs[0]
    DIAG = "ironplc_dsl::diagnostic::Diagnostic"
    k = {}
    for body, c, consumer in units.calls_in_unit(ctx, b):
        nm = c.callee or c.u or ""
        if not (nm.startswith("ironplc") or nm.startswith("<ironplc") or "ironplcc::" in nm or "ironplc_" in nm):
            continue
        ty = body.local_ty(c.dest[0]) if not c.dest[1] else ""
        if DIAG not in (ty or ""):
            continue
        short = nm.split("::")[-1]
        k[short] = k.get(short, 0) + 1
        inst = "LspProject::semantic|%s#%d" % (short, k[short])
        where = loc_str(body.f, c.loc)
        if short == "semantic" and ("Project" in nm):
            r.ok(inst, where, "the shared entry point")
            continue
        if units.result_reaches_return(ctx, b, body, c):
            r.finding(inst + "|second-producer", where, "problems produced by %s flow into what the server publishes: `check` does not report them (or reports them differently), so the two answers differ" % nm)
        else:
            r.ok(inst, where, "does not reach the returned problems")


def run(ctx, rep):
    rep.not_decided += ["equality of published content with a freshly started server", "equality of positions with `check` beyond the shared entry point",
                        "history independence beyond cache coherence and R-C06-hash (hash order depends on insertion history)"]
    rep.assumptions += ["lsp-types field names/types as compiled", "C06's hash-order rule covers the remaining history dependence"]
    rule_once(ctx, rep)
    rule_last(ctx, rep)
    rule_cache(ctx, rep)
    rule_same(ctx, rep)
    rule_stateless(ctx, rep)
    rule_keyorder(ctx, rep)
    rule_idorigin(ctx, rep)
    rule_scheme(ctx, rep)
    rule_doctext(ctx, rep)
    rule_nodedup(ctx, rep)
    rule_origin(ctx, rep)
    # one document, one entry: the key of the project's file table tells distinct paths apart and is ordered the same way in every history
    from rules.c06 import rule_types
    rule_types(ctx, rep, rid="R-C11-fileid")
    from rules import c06_globals
    c06_globals.run(ctx, rep, rid="R-C11-globals")
    from rules.c05 import rule_units
    rule_units(ctx, rep, rid="R-C11-units")
    # LspProject::semantic keeps a diagnostic only if one of its labels names the published file: spans must not lose their file id
    from rules.c05 import rule_join
    rule_join(ctx, rep, rid="R-C11-join")
    # ... and the range it publishes for that file is the range of a label that is in that file
    from rules.c05 import rule_doclabel
    rule_doclabel(ctx, rep, rid="R-C11-doclabel")
