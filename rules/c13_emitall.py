"""R-C13-emitall: handle_diagnostics renders every diagnostic it is given.

`check`/`echo`/`tokenize` count "a diagnostic was emitted" as soon as they call handle_diagnostics (R-C13-emit).  That is only true if
the function renders each element of its `diagnostics` slice: the call of `term::emit` sits in a loop / for_each that walks the
parameter itself (no filter, no grouping by some other collection) and is executed on every iteration."""
from vlib.mir import op_place, loc_str, norm

FN = "ironplcc::cli::handle_diagnostics"
ADAPT_OK = {"iter", "into_iter", "for_each", "enumerate", "by_ref", "deref", "as_ref", "as_slice", "borrow"}


def run(ctx, rep, rid="R-C13-emitall"):
    r = rep.rule(rid, "handle_diagnostics calls term::emit once for every element of its `diagnostics` parameter: the emitting loop walks the parameter "
                      "itself (iter/for_each only, no filtering or regrouping) and reaches the call on every iteration", floor=1)
    hb = ctx.prog.get(FN)
    if not hb:
        rep.error(rid, FN + " not found")
        return
    # a helper of cli.rs that writes one diagnostic (`for d in diagnostics { emit_diagnostic(d, ..) }`) is part of the function
    from vlib.inline import inlined
    b = inlined(ctx.prog, hb[0])
    where = "%s:%d" % (b.f["file"], b.f["line"])
    fam = [b] + [cb for cb in ctx.prog.bodies.values() if cb.f["dk"] == "Closure" and cb.f.get("parent") == b.id]
    emits = [(bd, c) for bd in fam for c in bd.calls() if c.callee == "codespan_reporting::term::emit"]
    if len(emits) != 1:
        r.finding("handle_diagnostics|emit-calls=%d" % len(emits), where, "expected exactly one term::emit call in handle_diagnostics")
        return
    bd, ec = emits[0]
    # (1) unconditional inside its body
    dom = bd.dominators()
    rets = [x for x in bd.returns() if x in bd.reachable(0)]
    if bd.f["dk"] == "Closure":
        if not all(ec.bb in dom.get(x, set()) or ec.bb == x for x in rets):
            r.finding("handle_diagnostics|emit-conditional", loc_str(bd.f, ec.loc), "inside the per-diagnostic closure term::emit is not reached on every path: some diagnostics are not rendered")
            return
        # (2) the closure is driven by an iteration over the parameter itself
        drivers = []
        for pb in fam:
            for i, j, s in pb.all_stmts():
                if s[0] == "=" and s[2][0] == "agg" and isinstance(s[2][1], dict) and s[2][1].get("k") == "closure" and norm(s[2][1].get("def") or "") == norm(bd.id):
                    for c in pb.calls():
                        if any(op_place(a) is not None and pb.root(op_place(a))[0] == s[1][0] for a in c.args):
                            drivers.append((pb, c))
        ok = False
        why = "the closure that emits is not passed to an iterator adaptor"
        for pb, c in drivers:
            nm = (c.callee or c.u or "").split("::")[-1]
            if nm != "for_each":
                why = "the emitting closure is driven by %s(), not by for_each over the diagnostics" % nm
                continue
            # receiver chain back to parameter 1 through harmless adaptors only
            cur = op_place(c.args[0])
            chain = []
            good = False
            for _ in range(6):
                if cur is None:
                    break
                rt = pb.root(cur)
                if pb is b and rt[0] == 1:
                    good = True
                    break
                d = pb.single_def(rt[0])
                if d and d[0] == "call" and d[2].args:
                    n2 = (d[2].callee or d[2].u or "").split("::")[-1]
                    chain.append(n2)
                    if n2 not in ADAPT_OK:
                        break
                    cur = op_place(d[2].args[0])
                else:
                    break
            if good:
                ok = True
            else:
                why = "the loop that emits does not walk the `diagnostics` parameter itself (chain: %s)" % (" <- ".join(chain) or "?")
        if ok:
            r.ok("handle_diagnostics|diagnostics.iter().for_each(emit)", loc_str(bd.f, ec.loc))
        else:
            r.finding("handle_diagnostics|emit-not-per-diagnostic", loc_str(bd.f, ec.loc), why + ": a diagnostic that belongs to none of the groups walked is never printed")
    else:
        # a plain loop in the function body: the loop's iterator must come from parameter 1 and the emit block must be on every way round
        from rules.c04_progress import natural_loops
        loops = natural_loops(bd)
        inner = [(h, body) for h, body in loops.items() if ec.bb in body]
        if not inner:
            r.finding("handle_diagnostics|emit-outside-loop", loc_str(bd.f, ec.loc), "term::emit is not inside a loop over the diagnostics")
            return
        h, body = min(inner, key=lambda t: len(t[1]))
        hc = bd.call_at(h) if bd.term(h)[0] == "call" else None
        good = False
        if hc and (hc.u or "").endswith("Iterator::next"):
            cur = op_place(hc.args[0])
            for _ in range(8):
                if cur is None:
                    break
                rt = bd.root(cur)
                if rt[0] == 1:
                    good = True
                    break
                d = bd.single_def(rt[0])
                if d and d[0] == "call" and d[2].args and (d[2].callee or d[2].u or "").split("::")[-1] in ADAPT_OK:
                    cur = op_place(d[2].args[0])
                elif d and d[0] == "stmt" and d[3][0] in ("use", "ref"):
                    cur = op_place(d[3][1]) if d[3][0] == "use" else d[3][2]
                else:
                    break
        # every way round passes the emit block
        seen, st, skip = set(), [s for s in bd.succ(h) if s in body], False
        while st:
            x = st.pop()
            if x in seen or x == ec.bb:
                continue
            seen.add(x)
            for s in bd.succ(x):
                if s == h:
                    skip = True
                elif s in body:
                    st.append(s)
        if good and not skip:
            r.ok("handle_diagnostics|for d in diagnostics { emit }", loc_str(bd.f, ec.loc))
        else:
            r.finding("handle_diagnostics|emit-not-per-diagnostic", loc_str(bd.f, ec.loc),
                      ("the loop that emits does not walk the `diagnostics` parameter itself" if not good else "an iteration can go round without emitting") +
                      ": some diagnostics are never printed")
