"""R-C13-dir: a directory argument is expanded to every entry read_dir yields, and every enumerated file is pushed."""
from vlib.mir import norm, loc_str, op_place, switch_info

DROPPING = ("filter", "take", "skip", "take_while", "skip_while", "step_by", "map_while", "nth", "last", "find", "find_map", "position")


def run(ctx, rep):
    r = rep.rule("R-C13-dir", "checking a directory is checking the list of its entries: the iterator chain from read_dir to the returned Vec only "
                              "drops unreadable entries (Err), and create_project pushes every enumerated path into the project", floor=7)
    eb = ctx.prog.get("ironplcc::cli::enumerate_files")
    cb = ctx.prog.get("ironplcc::cli::create_project")
    if not eb or not cb:
        rep.error("R-C13-dir", "enumerate_files / create_project not found")
        return
    # helpers of the same file are part of enumerate_files (`return files_in_directory(&path)`)
    from vlib.inline import inlined
    from vlib import units as _u
    FS = ("std::fs::read_dir", "std::fs::canonicalize", "std::fs::metadata", "std::fs::symlink_metadata")
    b = inlined(ctx.prog, eb[0], accept=lambda h: any((c.callee or "") in FS for _, c, _ in _u.calls_in_unit(ctx, h)))
    where = "%s:%d" % (b.f["file"], b.f["line"])
    rd = [c for c in b.calls() if c.callee == "std::fs::read_dir"]
    if len(rd) != 1:
        r.finding("enumerate_files|read_dir-calls=%d" % len(rd), where, "expected exactly one read_dir")
        return
    # one spelling per file: the directory that is listed and the file that is returned are the *canonical* path - a file reached
    # as a directory member and as an argument of its own must get the same name (the project de-duplicates by that text)
    canon = [c for c in b.calls() if c.callee == "std::fs::canonicalize"]
    tainted = set()
    if canon:
        tainted = {canon[0].dest[0]}
        grew = True
        while grew:
            grew = False
            for i, j, st in b.all_stmts():
                if st[0] == "=" and not st[1][1] and st[1][0] not in tainted:
                    srcs = []
                    rv = st[2]
                    if rv[0] in ("use", "cast"):
                        srcs = [op_place(rv[1] if rv[0] == "use" else rv[2])]
                    elif rv[0] == "ref":
                        srcs = [rv[2]]
                    if any(sp is not None and sp[0] in tainted for sp in srcs):
                        tainted.add(st[1][0])
                        grew = True
            for c in b.calls():
                if c.dest[0] not in tainted and not c.dest[1] and any(op_place(a) is not None and op_place(a)[0] in tainted for a in c.args) \
                        and (c.callee or c.u or "").split("::")[-1] in ("branch", "map_err", "deref", "as_ref", "borrow", "as_path", "clone", "to_path_buf", "unwrap", "into", "from"):
                    tainted.add(c.dest[0])
                    grew = True
    ra = op_place(rd[0].args[0]) if rd[0].args else None
    if canon and ra is not None and (ra[0] in tainted or b.root(ra)[0] in tainted):
        r.ok("enumerate_files|read_dir lists the canonical path", loc_str(b.f, rd[0].loc))
    else:
        r.finding("enumerate_files|read_dir-of-uncanonical-path", loc_str(b.f, rd[0].loc),
                  "the directory is listed under the spelling the user typed while file arguments are canonicalised: the same file gets two names "
                  "(`check d1 d1/a.st` loads a.st twice and reports a duplicate declaration)")
    # follow the value: read_dir -> (map_err/?/into_iter) -> adapters -> collect
    chain = []
    cur = rd[0].dest[0]
    seen = set()
    for _ in range(12):
        nxt = [c for c in b.calls() if c.bb not in seen and c.args and op_place(c.args[0]) is not None and b.root(op_place(c.args[0]))[0] == cur]
        if not nxt:
            break
        c = sorted(nxt, key=lambda c: c.bb)[0]
        seen.add(c.bb)
        chain.append(c)
        cur = c.dest[0]
        if (c.callee or "").endswith("Iterator::collect"):
            break
    names = [(c.callee or "").split("::")[-1] for c in chain]
    bad = [n for n in names if n in DROPPING]
    if not names or names[-1] != "collect":
        r.finding("enumerate_files|chain:" + ">".join(names), where, "cannot follow the entries from read_dir to the returned vector")
    elif bad:
        r.finding("enumerate_files|dropping-adapter:" + ",".join(bad), where, "directory entries pass through %s: some files of the directory are not checked" % bad)
    else:
        r.ok("enumerate_files|chain:" + ">".join(names), where)
    # the filter_map closure: the Ok arm always yields Some
    for c in chain:
        if (c.callee or "").endswith("Iterator::filter_map"):
            p = op_place(c.args[1])
            d = b.single_def(p[0]) if p and not p[1] else None
            clos = []
            if d and d[0] == "stmt" and d[3][0] == "agg" and d[3][1].get("k") == "closure":
                clos = ctx.prog.get(norm(d[3][1]["def"]))
            else:
                # the closure written as a named function (`filter_map(file_in_directory)`)
                k0 = b.const_of(c.args[1])
                if k0 is not None and len(k0) > 3 and isinstance(k0[3], dict) and k0[3].get("rfn"):
                    clos = ctx.prog.get(norm(k0[3]["rfn"]))
            if clos:
                for clo in clos:
                    ok = False
                    filetest = False
                    for i in sorted(clo.reachable(0)):
                        si = switch_info(clo, i)
                        if si and si["kind"] == "disc" and si.get("adt") == "core::result::Result":
                            for succ, labs in si["edges"].items():
                                if labs == ["Ok"]:
                                    other = [s for s, l in si["edges"].items() if l != ["Ok"]]
                                    region = clo.reachable(succ, avoid=set(other))
                                    # branches on the Ok arm: only "is this entry a file?" may decide whether the entry is kept
                                    foreign = []
                                    for bi in sorted(region):
                                        if clo.term(bi)[0] != "switch":
                                            continue
                                        s2 = switch_info(clo, bi)
                                        if s2 and s2.get("adt") == "core::result::Result":
                                            continue
                                        if s2 and s2["kind"] == "bool" and s2["subject"][0] == "call" and (s2["subject"][1].callee or "").endswith("::is_file"):
                                            filetest = True
                                            continue
                                        if s2 and s2["kind"] == "bool" and s2["subject"][0] == "place" and not s2["subject"][1][1]:
                                            ds = clo.defs.get(s2["subject"][1][0], [])
                                            if ds and all(d_[0] == "stmt" and d_[3][0] == "use" and d_[3][1][0] == "c" for d_ in ds):
                                                continue        # a drop flag (only ever assigned constants): drop elaboration, not a decision
                                        foreign.append(bi)
                                    somes = [1 for bi, _, s in clo.all_stmts() if bi in region and s[0] == "=" and s[2][0] == "agg" and s[2][1].get("adt") == "core::option::Option" and s[2][1]["variant"] == "Some"]
                                    nones = [bi for bi, _, s in clo.all_stmts() if bi in region and s[0] == "=" and s[2][0] == "agg" and s[2][1].get("adt") == "core::option::Option" and s[2][1]["variant"] == "None"]
                                    ok = bool(somes) and not foreign and (filetest or not nones)
                            break
                    inst = "enumerate_files|filter_map keeps every readable file"
                    if ok:
                        r.ok(inst, where, "the only test on a readable entry is is_file()" if filetest else "no test on a readable entry")
                    else:
                        r.finding("enumerate_files|filter_map-drops-entries", where, "the filter_map closure can return None for a readable file of the directory (a test other than is_file() decides)")
                    # one spelling per file also for members of a directory: the entry that is kept is canonicalised (a link to a file of the
                    # same directory must name the same file, as it does when both are given as arguments)
                    canon_e = [c2 for c2 in clo.calls() if (c2.callee or "") == "std::fs::canonicalize"]
                    canon_e += [c2 for cb2 in ctx.prog.bodies.values() if cb2.f["dk"] == "Closure" and cb2.f.get("parent") == b.id for c2 in cb2.calls()
                                if (c2.callee or "") == "std::fs::canonicalize" and cb2.id != clo.id and False]
                    if canon_e:
                        r.ok("enumerate_files|listed entries are canonicalised", where)
                    else:
                        r.finding("enumerate_files|entries-not-canonical", where, "the entries of a directory are returned under their directory spelling while file arguments are canonicalised: "
                                  "a directory holding a.st and a link b.st -> a.st loads the file twice (P0019), `check dir/a.st dir/b.st` loads it once")
                    # "the files in it": an entry that is not a file (a sub-directory) is not a source
                    if filetest:
                        r.ok("enumerate_files|only files are listed", where, "entries are kept on the true edge of is_file()")
                    else:
                        r.finding("enumerate_files|entries-not-files", where, "every readable entry of the directory is returned as a source file, directories included: `check dir` fails with P0026 "
                                  "on a sub-directory while `check` of the files in it succeeds")
    # an argument only fails for a failure of the file system: every other outcome of enumerate_files is a (possibly empty) list of files.
    # create_project turns one Err into a failure of the whole run, so an Err for "nothing found here" makes `check good emptydir` fail
    # while the list of the files of both directories checks OK.
    dom = b.dominators()
    k = 0
    for c in sorted(b.calls(), key=lambda c: (c.loc[0], c.loc[1])):
        if (c.callee or "") != "ironplcc::cli::diagnostic":
            continue
        k += 1
        guarded = False
        for d_ in dom.get(c.bb, set()):
            si = switch_info(b, d_)
            if si and si["kind"] == "bool" and si["subject"][0] == "call" and (si["subject"][1].callee or "").endswith("::is_symlink"):
                for succ, labs in si["edges"].items():
                    if labs == [True] and (succ == c.bb or succ in dom.get(c.bb, set())):
                        guarded = True
        inst = "enumerate_files|Err outside a file-system failure#%d" % k
        if guarded:
            r.ok("enumerate_files|Err for a symlink that cannot be followed", loc_str(b.f, c.loc))
        else:
            r.finding(inst, loc_str(b.f, c.loc), "enumerate_files returns an error that is not the failure of a file-system call: an argument that merely contributes no file "
                      "(an empty directory) fails the whole run, although checking the list of the files of all arguments succeeds")
    # create_project: the loop over the enumerated files pushes each one
    from rules.c13 import with_helpers
    p = with_helpers(ctx, cb[0])
    from vlib import units
    pushes = [(bd, c) for bd, c, site in units.calls_in_unit(ctx, p) if c.callee == "ironplcc::project::FileBackedProject::push"]
    pw = "%s:%d" % (p.f["file"], p.f["line"])
    if len(pushes) == 1:
        bd, c = pushes[0]
        ok, how = units.visits_every_item(ctx, p, bd, c)
        if ok and bd is p:
            # the push must lie in the loop over `files` with no branch between the iterator's next() Some arm and the push
            ok = False
            nexts = [x for x in p.calls() if (x.callee or "").endswith("Iterator>::next") and x.bb in p.dominators().get(c.bb, set())]
            for nx in nexts:
                si = switch_info(p, nx.target) if nx.target is not None else None
                if si and si["kind"] == "disc":
                    for succ, labs in si["edges"].items():
                        if labs == ["Some"]:
                            path_blocks = [bb for bb in p.reachable(succ) if bb in p.dominators().get(c.bb, set()) or bb == c.bb]
                            cond = [bb for bb in path_blocks if p.term(bb)[0] == "switch" and bb != nx.target]
                            if not cond:
                                ok = True
        if ok:
            r.ok("create_project|pushes every enumerated file", pw, how)
        else:
            r.finding("create_project|conditional-push", pw, "an enumerated file can be skipped before it is pushed into the project (%s)" % how)
    else:
        r.finding("create_project|push-calls=%d" % len(pushes), pw, "expected exactly one FileBackedProject::push in create_project and its closures")
