"""Triage of panic-capable sites that no structural argument in rules/panics.py discharges.

key -> reason.  These are *invariants argued by reading*, trusted and listed verbatim in the evidence.
Sites that are neither auto-discharged, nor listed here, nor a known finding are violations.
Keys carry no line numbers: <function>|<kind>#<ordinal within that function, in source order>.
"""
P = "ironplc_parser::"
D = "ironplc_dsl::"
TRIAGE = {
    # --- generated code -----------------------------------------------------------------------------
    "generated:peg|assert:Overflow:Add": "peg-generated position/repeat counters, bounded by the token count",
    "generated:peg|assert:Overflow:Sub": "peg-generated counters, only decremented after an increment",
    "generated:peg|call:std::panicking::begin_panic": "peg's internal `Parser is nondeterministic` guard: reparse-on-error of a pure grammar over the same tokens takes the same path",
    "generated:logos|assert:BoundsCheck": "logos-generated lookup tables indexed by a byte (tables have 256 entries)",
    # --- parser -------------------------------------------------------------------------------------
    "<" + P + "parser::SliceByRef<'a, T> as peg_runtime::ParseElem<'a>>::parse_elem|assert:Overflow:Add#1":
        "pos+1 where first() of self.0[pos..] returned Some, so pos < len <= isize::MAX",
    "<" + P + "parser::SliceByRef<'a, T> as peg_runtime::ParseElem<'a>>::parse_elem|call:core::slice::index::index#1":
        "peg only passes positions it obtained from start() (0) or from a previous Matched(pos+1), so pos <= len",
    P + "parser::parse_library::{closure#0}|assert:Overflow:Sub#1":
        "peg reports the failure position of `[t]` after the element: location 0 can only be an EOF failure on an empty token list, and the empty list parses",
    P + "parser::parse_library::{closure#0}|call:core::option::Option::unwrap#1":
        "location <= tokens.len() and >= 1 (see previous entry), so get(location-1) is Some",
    # remove_oscat_comment after fix (every block, not only the first): `rest` is the text still to be copied; positions are found in it
    P + "preprocessor::remove_oscat_comment|assert:Overflow:Add#1": "text_start = find(start_key) + start_key.len(): the end of the match, <= rest.len()",
    P + "preprocessor::remove_oscat_comment|assert:Overflow:Add#2": "text_end = text_start + (position of end_key found in rest[text_start..]): <= rest.len()",
    P + "preprocessor::remove_oscat_comment|assert:Overflow:Add#3": "text_end + end_key.len(): the end of the match of end_key at text_end, <= rest.len()",
    P + "preprocessor::remove_oscat_comment|call:core::str::traits::index#1":
        "rest[text_start..]: text_start is the end of the match of start_key found by find() in rest (R-C04-samestr: same text): in bounds, on a char boundary",
    P + "preprocessor::remove_oscat_comment|call:core::str::traits::index#2":
        "rest[..text_start]: same offset as #1",
    P + "preprocessor::remove_oscat_comment|call:core::str::traits::index#3":
        "rest[text_start..text_end]: text_end is text_start plus a position found in rest[text_start..], so text_start <= text_end <= rest.len() and both are boundaries",
    P + "preprocessor::remove_oscat_comment|call:core::str::traits::index#4":
        "rest[text_end + end_key.len()..]: the end of the match of end_key that find() located at text_end",
    P + "lexer::tokenize|assert:Overflow:Add#1": "line/column counters are bounded by the input length (< isize::MAX)",
    P + "lexer::tokenize|assert:Overflow:Add#2": "line/column counters are bounded by the input length",
    P + "lexer::tokenize|assert:Overflow:Add#3": "line/column counters are bounded by the input length",
    P + "lexer::tokenize|assert:Overflow:Add#4": "line/column counters are bounded by the input length",
    P + "lexer::tokenize|assert:Overflow:Add#5": "line/column counters are bounded by the input length",
    P + "lexer::tokenize|assert:Overflow:Add#6": "line/column counters are bounded by the input length",
    # --- dsl ----------------------------------------------------------------------------------------
    "<" + D + "common::AddressAssignment as core::convert::TryFrom<&str>>::try_from|call:<regex::regex::string::Captures<'h> as core::ops::index::Index<usize>>::index[1]#1":
        "group 1 of DIRECT_ADDRESS_UNASSIGNED is not optional: it participates in every match",
    "<" + D + "common::AddressAssignment as core::convert::TryFrom<&str>>::try_from|call:<regex::regex::string::Captures<'h> as core::ops::index::Index<usize>>::index[1]#2":
        "group 1 of DIRECT_ADDRESS is not optional",
    "<" + D + "common::AddressAssignment as core::convert::TryFrom<&str>>::try_from|call:<regex::regex::string::Captures<'h> as core::ops::index::Index<usize>>::index[3]#1":
        "group 3 of DIRECT_ADDRESS is not optional",
    D + "common::FixedPoint::parse|call:alloc::str::repeat#1": "argument is 15 - len with len <= 15 (guard verified for the subtraction): at most 15 copies of a 1-byte string",
    D + "time::DurationLiteral::days|call:<time::duration::Duration as core::ops::arith::Add>::add#1":
        "Duration::days(x) returned, so x*86400 <= i64::MAX s with >= 0 s slack and sub-second part 0; the fraction term is Duration::microseconds(v) with v < 86400 (< 1 s): a whole-second value plus a sub-second value stays in range",
    D + "time::DurationLiteral::hours|call:<time::duration::Duration as core::ops::arith::Add>::add#1": "as for days (fraction term < 3600 us)",
    D + "time::DurationLiteral::minutes|call:<time::duration::Duration as core::ops::arith::Add>::add#1": "as for days (fraction term < 60 us)",
    D + "time::DurationLiteral::seconds|call:<time::duration::Duration as core::ops::arith::Add>::add#1":
        "seconds(i64) + nanoseconds(< 10^9): time::Duration holds i64 seconds plus a sub-second part, the sum of a whole-second value and a sub-second value never leaves the range (checked on the binary with T#9223372036854775807.5s)",
    D + "time::DurationLiteral::milliseconds|call:<time::duration::Duration as core::ops::arith::Add>::add#1": "seconds(whole/1000) with whole/1000 < 2^54, plus < 1 s: far inside the range",
    D + "time::DurationLiteral::milliseconds|call:<time::duration::Duration as core::ops::arith::Add>::add#2": "as #1",
    # --- analyzer -----------------------------------------------------------------------------------
    "ironplc_analyzer::xform_toposort_declarations::DeclarationsGraph::sorted_ids::{closure#1}|call:core::option::Option::unwrap#1":
        "every NodeIndex in the graph was created by add_node, which records it in index_to_id in the same call",
    # --- renderer -----------------------------------------------------------------------------------
    "ironplc_plc2plc::renderer::LibraryRenderer::indent|assert:Overflow:Add#1": "indent depth is bounded by the AST depth",
    "ironplc_plc2plc::renderer::LibraryRenderer::outdent|assert:Overflow:Sub#1": "discharged by rule R-C04-pair (indent/outdent are balanced and never negative on any path) - re-verified on every run",
    "ironplc_plc2plc::renderer::LibraryRenderer::write_ws|call:alloc::str::repeat#1": "3-byte string repeated `indents` times, indents bounded by the AST depth",
    # --- plc2x --------------------------------------------------------------------------------------
    "ironplcc::source::Source::library|call:core::panicking::panic#1": "`todo!()` in the None arm of a match on self.library, which was assigned Some(..) if it was None two statements earlier (rule R-C04-pair style dominance re-verified as R-C04-assigned)",
}
