"""C14 — File encoding is transparent (DESIGN.md §3 C14): bytes are seen by one function, decoded by the BOM-sniffing API
with the documented cascade, and every string slice downstream is triaged."""
import re
from vlib.mir import norm, loc_str, op_place, switch_info, loc_macro, rvalue_operands
from vlib.facts import PRODUCT
from rules import panics
from rules.c04 import entry_bodies

BYTE_READERS = ("std::fs::read", "std::fs::read_to_string", "std::fs::File::open", "std::io::Read::read_to_end", "std::io::Read::read_to_string",
                "std::io::Read::read", "std::io::BufRead::read_line", "std::io::BufRead::lines", "std::fs::OpenOptions::open", "std::io::stdio::stdin")
LOSSY = ("alloc::string::String::from_utf8_lossy", "alloc::string::String::from_utf8", "core::str::converts::from_utf8", "core::str::converts::from_utf8_unchecked",
         "alloc::string::String::from_utf8_unchecked", "alloc::string::String::from_utf16", "alloc::string::String::from_utf16_lossy",
         "encoding_rs::Encoding::decode_without_bom_handling", "encoding_rs::Encoding::decode_without_bom_handling_and_without_replacement",
         "encoding_rs::Encoding::decode_with_bom_removal", "encoding_rs::mem::decode_latin1", "encoding_rs::mem::convert_latin1_to_utf8")

SLICE_TRIAGE = {
    "ironplcc::lsp_project::map_label|call:core::str::traits::index#1": "offset is label.location.start of a diagnostic computed by semantic() over the current text of the same Source (R-C11-cache); spans are token byte offsets = char boundaries of that text",
    "ironplcc::lsp_project::map_label|call:core::str::traits::index#2": "same start offset as #1 on both ends",
    "ironplc_parser::preprocessor::remove_oscat_comment|call:core::str::traits::index#1": "starts at the end of the start marker that find() located in this text (position + marker length; R-C14-samestr)",
    "ironplc_parser::preprocessor::remove_oscat_comment|call:core::str::traits::index#2": "ends at that same offset",
    "ironplc_parser::preprocessor::remove_oscat_comment|call:core::str::traits::index#3": "from the end of the start marker to the start of the end marker found in the rest of this text",
    "ironplc_parser::preprocessor::remove_oscat_comment|call:core::str::traits::index#4": "starts at the end of the end marker (position + marker length)",
}


def rule_single(ctx, rep):
    r = rep.rule("R-C14-single", "source bytes are read by exactly one function (source::path_to_source); everything downstream takes &str, so it "
                                 "depends on the decoded text only", floor=1, floor_what="byte-reading call sites in product code")
    n = 0
    for b in sorted(ctx.prog.bodies.values(), key=lambda x: x.id):
        if b.f["crate"] not in PRODUCT:
            continue
        for c in b.calls():
            cal = c.callee or ""
            if cal in BYTE_READERS or cal in LOSSY:
                n += 1
                fn = norm(b.id)
                inst = "%s|%s" % (fn, cal)
                if fn.startswith("ironplcc::source::path_to_source") and cal == "std::fs::read":
                    r.ok(inst, loc_str(b.f, c.loc))
                elif fn.startswith("ironplcc::logger::"):
                    r.ok(inst, loc_str(b.f, c.loc), "log file, not a source")
                else:
                    r.finding(inst, loc_str(b.f, c.loc), "file contents are read/decoded outside source::path_to_source: this path bypasses the decoder cascade")


def decoding_unit(ctx):
    """path_to_source, its closures, and the helpers of source.rs they call (with their closures): the code between reading the file and
    returning its text, however it is split into functions.  `diagnostic` only builds the error value."""
    pb = ctx.prog.get("ironplcc::source::path_to_source")
    if not pb:
        return []
    unit = [pb[0]]
    seen = {pb[0].id}
    i = 0
    while i < len(unit):
        b = unit[i]
        i += 1
        for cb in ctx.prog.bodies.values():
            if cb.f.get("parent") == b.id and cb.id not in seen:
                seen.add(cb.id)
                unit.append(cb)
        for c in b.calls():
            nm = norm(c.callee or "")
            if nm.startswith("ironplcc::source::") and nm != "ironplcc::source::diagnostic" and "::test" not in nm:
                for h in ctx.prog.get(nm):
                    if h.id not in seen and h.f.get("file") == pb[0].f.get("file") and h.f.get("dk") != "Closure":
                        seen.add(h.id)
                        unit.append(h)
    return unit


def rule_api(ctx, rep):
    r = rep.rule("R-C14-api", "path_to_source decodes with encoding_rs::Encoding::decode (BOM sniffing: UTF-8/UTF-16LE/BE BOM honoured and removed) over the "
                              "cascade [UTF_8, WINDOWS_1252] in that order and accepts a decoder's output only when had_errors is false", floor=3)
    pb = ctx.prog.get("ironplcc::source::path_to_source")
    if not pb:
        rep.error("R-C14-api", "path_to_source not found")
        return
    b = pb[0]
    where = "%s:%d" % (b.f["file"], b.f["line"])
    decoders = []
    for i, j, s in b.all_stmts():
        if s[0] == "=" and s[2][0] == "agg" and s[2][1].get("k") == "array" and "encoding_rs::Encoding" in s[2][1].get("ty", ""):
            for o in s[2][2]:
                k = b.const_of(o)
                if k is None:
                    p = op_place(o)
                    d = b.single_def(p[0]) if p else None
                    if d and d[0] == "stmt" and d[3][0] in ("use", "ref"):
                        src = d[3][1] if d[3][0] == "use" else ["cp", d[3][2]]
                        k = b.const_of(src)
                decoders.append(k[3].get("static") if k and len(k) > 3 and isinstance(k[3], dict) else "?")
    if not decoders:
        # the cascade hoisted into a constant (`const DECODERS: [&Encoding; 2] = [UTF_8, WINDOWS_1252];`): the operand is the constant's
        # name; its initializer is read from the source of the file (a constant item has no MIR body in the fact base)
        import os
        from vlib import facts as FF
        names = set()
        for bd in decoding_unit(ctx):
            for _, _, o in bd.operands():
                if o[0] == "c" and "encoding_rs::Encoding;" in o[1].replace(" ", "").replace("Encoding;", "Encoding;") and o[2].startswith("ironplcc::source::"):
                    names.add(o[2].split("::")[-1])
        try:
            text = open(os.path.join(FF.WS, b.f["file"]), encoding="utf-8").read()
        except OSError:
            text = ""
        for nm_ in sorted(names):
            m_ = re.search(r"(?:const|static)\s+%s\s*:\s*\[[^\]]*\]\s*=\s*\[([^\]]*)\]\s*;" % re.escape(nm_), text)
            if m_:
                decoders = ["encoding_rs::" + x.strip().split("::")[-1] for x in m_.group(1).split(",") if x.strip()]
    if decoders == ["encoding_rs::UTF_8", "encoding_rs::WINDOWS_1252"]:
        r.ok("cascade|UTF_8 then WINDOWS_1252", where)
    else:
        r.finding("cascade|%s" % ",".join(str(x).split("::")[-1] for x in decoders), where, "decoder cascade is %s, expected [UTF_8, WINDOWS_1252]" % decoders)
    dec = [(cb, c) for cb in decoding_unit(ctx) for c in cb.calls() if (c.callee or "").startswith("encoding_rs::")]
    api = [c.callee for _, c in dec if c.callee not in ("encoding_rs::Encoding::name",)]
    if api == ["encoding_rs::Encoding::decode"]:
        r.ok("decode-api|Encoding::decode (BOM sniffing)", where)
    else:
        r.finding("decode-api|%s" % ",".join(a.split("::")[-1] for a in api), where, "decoding uses %s instead of exactly one Encoding::decode" % api)
    # had_errors gate: in the closure, the bool component of decode's result decides whether Some(..) is returned
    ok = False
    for cb, c in dec:
        if c.callee != "encoding_rs::Encoding::decode":
            continue
        for i in sorted(cb.reachable(0)):
            si = switch_info(cb, i)
            if si and si["kind"] == "bool" and si["subject"][0] == "place":
                rt = si["subject"][1]
                fl = [x[2] for x in rt[1] if isinstance(x, list) and x[0] == "f"]
                if rt[0] == c.dest[0] and fl == ["2"]:
                    # the `true` edge must lead to None, the false edge to Some
                    for succ, lab in si["edges"].items():
                        region = cb.reachable(succ)
                        somes = [1 for (bi, _, s) in cb.all_stmts() if bi in region and s[0] == "=" and s[2][0] == "agg" and s[2][1].get("adt") == "core::option::Option" and s[2][1]["variant"] == "Some"]
                        if lab == [True] and not somes:
                            ok = True
    if ok:
        r.ok("had_errors gates acceptance", where)
    else:
        r.finding("had_errors|not-tested", where, "a decoder's output can be accepted although it reported errors (or the test was not recognised)")


def rule_slice(ctx, rep):
    r = rep.rule("R-C14-slice", "every str/String range-index site reachable from check/tokenize/echo and the LSP handlers is triaged: offsets come from "
                                "find() results or from spans of the same text", floor=5, floor_what="string slice sites")
    entries = entry_bodies(ctx, rep, ["ironplcc::cli::check", "ironplcc::cli::echo", "ironplcc::cli::tokenize", "ironplcc::lsp::LspServer::run"])
    sites, reach = panics.inventory(ctx, entries)
    from rules.c04 import _moved_from
    pending = []
    matched = set()
    for s in sorted(sites, key=lambda s: s.key or ""):
        if s.generated or s.call is None:
            continue
        cal = s.call.callee
        is_str = cal in ("core::str::traits::index",) or cal.startswith("<alloc::string::String as core::ops::index::Index") or cal in ("core::str::split_at", "alloc::string::String::truncate", "alloc::string::String::split_off", "alloc::string::String::drain", "alloc::string::String::replace_range", "alloc::string::String::insert", "alloc::string::String::remove")
        if not is_str:
            continue
        why = panics.auto_discharge(s)
        if why:
            r.justified(s.key, "auto: " + why, s.where)
        elif s.key in SLICE_TRIAGE:
            matched.add(s.key)
            r.justified(s.key, "invariant: " + SLICE_TRIAGE[s.key], s.where)
        else:
            pending.append(s)
    # a triaged construct that moved (String -> &str parameter, extracted helper): the justification is about the construct; it is re-bound in
    # source order to the entries of the same kind and function that no longer match anything (same protocol as the panic inventory)
    stale = [k for k in SLICE_TRIAGE if k not in matched]
    for s in sorted(pending, key=lambda s: (s.where, s.key)):
        k = _moved_from(ctx, s, stale)
        if k is not None:
            stale.remove(k)
            r.justified(s.key, "invariant (entry %s, construct moved): %s" % (k, SLICE_TRIAGE[k]), s.where)
        else:
            r.finding(s.key, s.where, "string slicing at an offset whose char-boundary/in-bounds status is not established: non-ASCII input can panic here")
    # map_label's arguments really are a label of the current semantic() result
    mb = ctx.prog.get("ironplcc::lsp_project::map_label")
    if mb:
        b = mb[0]
        idx = [c for c in b.calls() if c.callee == "core::str::traits::index"]
        ok = bool(idx)
        for c in idx:
            p = op_place(c.args[1])
            d = b.single_def(p[0]) if p and not p[1] else None
            good = False
            if d and d[0] == "stmt" and d[3][0] == "agg" and "Range" in (d[3][1].get("adt") or ""):
                good = True
                for o in d[3][2]:
                    k = panics._int_const(b, o)
                    if k is not None:
                        continue
                    pp = op_place(o)
                    rt = b.root(pp) if pp else None
                    fl = [x[2] for x in rt[1] if isinstance(x, list) and x[0] == "f"] if rt else []
                    if not (rt and rt[0] == 1 and fl[:1] == ["location"]):
                        good = False
            ok = ok and good
        if ok:
            r.ok("lsp_project::map_label|slice bounds are label.location fields or 0", "%s:%d" % (b.f["file"], b.f["line"]))
        else:
            r.finding("lsp_project::map_label|slice-bounds", "%s:%d" % (b.f["file"], b.f["line"]), "slice bounds are not the label's own location fields")


def _str_root(b, op, depth=6):
    """the string a &str operand stands for: follows borrows, moves and Deref::deref / as_str / String::deref calls"""
    p = op_place(op)
    for _ in range(depth):
        if p is None:
            return None
        rt = b.root(p)
        if rt[0] <= b.f["argc"]:
            return (rt[0], tuple(x[2] for x in rt[1] if isinstance(x, list) and x[0] == "f"))
        d = b.single_def(rt[0])
        if d and d[0] == "call" and (d[2].callee or d[2].u or "").split("::")[-1] in ("deref", "as_str", "borrow", "as_ref", "deref_mut", "as_mut_str") and d[2].args:
            p = op_place(d[2].args[0])
            continue
        return (rt[0], tuple(x[2] for x in rt[1] if isinstance(x, list) and x[0] == "f"))
    return None


def rule_samestr(ctx, rep, rid="R-C14-samestr"):
    """An offset found in one string is only meaningful in that string.  (The frozen justifications of the slice inventory say "offset
    returned by find()"; this rule checks the part they silently assume: find() ran on the very string that is cut.)"""
    from vlib.numflow import slice_of
    r = rep.rule(rid, "byte offsets are used on the string they were found in: for every string range-index whose bounds come from "
                                  "find/rfind/len/char_indices, the searched/measured string is the sliced string itself (not a transformed copy)",
                 floor=3, floor_what="slice sites with searched offsets")
    n = 0
    for b in sorted(ctx.prog.bodies.values(), key=lambda x: x.id):
        if b.f["crate"] not in PRODUCT or "::test" in norm(b.id):
            continue
        k = 0
        for c in sorted(b.calls(), key=lambda c: (c.loc[0], c.loc[1])):
            cal = c.callee or ""
            if not (cal == "core::str::traits::index" or cal.startswith("<alloc::string::String as core::ops::index::Index")) or len(c.args) < 2:
                continue
            if loc_macro(c.loc):
                continue
            sl = slice_of(ctx.prog, b, c.args[1])
            searched = [(bb, cc) for bb, cc in sl.calls if (cc.callee or cc.u or "").split("::")[-1] in
                        ("find", "rfind", "len", "char_indices", "match_indices", "rmatch_indices", "find_map", "position") and bb is b]
            if not searched:
                continue
            k += 1
            n += 1
            tgt = _str_root(b, c.args[0])
            inst = "%s|index#%d" % (norm(b.id), k)
            bad = []

            def same_text(op_):
                """the operand is the sliced string or a part of it (`s[a..]`): offsets in a part, moved by where the part starts, are
                offsets in the whole"""
                if _str_root(b, op_) == tgt:
                    return True
                p_ = op_place(op_)
                for _ in range(3):
                    if p_ is None:
                        return False
                    d_ = b.single_def(b.root(p_)[0])
                    if d_ and d_[0] == "call" and ((d_[2].callee or "") == "core::str::traits::index" or (d_[2].callee or "").startswith("<alloc::string::String as core::ops::index::Index")) and d_[2].args:
                        if _str_root(b, d_[2].args[0]) == tgt:
                            return True
                        p_ = op_place(d_[2].args[0])
                        continue
                    return False
                return False
            # the needles of the searches in this very text: position + needle.len() is where the match ends, a boundary of the text
            needles = {_str_root(b, cc.args[1]) for bb, cc in searched if (cc.callee or cc.u or "").split("::")[-1] in ("find", "rfind") and len(cc.args) > 1 and same_text(cc.args[0])}
            for bb, cc in searched:
                src = _str_root(b, cc.args[0]) if cc.args else None
                if cc.args and same_text(cc.args[0]):
                    continue
                if (cc.callee or cc.u or "").split("::")[-1] == "len" and src is not None and src in needles:
                    continue
                if src != tgt:
                    bad.append("%s() at line %d ran on %s, the slice cuts %s" % ((cc.callee or cc.u).split("::")[-1], cc.loc[0],
                                                                                 _nm(b, src), _nm(b, tgt)))
            if bad:
                r.finding(inst + "|offset-from-other-string", loc_str(b.f, c.loc), "; ".join(sorted(set(bad))) +
                          ": offsets of a different (e.g. case-converted) text need not be char boundaries of this one")
            else:
                r.ok(inst, loc_str(b.f, c.loc), "offsets searched in %s" % _nm(b, tgt))
    r.note("%d slice sites with searched offsets" % n)


def _nm(b, root):
    if root is None:
        return "?"
    n = b.local_name(root[0]) or "_%d" % root[0]
    return n + "".join("." + f for f in root[1])


def rule_rawbytes(ctx, rep, rid="R-C14-rawbytes"):
    """The decoders must see the file's bytes, all of them and nothing else: an edit of the byte buffer before decoding acts on one
    encoding's byte patterns (a byte-wise strip of a trailing character is right for one-byte encodings and cuts a UTF-16 unit in
    half).  In path_to_source and its closures: the buffer read from the file (every Vec<u8>) is never borrowed mutably, and
    the operand of decode() is that buffer through Deref alone (no slicing, trimming or copying call in between)."""
    r = rep.rule(rid, "path_to_source hands the bytes it read to the decoders unmodified: no mutable use of the byte buffer, and decode()'s input is the "
                      "whole buffer (reached through Deref only)", floor=2, floor_what="byte buffer uses + decode operands")
    bodies = decoding_unit(ctx)
    if not bodies:
        rep.error(rid, "path_to_source not found")
        return
    n = 0

    def param_is_whole_buffer(h, param, depth=2):
        """the byte-slice parameter of a helper is the whole buffer at every call of the helper inside the unit"""
        sites_ = [(b2, c2) for b2 in bodies for c2 in b2.calls() if norm(c2.callee or "") == norm(h.id) and len(c2.args) >= param]
        if not sites_ or depth == 0:
            return False
        for b2, c2 in sites_:
            vecs2 = {l for l, (ty, name) in enumerate(b2.f["locals"]) if re.sub(r"\s", "", ty) in ("alloc::vec::Vec<u8>", "alloc::vec::Vec<u8,alloc::alloc::Global>")}

            def is_buf2(place):
                rt = b2.root(place)
                if rt[0] in vecs2 and all(x == "*" for x in rt[1]):
                    return True
                fs = [x for x in rt[1] if isinstance(x, list) and x[0] == "f"]
                tail = rt[1][rt[1].index(fs[-1]) + 1:] if fs else []
                return bool(fs) and re.sub(r"\s", "", fs[-1][5] or "").replace("&", "") in ("alloc::vec::Vec<u8>",) and all(x == "*" for x in tail)
            p2 = op_place(c2.args[param - 1])
            d2 = b2.single_def(p2[0]) if p2 is not None and not p2[1] else None
            for _ in range(3):
                if d2 and d2[0] == "stmt" and d2[3][0] == "ref" and all(x == "*" for x in d2[3][2][1]):
                    d2 = b2.single_def(d2[3][2][0])
                else:
                    break
            if d2 and d2[0] == "call" and (d2[2].callee or d2[2].u or "").endswith("Deref>::deref") and d2[2].args and op_place(d2[2].args[0]) is not None and is_buf2(op_place(d2[2].args[0])):
                continue
            if p2 is not None:
                rt2 = b2.root(p2)
                if 1 <= rt2[0] <= b2.f["argc"] and all(x == "*" for x in rt2[1]) and b2.f.get("dk") != "Closure" and param_is_whole_buffer(b2, rt2[0], depth - 1):
                    continue
            return False
        return True
    for b in sorted(bodies, key=lambda x: x.id):
        fn = norm(b.id).replace("ironplcc::source::", "")
        vecs = {l for l, (ty, name) in enumerate(b.f["locals"]) if re.sub(r"\s", "", ty) in ("alloc::vec::Vec<u8>", "alloc::vec::Vec<u8,alloc::alloc::Global>")}

        def is_buf(place):
            if place[0] in vecs and all(x == "*" for x in place[1]):
                return True
            rt = b.root(place)
            if rt[0] in vecs:
                return True
            fs = [x for x in rt[1] if isinstance(x, list) and x[0] == "f"]
            # the place is a whole Vec<u8> wherever it lives (a captured variable, the payload of `read(path)?`)
            tail = rt[1][rt[1].index(fs[-1]) + 1:] if fs else []
            return bool(fs) and re.sub(r"\s", "", fs[-1][5] or "").replace("&", "") in ("alloc::vec::Vec<u8>",) and all(x == "*" for x in tail)
        k = 0
        for bb, kind, pl in b.place_uses():
            if kind == "mutref" and is_buf(pl):
                k += 1
                users = [c for c in b.calls() if c.bb >= bb and any(op_place(a) is not None and b.root(op_place(a)) == b.root(pl) for a in c.args)]
                who = (users[0].callee or users[0].u or "?").split("::")[-1] if users else "?"
                r.finding("%s|byte buffer modified#%d" % (fn, k), "%s:%d" % (b.f["file"], b.f["line"]), "the bytes read from the file are modified (%s) before they are decoded: "
                          "the edit assumes one encoding's byte patterns and changes what the other decoders see" % who)
        if vecs and not k:
            n += 1
            r.ok("%s|byte buffer" % fn, "%s:%d" % (b.f["file"], b.f["line"]), "no mutable use")
        for c in b.calls():
            if (c.callee or "") != "encoding_rs::Encoding::decode":
                continue
            n += 1
            p = op_place(c.args[1]) if len(c.args) > 1 else None
            d = b.single_def(p[0]) if p is not None and not p[1] else None
            for _ in range(3):      # reborrows `_a = &*_b` between the Deref call and the operand
                if d and d[0] == "stmt" and d[3][0] == "ref" and all(x == "*" for x in d[3][2][1]):
                    d = b.single_def(d[3][2][0])
                else:
                    break
            via = None
            if d and d[0] == "call":
                via = d[2].callee or d[2].u or "?"
                src = op_place(d[2].args[0]) if d[2].args else None
                if via.endswith("Deref>::deref") and src is not None and is_buf(src):
                    r.ok("%s|decode operand" % fn, loc_str(b.f, c.loc), "the whole buffer (Deref of the Vec)")
                    continue
            elif p is not None and is_buf(p):
                r.ok("%s|decode operand" % fn, loc_str(b.f, c.loc), "the whole buffer")
                continue
            if p is not None and b.f.get("dk") != "Closure":
                rt_ = b.root(p)
                if 1 <= rt_[0] <= b.f["argc"] and all(x == "*" for x in rt_[1]) and param_is_whole_buffer(b, rt_[0]):
                    r.ok("%s|decode operand" % fn, loc_str(b.f, c.loc), "the helper's byte-slice parameter, which is the whole buffer (Deref of the Vec) at every call of the helper")
                    continue
            r.finding("%s|decode operand|not the whole buffer" % fn, loc_str(b.f, c.loc), "decode() is given %s, not the buffer that was read: the decoders see a part or a copy of the file" % (
                "the result of %s" % via.split("::")[-1] if via else "something else"))


def rule_asdecoded(ctx, rep, rid="R-C14-asdecoded"):
    """What the compiler sees is what the decoder produced.  Between `Encoding::decode` and the text that path_to_source returns, nothing may
    rewrite the text - least of all only for one of the encodings (typographic quotes mapped to ASCII quotes "for Windows-1252 files" make
    the same characters a different program depending on how the file was saved).  In the decoding unit the decoded text is only copied
    (to_string / into_owned / clone / deref ...) on its way to the result: a call that takes it and returns another text is reported."""
    from vlib import units
    r = rep.rule(rid, "the text a decoder produced is returned as it is: between Encoding::decode and the result of path_to_source it is only copied, never handed to a function "
                      "that returns another text", floor=1, floor_what="decode calls in the decoding unit")
    COPY = {"to_string", "into_owned", "to_owned", "clone", "deref", "as_ref", "borrow", "into", "from", "as_str", "fmt", "new_display", "new_debug", "name", "is_empty", "len",
            "display", "trace", "debug", "log", "starts_with", "eq", "ne", "unwrap", "expect", "map", "ok_or", "ok_or_else", "and_then", "Some", "chars", "bytes"}
    n = 0
    for b in sorted(decoding_unit(ctx), key=lambda x: x.id):
        seeds = {c.dest[0] for c in b.calls() if (c.callee or "") == "encoding_rs::Encoding::decode" and not c.dest[1]}
        if not seeds:
            continue
        n += len(seeds)
        taint = units.forward(b, seeds)
        fn = norm(b.id).replace("ironplcc::source::", "")
        k = 0
        bad = False
        for c in sorted(b.calls(), key=lambda c: (c.loc[0], c.loc[1])):
            if (c.callee or "") == "encoding_rs::Encoding::decode":
                continue
            if not any(op_place(a) is not None and op_place(a)[0] in taint for a in c.args):
                continue
            nm = (c.callee or c.u or "?").split("::")[-1]
            ty = re.sub(r"\s", "", b.local_ty(c.dest[0]) or "")
            texty = ("str" in ty or "String" in ty or "Cow<" in ty) and "Option<usize>" not in ty and "Chars" not in ty and "Bytes" not in ty
            if nm in COPY or not texty or (c.callee or "").startswith(("log::", "core::fmt::")):
                continue
            k += 1
            bad = True
            r.finding("%s|%s applied to the decoded text#%d" % (fn, nm, k), loc_str(b.f, c.loc), "the decoded text is handed to %s, which returns another text: what is compiled is no longer what the "
                      "decoder read from the file (and differs between encodings if the call is made for some of them only)" % (c.callee or c.u or "?"))
        if not bad:
            r.ok("%s|decoded text only copied" % fn, "%s:%d" % (b.f["file"], b.f["line"]))
    if not n:
        rep.error(rid, "no Encoding::decode call in the decoding unit (anchor moved)")


def rule_bump(ctx, rep, rid="R-C14-bump"):
    """logos::Lexer::bump(n) moves the lexer by n *bytes* and panics when that is not a character boundary.  A callback that finds the end of
    its token by counting characters (`chars().enumerate()`, `chars().count()`, `chars().position(..)`) and hands that count to bump works for
    ASCII and panics - or cuts the token short - as soon as the text has a multi-byte character: the same source in another encoding is the
    same text, so this is where 'transparent' would end.  Every argument of bump must be byte-valued: its numeric slice reaches find/rfind
    results, str::len, len_utf8 sums, char_indices positions and constants only."""
    from vlib.numflow import sources_of
    r = rep.rule(rid, "every argument of logos Lexer::bump is a byte quantity (find/rfind result, str::len, len_utf8, char_indices position, constant): never a count of characters",
                 floor=1, floor_what="calls of Lexer::bump in the parser crate")
    CHARCOUNT = re.compile(r"Enumerate<.*Chars|iter::adapters::enumerate::Enumerate|Iterator::count$|Iterator::position$|Iterator::rposition$|::chars$")
    n = 0
    for b in sorted(ctx.prog.bodies.values(), key=lambda x: x.id):
        if b.f["crate"] != "ironplc_parser" or "::test" in norm(b.id) or b.f.get("exp"):
            continue
        k = 0
        for c in sorted(b.calls(), key=lambda c: (c.loc[0], c.loc[1])):
            if not (c.callee or "").endswith("Lexer::<'source, Token>::bump") and not ((c.callee or "").split("::")[-1] == "bump" and "logos" in (c.callee or "")):
                continue
            n += 1
            k += 1
            inst = "%s|bump#%d" % (norm(b.id).split("::")[-1], k)
            src = sources_of(ctx.prog, b, c.args[1]) if len(c.args) > 1 else set()
            bad = sorted({x[1] for x in src if x[0] in ("call", "callk") and (CHARCOUNT.search(x[1]) or "Enumerate" in x[1])})
            # an enumerate() index reaches the argument as a component of the pair that next() hands out (a pattern binding): follow the
            # operands of the arithmetic back to the calls whose results they are taken from
            if not bad:
                seen_, work = set(), [c.args[1]]
                while work:
                    o = work.pop()
                    pl = op_place(o)
                    if pl is None:
                        continue
                    rt = b.root(pl)
                    if rt[0] in seen_:
                        continue
                    seen_.add(rt[0])
                    for d in b.defs.get(rt[0], []):
                        if d[0] == "call":
                            cal = d[2].callee or d[2].u or ""
                            if cal.endswith("Iterator>::next") or cal.endswith("Iterator::next"):
                                if "Enumerate<" in (d[2].ga or "") + cal and "Chars" in (d[2].ga or "") + cal:
                                    bad.append("the index of chars().enumerate()")
                        elif d[0] == "stmt":
                            work += [x for x in rvalue_operands(d[3]) if op_place(x) is not None]
            if bad:
                r.finding(inst + "|character-count", loc_str(b.f, c.loc), "the lexer is moved by a number of *characters* (%s): with a multi-byte character before the end of the token "
                          "the position is short and may fall inside a character (logos panics: 'Invalid Lexer bump')" % ", ".join(x.split("::")[-1][:60] for x in bad))
            else:
                r.ok(inst, loc_str(b.f, c.loc), "byte-valued: " + ", ".join(sorted({x[1].split("::")[-1] if x[0] in ("call", "callk") else str(x[0]) for x in src}))[:120])
    if not n:
        r.count_override = 1
        r.note("no callback moves the lexer by hand today")


def rule_bytesize(ctx, rep, rid="R-C14-bytesize"):
    """The same text has a different number of bytes in each encoding (UTF-16 takes twice the bytes of UTF-8 for ASCII text).  So nothing may
    be decided on the encoded size of a file: a limit on it accepts a program in one encoding and refuses it in another.  In the functions
    of plc2x that read a source file (those from which std::fs::read / File::read* is reachable inside source.rs and project.rs), no call
    asks for a byte count of the file or of the byte buffer (Metadata::len, <[u8]>::len, Vec<u8>::len).  Zero expected."""
    r = rep.rule(rid, "nothing is decided on the encoded size of a source file: the file-reading functions ask for no byte count of the file or of the byte buffer", floor=1,
                 floor_what="file-reading functions")
    readers = []
    for b in sorted(ctx.prog.bodies.values(), key=lambda x: x.id):
        if b.f["crate"] != "ironplcc" or "::test" in norm(b.id):
            continue
        if any((c.callee or "") in ("std::fs::read", "std::fs::read_to_string") or (c.callee or "").startswith("std::fs::File::") or "std::io::Read" in (c.callee or "") for c in b.calls()):
            readers.append(b)
    # closures of the readers belong to them
    units_ = []
    for b in readers:
        units_.append(b)
        units_ += [cb for cb in ctx.prog.bodies.values() if cb.f.get("parent") == b.id]
    n = 0
    for b in units_:
        fn = norm(b.id).replace("ironplcc::", "")
        k = 0
        for c in sorted(b.calls(), key=lambda c: (c.loc[0], c.loc[1])):
            nm = c.callee or ""
            ga = re.sub(r"\s", "", c.ga or "")
            bytecount = nm == "std::fs::Metadata::len" or (nm.endswith("::len") and ("[u8]" in ga or ga.startswith("[u8") or "Vec<u8" in nm or "<u8" in ga))
            if bytecount:
                k += 1
                r.finding("%s|byte count#%d|%s" % (fn, k, nm.split("::")[-2] + "::len"), loc_str(b.f, c.loc),
                          "the number of encoded bytes is asked for where a source file is read: whatever is decided on it depends on the encoding of the file, not on its text")
        if not k:
            n += 1
            r.ok(fn, "%s:%d" % (b.f["file"], b.f["line"]), "no byte count taken")
    if not readers:
        rep.error(rid, "no function of plc2x reads a file")


def run(ctx, rep):
    rep.not_decided += ["equality of verdict/positions across encodings (follows from R-C14-single only under encoding_rs's contract, which is trusted)",
                        "column arithmetic after multi-byte characters (bytes vs chars vs UTF-16 units)", "behaviour on arbitrary binary input beyond the slice inventory"]
    rep.assumptions += ["encoding_rs::Encoding::decode performs BOM sniffing and reports malformed sequences via had_errors (documented contract)"]
    rule_single(ctx, rep)
    rule_api(ctx, rep)
    rule_slice(ctx, rep)
    rule_samestr(ctx, rep)
    rule_bump(ctx, rep)
    rule_asdecoded(ctx, rep)
    rule_rawbytes(ctx, rep)
    rule_bytesize(ctx, rep)
    from rules import c06_globals
    c06_globals.run(ctx, rep, rid="R-C14-globals")
    # spans are byte offsets into the pre-processed text but are applied to the original text: the pre-processor must keep every byte position
    from rules import c05_blank
    c05_blank.run(ctx, rep, rid="R-C14-blank")
