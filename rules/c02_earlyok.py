"""R-C02-earlyok: no check is bypassed by returning some other call's verdict early.

A rule function is a spine of checks, each of which can leave with an Err, ending in `Ok(())` (or in the verdict of a final
call).  `?` and `return Err(..)` leave only on failure.  A *non-final* `return f(..)` whose value is a Result computed by a
call - it may well be Ok - ends the function successfully without the checks that follow it on the spine having run.
(An explicit early `return Ok(())` is a visible decision and is not reported; neither is an early return of the function's own
tail call, e.g. `return node.recurse_visit(self)` in a visitor whose last expression is that same call.)

For every product function returning Result<_, Diagnostic | Vec<Diagnostic>> that constructs at least one diagnostic:
  spine   = the blocks dominating the final successful return
  T(x)    = the deepest spine block dominating block x (where x hangs off the spine)
  finding = an assignment of a call result (not from_residual) to the return place at block R, R not the final return, such
            that some diagnostic construction site S has T(S) strictly below T(R) on the spine."""
from vlib.mir import op_place, loc_str, norm
from vlib import facts as F

DIAG = "ironplc_dsl::diagnostic::Diagnostic"


def ret_sites(b):
    """[(bb, kind, detail)] for every definition of the return place: kind in ok / err / call / move / residual"""
    out = []
    for i, j, s in b.all_stmts():
        if s[0] == "=" and s[1] == [0, []]:
            rv = s[2]
            if rv[0] == "agg" and isinstance(rv[1], dict) and rv[1].get("adt") == "core::result::Result":
                out.append((i, "ok" if rv[1].get("variant") == "Ok" else "err", s))
            elif rv[0] == "use" and op_place(rv[1]) is not None:
                src = op_place(rv[1])
                d = b.single_def(src[0]) if not src[1] else None
                if d and d[0] == "call":
                    nm = (d[2].callee or d[2].u or "")
                    out.append((d[1], "residual" if nm.endswith("from_residual") else "call", d[2]))
                else:
                    out.append((i, "move", s))
    for c in b.calls():
        if c.dest == [0, []]:
            nm = (c.callee or c.u or "")
            out.append((c.bb, "residual" if nm.endswith("from_residual") else "call", c))
    return out


def run(ctx, rep, rid="R-C02-earlyok"):
    r = rep.rule(rid, "no check of a rule function is bypassed by an early `return <call>` whose Result may be Ok: every non-final return of a "
                      "call's verdict comes after (is dominated by the spine position of) every diagnostic the function can still raise",
                 floor=20, floor_what="functions returning Result<_, Diagnostic..> that construct diagnostics")
    n = 0
    for b in sorted(ctx.prog.bodies.values(), key=lambda x: x.id):
        if b.f["crate"] not in F.PRODUCT or "::test" in norm(b.id) or b.f["dk"] == "Closure":
            continue
        rty = b.local_ty(0) or ""
        if not (rty.startswith("core::result::Result<") and DIAG in rty.rsplit(",", 1)[-1] + rty):
            continue
        if DIAG not in rty.split("Result<", 1)[1].rsplit(">", 1)[0].split(", ", 1)[-1]:
            continue
        # diagnostic construction sites: calls to Diagnostic::problem / Diagnostic::todo (also inside closures are ignored: they run when called)
        sites = [c for c in b.calls() if (c.callee or "") in (DIAG + "::problem", DIAG + "::todo", DIAG + "::todo_with_span", DIAG + "::todo_with_id", DIAG + "::todo_with_type")]
        if not sites:
            continue
        n += 1
        rs = ret_sites(b)
        dom = b.dominators()
        reach = b.reachable(0)
        rets = [x for x in b.returns() if x in reach]
        finals = [(i, k, d) for i, k, d in rs if k in ("ok", "call", "move") and i in reach]
        fn = norm(b.id)
        where = "%s:%d" % (b.f["file"], b.f["line"])
        if not finals:
            r.ok(fn, where, "never returns a success value of its own")
            continue
        # the final successful return: the one dominated by most blocks
        final = max(finals, key=lambda t: (len(dom.get(t[0], ())), t[0]))
        spine = dom.get(final[0], set()) | {final[0]}

        def hang(x):
            cands = [s for s in spine if s in dom.get(x, set()) or s == x]
            return max(cands, key=lambda s: len(dom.get(s, ()))) if cands else 0
        bad = []
        for i, k, d in finals:
            if (i, k) == (final[0], final[1]) or k != "call":
                continue
            # `if exempt { return tail() } ...checks...; tail()`: the early return is the function's own tail action taken without
            # the checks - an explicit exemption like `return Ok(())`, not some other call's verdict
            if final[1] == "call" and (d.callee or d.u) == (final[2].callee or final[2].u):
                continue
            tr = hang(i)
            later = []
            for c in sites:
                ts = hang(c.bb)
                if ts != tr and tr in dom.get(ts, set()) and ts not in dom.get(i, set()):
                    later.append(c)
            if later:
                bad.append((i, d, later))
        if bad:
            for i, d, later in bad:
                nm = (d.callee or d.u or "?").split("::")[-1]
                r.finding("%s|early return of %s()" % (fn, nm), loc_str(b.f, d.loc),
                          "the verdict of %s() is returned at once - also when it is Ok - although %d later check(s) of this function (first at line %d) have not run"
                          % (nm, len(later), min(c.loc[0] for c in later)))
        else:
            r.ok(fn, where, "%d diagnostic sites, %d successful exits" % (len(sites), len(finals)))
    r.note("%d functions analysed" % n)
