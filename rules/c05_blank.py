"""R-C05-blank: the OSCAT pre-processor keeps every byte position.

Token spans are byte offsets into the *pre-processed* text; every consumer (codespan, LSP map_label, semantic tokens)
applies them to the *original* text.  They agree only if the pre-processor's replacement has the byte length of what it
replaces and keeps the line breaks.  remove_oscat_comment does this with one loop over the characters of the cut-out
region; the rule checks, on the MIR of that loop:

  B1  the region that is replaced is exactly the region that is iterated (same Range feeds the slice that is blanked and
      lies between the prelude and epilog slices) - checked through the shared offsets
  B2  every iteration writes: no path from the loop's Some-edge back to the loop head avoids all pushes to the output
  B3  every push keeps the width: it pushes the character itself; or a constant on a branch where the character was compared
      equal to a constant of the same UTF-8 width; or a 1-byte constant inside an inner loop over 0..c.len_utf8()
  B4  the line-break branch pushes a line break ('\\n' compared, '\\n' pushed)
A pre-processor rewritten into another shape (no per-character loop) is reported as such: the rule cannot establish the
byte-for-byte correspondence any more (fail closed)."""
from vlib.mir import op_place, loc_str, switch_info

FN = "ironplc_parser::preprocessor::remove_oscat_comment"


def utf8_width(cp):
    return 1 if cp < 0x80 else 2 if cp < 0x800 else 3 if cp < 0x10000 else 4


def _paths(b, start=0, limit=64):
    """all acyclic paths entry -> return of a small body, as lists of (block, edge label) with the label of the edge taken out of a switch"""
    out = []

    def go(i, path, seen):
        if len(out) > limit or i in seen:
            return
        t = b.term(i)
        if t[0] == "ret":
            out.append(path + [(i, None)])
            return
        if t[0] == "switch":
            for v, tb in t[2]:
                go(tb, path + [(i, ("eq", int(v)))], seen | {i})
            go(t[3], path + [(i, ("other", [int(v) for v, _ in t[2]]))], seen | {i})
            return
        nxt = t[1] if t[0] == "goto" else (t[4] if t[0] == "call" else (t[2] if t[0] == "drop" else (t[5] if t[0] == "assert" else None)))
        if isinstance(nxt, int):
            go(nxt, path + [(i, None)], seen | {i})
    go(start, [], set())
    return out


def adaptor_form(ctx, b, r, where):
    """The same replacement written as an iterator pipeline: `output.extend(region.chars().flat_map(|c| repeat(fill).take(count)))`.
    Per path through the closure, what is emitted for the character is `count` copies of `fill`; the obligations are those of the loop
    form: the bytes emitted equal the UTF-8 width of the character (a constant width where the character is known, one 1-byte constant per
    byte otherwise), and the path on which the character is a line break emits a line break.  Returns False when the body has no such pipeline."""
    from vlib.mir import norm
    ext = [c for c in b.calls() if (c.u or "").endswith("Extend::extend") and "alloc::string::String" in (c.ga or "") and "FlatMap<core::str::iter::Chars" in (c.ga or "")]
    if len(ext) != 1:
        return False
    fm = [c for c in b.calls() if (c.u or "").endswith("Iterator::flat_map") and "core::str::iter::Chars" in (c.ga or "")]
    if len(fm) != 1 or len(fm[0].args) < 2:
        return False
    cp_ = op_place(fm[0].args[1])
    d = b.single_def(cp_[0]) if cp_ is not None and not cp_[1] else None
    if not (d and d[0] == "stmt" and d[3][0] == "agg" and d[3][1].get("k") == "closure"):
        return False
    cls = ctx.prog.get(norm(d[3][1]["def"]))
    if not cls:
        return False
    cl = cls[0]
    w0 = loc_str(cl.f, [cl.f["line"], 0, 0])
    if not (cl.f["locals"][0][0] or "").endswith("Take<core::iter::sources::repeat::Repeat<char>>") or cl.f["argc"] != 2:
        r.finding("shape|closure-result", w0, "the closure of the character pipeline does not return repeat(..).take(..): what it emits per character cannot be established")
        return True
    paths = _paths(cl)
    n = 0
    saw_nl = False
    for path in paths:
        env = {}            # (local, proj names) -> ("const", v) | ("c",) | ("len",) | ("rep", sym) | ("take", sym, sym)
        known = None        # the character on this path, when compared equal to a constant
        excluded = set()

        def val(o):
            if o[0] == "c":
                return ("const", int(o[3]["int"])) if len(o) > 3 and isinstance(o[3], dict) and "int" in o[3] else None
            pl = o[1]
            if pl[0] == 2 and not pl[1]:
                return ("c",)
            return env.get((pl[0], tuple(x[2] for x in pl[1] if isinstance(x, list) and x[0] == "f")))
        for i, edge in path:
            for s_ in cl.bbs[i]["s"]:
                if s_[0] != "=":
                    continue
                key = (s_[1][0], tuple(x[2] for x in s_[1][1] if isinstance(x, list) and x[0] == "f"))
                rv = s_[2]
                if rv[0] == "use":
                    env[key] = val(rv[1])
                elif rv[0] == "agg" and rv[1].get("k") == "tuple":
                    for k_, o in enumerate(rv[2]):
                        env[(s_[1][0], key[1] + (str(k_),))] = val(o)
                else:
                    env[key] = None
            t = cl.term(i)
            if t[0] == "switch" and edge is not None:
                if val(t[1]) == ("c",):
                    if edge[0] == "eq":
                        known = edge[1]
                    else:
                        excluded |= set(edge[1])
            if t[0] == "call":
                nm = (t[1].get("u") or "").split("::")[-1]
                a = [val(x) for x in t[2]]
                dk = (t[3][0], tuple(x[2] for x in t[3][1] if isinstance(x, list) and x[0] == "f"))
                if nm == "len_utf8" and a and a[0] == ("c",):
                    env[dk] = ("len",)
                elif nm == "repeat" and (t[1].get("u") or "").startswith("core::iter::sources::repeat") and a:
                    env[dk] = ("rep", a[0])
                elif nm == "take" and len(a) == 2 and a[0] and a[0][0] == "rep":
                    env[dk] = ("take", a[0][1], a[1])
                else:
                    env[dk] = None
        n += 1
        res = env.get((0, ()))
        what = "line break" if known == 10 else ("character U+%04X" % known if known is not None else "any other character")
        inst = "remove_oscat_comment|pipeline path #%d (%s)" % (n, what)
        if not res or res[0] != "take" or res[1] is None or res[2] is None:
            r.finding(inst + "|unknown-value", w0, "cannot relate what the closure emits to the current character")
            continue
        fill, count = res[1], res[2]
        if known == 10:
            saw_nl = True
            if fill != ("const", 10) or count != ("const", 1):
                r.finding(inst + "|line-break-replaced", w0, "the line-break branch does not emit exactly one line break: later tokens move to another line")
                continue
        if fill == ("c",) and count == ("const", 1):
            r.ok(inst, w0, "emits the character itself")
        elif fill[0] == "const" and known is not None and count[0] == "const" and utf8_width(fill[1]) * count[1] == utf8_width(known):
            r.ok(inst, w0, "%d x a %d-byte constant for a character of width %d" % (count[1], utf8_width(fill[1]), utf8_width(known)))
        elif fill[0] == "const" and utf8_width(fill[1]) == 1 and count == ("len",) and (fill[1] != 10 or known == 10):
            r.ok(inst, w0, "one 1-byte constant per byte of the character (take(c.len_utf8()))")
        else:
            r.finding(inst + "|width-not-kept", w0, "what is emitted for this character does not have its UTF-8 width: every such character in the comment shifts all later "
                      "byte offsets (labels point at the wrong text; an offset can land inside a character)")
    r.ok("remove_oscat_comment|every iteration writes", where, "flat_map over every character; each path emits count >= 1 items (checked per path)")
    if saw_nl:
        r.ok("remove_oscat_comment|line breaks are a separate branch", where)
    else:
        r.finding("remove_oscat_comment|line-breaks-not-kept", where, "no branch for '\\n': line breaks inside the comment are blanked, later tokens move up")
    return True


def bytes_form(ctx, b, r, where):
    """The replacement written byte by byte: `output.extend(region.bytes().map(|b| if b == b'\\n' { '\\n' } else { ' ' }))`.  One character is
    emitted per byte, so the width is kept when every character the closure can return is a one-byte constant; the line break is kept when
    the closure returns it on the edge on which the byte is 10 (0x0A never occurs inside a multi-byte character).  Returns False when
    the body has no such pipeline."""
    from vlib.mir import norm
    ext = [c for c in b.calls() if (c.u or "").endswith("Extend::extend") and "alloc::string::String" in (c.ga or "") and "Map<core::str::iter::Bytes" in (c.ga or "")]
    mp = [c for c in b.calls() if (c.u or "").endswith("Iterator::map") and "core::str::iter::Bytes" in (c.ga or "")]
    if len(ext) != 1 or len(mp) != 1 or len(mp[0].args) < 2:
        return False
    cp_ = op_place(mp[0].args[1])
    cd = b.single_def(cp_[0]) if cp_ is not None and not cp_[1] else None
    if not (cd and cd[0] == "stmt" and cd[3][0] == "agg" and isinstance(cd[3][1], dict) and cd[3][1].get("k") == "closure"):
        return False
    cbs = ctx.prog.get(norm(cd[3][1]["def"]))
    if not cbs:
        return False
    cb = cbs[0]
    rets = []      # (block, char code)
    for i, j, st in cb.all_stmts():
        if st[0] == "=" and st[1] == [0, []]:
            if st[2][0] == "use" and st[2][1][0] == "c" and st[2][1][1] == "char" and len(st[2][1]) > 3:
                rets.append((i, int(st[2][1][3]["int"])))
            else:
                r.finding("remove_oscat_comment|byte map returns a computed character", where, "the character written for a byte is not a constant: the width of the replacement cannot be established")
                return True
    if not rets:
        return False
    wide = [cp for _, cp in rets if cp > 0x7F]
    if wide:
        r.finding("remove_oscat_comment|width", where, "one character is written per byte but U+%04X takes more than one byte: the text grows" % wide[0])
    else:
        r.ok("remove_oscat_comment|width", where, "one one-byte character per byte of the comment")
    # the line break: on the edge on which the byte equals 10 the closure returns '\n', and nowhere else
    nl_ok = False
    nl_elsewhere = False
    dom = cb.dominators()
    for i, cp in rets:
        on10 = False
        for d_ in dom.get(i, set()):
            si = switch_info(cb, d_)
            if not si:
                continue
            for succ, labs in si["edges"].items():
                if not (succ == i or succ in dom.get(i, set())):
                    continue
                if si["kind"] == "int" and [str(x) for x in labs] == ["10"]:
                    on10 = True
                if si["kind"] == "bool" and si["subject"][0] == "bin" and si["subject"][1] == "Eq" and labs == [True]:
                    from rules import panics
                    if 10 in (panics._int_const(cb, si["subject"][2]), panics._int_const(cb, si["subject"][3])):
                        on10 = True
        if cp == 10 and on10:
            nl_ok = True
        elif cp == 10 and not on10:
            nl_elsewhere = True
        elif cp != 10 and on10:
            nl_ok = False
            nl_elsewhere = True
    if nl_ok and not nl_elsewhere:
        r.ok("remove_oscat_comment|line break kept", where, "byte 10 is written as a line break, every other byte as another character")
    else:
        r.finding("remove_oscat_comment|line break", where, "the byte 10 is not written as a line break (or another byte is): lines of the pre-processed text do not correspond to lines of the source")
    r.ok("remove_oscat_comment|every byte writes", where, "map over every byte of the comment, extended into the output")
    return True


def run(ctx, rep, rid="R-C05-blank"):
    r = rep.rule(rid, "the OSCAT pre-processor replaces text byte for byte: its per-character loop writes on every iteration and every write has the "
                      "UTF-8 width of the character it stands for; line breaks are kept", floor=3, floor_what="writes in the blanking loop + loop obligations")
    bs = ctx.prog.get(FN)
    if not bs:
        rep.error(rid, FN + " not found")
        return
    b = bs[0]
    where = "%s:%d" % (b.f["file"], b.f["line"])
    # the loop over Chars
    head = None
    for c in b.calls():
        if (c.u or "") == "core::iter::traits::iterator::Iterator::next" and "Chars" in (c.ga or ""):
            head = c
    if head is None and adaptor_form(ctx, b, r, where):
        return
    if head is None and bytes_form(ctx, b, r, where):
        return
    if head is None:
        r.finding("shape|no-char-loop", where, "the replacement is no longer produced by a loop over the characters of the comment: byte-for-byte "
                  "correspondence between original and pre-processed text cannot be established")
        return
    si = switch_info(b, head.target)
    some = [s for s, l in si["edges"].items() if l == ["Some"]] if si and si["kind"] == "disc" else []
    if not some:
        r.finding("shape|loop-exit", where, "cannot find the Some edge of the character loop")
        return
    some = some[0]
    body = b.reachable(some, avoid={head.bb})
    # the loop variable: copies of the Some payload
    cvars = set()
    changed = True
    while changed:
        changed = False
        for i in sorted(body | {some}):
            for s in b.bbs[i]["s"]:
                if s[0] == "=" and not s[1][1] and s[2][0] == "use" and s[1][0] not in cvars:
                    p = op_place(s[2][1])
                    if p is not None and ((p[0] == head.dest[0] and p[1]) or (p[0] in cvars and not p[1])):
                        cvars.add(s[1][0])
                        changed = True

    def is_c(pl):
        return pl is not None and (pl[0] in cvars or b.root(pl)[0] in cvars or b.root(pl)[0] == head.dest[0])
    # comparisons c == const
    eq_edges = {}       # (bb, succ) -> code point known equal on that edge
    for i in body:
        t = b.term(i)
        if t[0] != "switch":
            continue
        p = op_place(t[1])
        d = b.single_def(p[0]) if p is not None and not p[1] else None
        if d and d[0] == "stmt" and d[3][0] == "bin" and d[3][1] in ("Eq", "Ne"):
            ops = d[3][2], d[3][3]
            cp = None
            isc = False
            for o in ops:
                if o[0] == "c" and o[1] == "char" and len(o) > 3 and "int" in o[3]:
                    cp = int(o[3]["int"])
                else:
                    pp = op_place(o)
                    isc = isc or (pp is not None and not pp[1] and is_c(pp))
            if cp is not None and isc:
                zero = [tb for tv, tb in t[2] if tv == "0"]
                true_succ = t[3] if d[3][1] == "Eq" else (zero[0] if zero else None)
                if true_succ is not None:
                    eq_edges[(i, true_succ)] = cp
    # inner loops over 0..c.len_utf8()
    width_loops = []        # set of blocks inside such a loop body
    width_heads = []        # (head block, body blocks): c.len_utf8() >= 1, so such a loop runs at least once
    for c in b.calls():
        if c.bb in body and (c.u or "") == "core::iter::traits::iterator::Iterator::next" and "Range<usize>" in (c.ga or ""):
            # range local: receiver root; its construction must use len_utf8(c) as end and 0 as start
            rp = op_place(c.args[0])
            rt = b.root(rp) if rp else None
            ok = False
            if rt:
                # follow into_iter / move chain to the Range aggregate
                cur = rt[0]
                for _ in range(4):
                    d = b.single_def(cur)
                    if d and d[0] == "stmt" and d[3][0] == "use" and op_place(d[3][1]):
                        cur = op_place(d[3][1])[0]
                    elif d and d[0] == "call" and (d[2].u or "").endswith("into_iter") and d[2].args and op_place(d[2].args[0]):
                        cur = op_place(d[2].args[0])[0]
                    elif d and d[0] == "stmt" and d[3][0] == "agg" and "Range" in (d[3][1].get("adt") or ""):
                        start, end = d[3][2][0], d[3][2][1]
                        s0 = start[0] == "c" and len(start) > 3 and start[3].get("int") == "0"
                        ep = op_place(end)
                        ed = b.single_def(ep[0]) if ep is not None and not ep[1] else None
                        e0 = bool(ed and ed[0] == "call" and (ed[2].callee or "").endswith("len_utf8") and ed[2].args and is_c(op_place(ed[2].args[0])))
                        ok = s0 and e0
                        break
                    else:
                        break
            if ok:
                si2 = switch_info(b, c.target)
                s2 = [s for s, l in si2["edges"].items() if l == ["Some"]] if si2 and si2["kind"] == "disc" else []
                if s2:
                    width_loops.append(b.reachable(s2[0], avoid={c.bb}))
                    width_heads.append((c.bb, width_loops[-1]))
    dom = b.dominators()
    pushes = []
    n = 0
    for c in sorted(b.calls(), key=lambda c: (c.loc[0], c.loc[1])):
        if c.bb not in body:
            continue
        nm = (c.callee or "").split("::")[-1]
        if nm not in ("push", "push_str", "extend", "insert", "insert_str") or "String" not in (c.callee or ""):
            continue
        n += 1
        pushes.append(c.bb)
        inst = "remove_oscat_comment|write #%d" % n
        arg = c.args[1] if len(c.args) > 1 else None
        if nm == "extend" and arg is not None:
            # `out.extend(repeat(<1-byte constant>).take(c.len_utf8()))`: as many one-byte characters as the current character has bytes
            def _chain(op, depth=6):
                names, cur = [], op_place(op)
                consts = []
                take_n = None
                while cur is not None and depth > 0:
                    depth -= 1
                    d = b.single_def(b.root(cur)[0])
                    if not d or d[0] != "call":
                        break
                    last = (d[2].u or d[2].callee or "").split("::")[-1]
                    names.append(last)
                    if last == "take" and len(d[2].args) > 1:
                        take_n = d[2].args[1]
                    if last in ("repeat", "repeat_n") and d[2].args:
                        consts.append(d[2].args[0])
                        if last == "repeat_n" and len(d[2].args) > 1:
                            take_n = d[2].args[1]
                    cur = op_place(d[2].args[0]) if d[2].args else None
                return names, consts, take_n
            names, consts, take_n = _chain(arg)
            k = None
            if consts and consts[0][0] == "c" and len(consts[0]) > 3 and "int" in consts[0][3]:
                k = int(consts[0][3]["int"])
            tp = op_place(take_n) if take_n is not None else None
            td = b.single_def(tp[0]) if tp is not None and not tp[1] else None
            n_is_width = bool(td and td[0] == "call" and (td[2].callee or "").endswith("len_utf8") and td[2].args and is_c(op_place(td[2].args[0])))
            if k is not None and utf8_width(k) == 1 and n_is_width and set(names) <= {"take", "repeat", "repeat_n", "into_iter"}:
                if k != 10:
                    r.ok(inst, loc_str(b.f, c.loc), "one 1-byte constant per byte of the character (repeat(..).take(c.len_utf8()))")
                    continue
        if nm != "push" or arg is None:
            r.finding(inst + "|not-a-char-push", loc_str(b.f, c.loc), "%s inside the character loop: width of what is written is not the width of the character" % nm)
            continue
        ap = op_place(arg)
        if ap is not None and not ap[1] and is_c(ap):
            r.ok(inst, loc_str(b.f, c.loc), "pushes the character itself")
            continue
        if arg[0] == "c" and len(arg) > 3 and "int" in arg[3]:
            k = int(arg[3]["int"])
            w = utf8_width(k)
            # (a) on a branch where c == k' with the same width
            same = [cp for (i, s), cp in eq_edges.items() if s in dom.get(c.bb, set()) and utf8_width(cp) == w and i in dom.get(c.bb, set())]
            if same:
                if k == 10 or 10 not in same:
                    r.ok(inst, loc_str(b.f, c.loc), "constant of width %d on the branch where the character equals a width-%d constant" % (w, w))
                else:
                    r.finding(inst + "|line-break-replaced", loc_str(b.f, c.loc), "the line-break branch does not write a line break: later tokens move to another line")
                continue
            if w == 1 and any(c.bb in wl for wl in width_loops):
                r.ok(inst, loc_str(b.f, c.loc), "one 1-byte constant per byte of the character (loop over 0..c.len_utf8())")
                continue
            r.finding(inst + "|width-not-kept", loc_str(b.f, c.loc), "a %d-byte constant is written for a character of unknown width: every multi-byte character in the "
                      "comment shifts all later byte offsets (labels point at the wrong text; an offset can land inside a character)" % w)
            continue
        r.finding(inst + "|unknown-value", loc_str(b.f, c.loc), "cannot relate the pushed value to the current character")
    # B2: every iteration writes
    seen, st, skip = set(), [some], False
    while st:
        x = st.pop()
        if x in seen:
            continue
        seen.add(x)
        if x in pushes:
            continue
        if any(x == wh and (wb & set(pushes)) for wh, wb in width_heads):
            continue            # a loop over 0..c.len_utf8() runs at least once and its body writes
        if x == head.bb:
            skip = True
            break
        st.extend(b.succ(x))
    if skip:
        r.finding("remove_oscat_comment|iteration-without-write", where, "some path through the character loop writes nothing: the pre-processed text gets shorter")
    else:
        r.ok("remove_oscat_comment|every iteration writes", where)
    # B4: a '\n' comparison exists and its branch pushes '\n'
    if 10 in eq_edges.values():
        r.ok("remove_oscat_comment|line breaks are a separate branch", where)
    else:
        r.finding("remove_oscat_comment|line-breaks-not-kept", where, "no branch for '\\n': line breaks inside the comment are blanked, later tokens move up")
