"""C01 — Parsing is faithful (DESIGN.md §3 C01): structural necessary conditions read from the grammar and its MIR."""
import re
from vlib.mir import norm, loc_str, op_place, loc_macro

PARSER_FILE = "parser/src/parser.rs"
GRAM = "ironplc_parser::parser::plc_parser::__parse_"


def value_rules(g):
    out = set()
    for n, r in g.rules.items():
        ret = r.ret.replace(" ", "")
        if ret and ret != "()" and "Token" not in ret:
            out.add(n)
    return out


def rule_capture(ctx, rep, g):
    r = rep.rule("R-C01-capture", "every labelled capture of a grammar rule is used by the rule's action (rustc's own liveness: forced "
                                  "unused_variables lint mapped onto the grammar reader's label positions)", floor=500, floor_what="labels")
    labels = {}
    in_look = set()

    def collect(node, rule, look):
        if node.kind == "choice":
            for s in node.alts:
                collect(s, rule, look)
            return
        for e in node.elems:
            lk = look or e.look is not None
            if e.label:
                labels[(e.line, e.col)] = (rule, e.label)
                if lk:
                    in_look.add((e.line, e.col))
            for q in (e.prim, e.sep):
                if q is None:
                    continue
                if q.kind == "group":
                    collect(q.expr, rule, lk)
                elif q.kind == "call":
                    for a in q.args:
                        if a[0] == "rule":
                            collect(a[1], rule, lk)
                elif q.kind == "prec":
                    for lvl in q.levels:
                        for sq in lvl:
                            collect(sq, rule, lk)
    for rl in g.rules.values():
        collect(rl.expr, rl.name, False)
    unused = {}
    nlint = 0
    for d in ctx.facts.diags:
        m = d["message"]
        if m.get("code") and m["code"].get("code") == "unused_variables":
            for sp in m["spans"]:
                if sp["file_name"].endswith(PARSER_FILE) and sp.get("is_primary"):
                    nlint += 1
                    k = (sp["line_start"], sp["column_start"])
                    if k in labels:
                        unused[k] = m["message"]
    for k, (rule, lab) in sorted(labels.items()):
        inst = "rule %s|label %s" % (rule, lab)
        where = "%s:%d" % (PARSER_FILE, k[0])
        if k in unused and k in in_look:
            r.justified(inst, "capture inside a lookahead: it consumes no input, so nothing of the source is lost", where)
        elif k in unused:
            r.finding(inst, where, "captured text is bound to `%s` and never used by the action: it cannot influence the tree" % lab)
        else:
            r.ok(inst, where)
    r.note("%d unused_variables diagnostics in parser.rs, %d of them on grammar labels" % (nlint, len(unused)))
    if nlint == 0:
        rep.error("R-C01-capture", "the forced unused_variables lint produced no diagnostic in parser.rs (it reports closure parameters "
                                   "there on any tree): lint capture is broken")


def rule_unlabeled(ctx, rep, g):
    r = rep.rule("R-C01-unlabeled", "in a sequence with an action, a nonterminal whose rule returns a value is never used without a label "
                                    "outside a lookahead (rust-peg discards the value of an unlabelled element)", floor=400, floor_what="sequences with actions")
    vals = value_rules(g)
    nseq = 0

    def visit(node, rule, inlook):
        nonlocal nseq
        if node.kind == "choice":
            for s in node.alts:
                visit(s, rule, inlook)
            return
        if node.action is not None:
            nseq += 1
        cnt = {}
        for e in node.elems:
            look = inlook or e.look is not None
            p = e.prim
            if node.action is not None and p.kind == "call" and p.name in vals and not e.label and not look:
                k = cnt[p.name] = cnt.get(p.name, 0) + 1
                r.finding("rule %s|unlabelled %s()#%d" % (rule.name, p.name, k), "%s:%d" % (PARSER_FILE, e.line),
                          "the value returned by %s() is matched and thrown away" % p.name)
            for q in (e.prim, e.sep):
                if q is None:
                    continue
                if q.kind == "group":
                    visit(q.expr, rule, look)
                elif q.kind == "call":
                    for a in q.args:
                        if a[0] == "rule":
                            visit(a[1], rule, look)
                elif q.kind == "prec":
                    for lvl in q.levels:
                        for s in lvl:
                            visit(s, rule, look)
    for rl in g.rules.values():
        visit(rl.expr, rl, False)
    for _ in range(nseq - sum(1 for i in r.instances)):
        pass
    # instances = sequences examined; record them as one aggregate ok instance per rule to keep evidence small
    per_rule = {}
    for rule, s in g.all_seqs():
        if s.action is not None:
            per_rule[rule.name] = per_rule.get(rule.name, 0) + 1
    bad_rules = {i["instance"].split("|")[0] for i in r.instances}
    for name, n in sorted(per_rule.items()):
        if "rule " + name not in bad_rules:
            r.ok("rule %s|%d action sequence(s)" % (name, n), "%s:%d" % (PARSER_FILE, g.rules[name].line))
    r.floor = 180
    r.note("%d sequences with actions examined" % nseq)
    if nseq < 400:
        rep.error("R-C01-unlabeled", "only %d action sequences seen (< 400)" % nseq)


ANNEX_TIERS = [  # IEC 61131-3 Annex B.3.1, loosest first; operator token -> DSL constant
    {"Or": "CompareOp::Or"},
    {"Xor": "CompareOp::Xor"},
    {"And": "CompareOp::And"},
    {"Equal": "CompareOp::Eq", "NotEqual": "CompareOp::Ne"},
    {"Less": "CompareOp::Lt", "Greater": "CompareOp::Gt", "LessEqual": "CompareOp::LtEq", "GreaterEqual": "CompareOp::GtEq"},
    {"Plus": "Operator::Add", "Minus": "Operator::Sub"},
    {"Star": "Operator::Mul", "Div": "Operator::Div", "Mod": "Operator::Mod"},
    {"Power": "Operator::Pow"},
]


def rule_prec(ctx, rep, g, rid="R-C01-prec"):
    r = rep.rule(rid, "the precedence! block of rule `expression` has the tiers, operators, left-associativity and operator constants of "
                               "IEC 61131-3 Annex B.3.1 (OR < XOR < AND < =,<> < relational < +,- < *,/,MOD < ** < unary < primary)", floor=15, floor_what="binary operator arms")
    ex = g.rules.get("expression")
    prec = None
    if ex:
        for s in ex.expr.alts:
            for e in s.elems:
                if e.prim.kind == "prec":
                    prec = e.prim
    if prec is None:
        rep.error(rid, "no precedence! block in rule expression")
        return
    where0 = "%s:%d" % (PARSER_FILE, prec.line)
    levels = prec.levels
    # binary tiers are those whose arms all have the  x:(@) .. tok(T) .. y:@  shape
    btiers = []
    for li, lvl in enumerate(levels):
        arms = []
        for s in lvl:
            ats = [e for e in s.elems if e.prim.kind == "at"]
            toks = [g.terminal(e.prim) for e in s.elems if g.terminal(e.prim)]
            if len(ats) == 2:
                arms.append((s, ats, toks))
        if arms:
            if len(arms) != len(lvl):
                r.finding("tier %d|mixed" % (li + 1), where0, "a precedence tier mixes binary-operator arms with other arms")
            btiers.append((li, arms))
    if len(btiers) != len(ANNEX_TIERS):
        r.finding("tiers|count=%d" % len(btiers), where0, "expected %d binary precedence tiers, found %d (a `--` separator was added or removed)" % (len(ANNEX_TIERS), len(btiers)))
    if [li for li, _ in btiers] != list(range(len(btiers))):
        r.finding("tiers|order", where0, "binary tiers are not the loosest (first) tiers of the block")
    for ti, (li, arms) in enumerate(btiers):
        want = ANNEX_TIERS[ti] if ti < len(ANNEX_TIERS) else {}
        got = {}
        for s, ats, toks in arms:
            tk = [t[1] for t in toks if t[0] == "tok"]
            op = tk[0] if tk else "?"
            where = "%s:%d" % (PARSER_FILE, s.line)
            inst = "tier %d|%s" % (ti + 1, op)
            got[op] = True
            probs = []
            if op not in want:
                probs.append("operator %s does not belong to Annex tier %d %s" % (op, ti + 1, sorted(want)))
            # associativity: left operand is (@), right operand is @
            first, second = ats[0], ats[1]
            if not (first.prim.paren and not second.prim.paren):
                probs.append("arm is not left-associative (expected `x:(@) op y:@`)")
            code = "".join(t.v for t in s.action.code) if s.action else ""
            m = re.search(r"(CompareOp|Operator)::(\w+),(\w+),(\w+)\)", code)
            if not m:
                probs.append("cannot read the operator constant of the action `%s`" % code[:60])
            else:
                const = "%s::%s" % (m.group(1), m.group(2))
                if op in want and const != want[op]:
                    probs.append("token %s is mapped to %s (expected %s)" % (op, const, want[op]))
                if (m.group(3), m.group(4)) != (first.label, second.label):
                    probs.append("operands passed as (%s, %s) but the left operand is `%s`" % (m.group(3), m.group(4), first.label))
            if probs:
                r.finding(inst, where, "; ".join(probs))
            else:
                r.ok(inst, where)
        for op in want:
            if op not in got:
                r.finding("tier %d|%s|missing" % (ti + 1, op), where0, "Annex operator %s is missing from its tier" % op)
    # the remaining tiers: unary then primary
    rest = levels[len(btiers):]
    names = []
    for lvl in rest:
        names.append(sorted({e.prim.name for s in lvl for e in s.elems if e.prim.kind == "call" and e.prim.name not in ("tok", "_")}))
    if len(rest) == 2 and names[0] == ["unary_expression"]:
        r.ok("tiers|unary-then-primary", where0, str(names))
    else:
        r.finding("tiers|unary-then-primary", where0, "after the binary tiers the block must have the unary tier and then the primary tier, found %s" % names)


# keyword token -> DSL constant agreement; pairs that are not homonyms
LABEL_SYNONYMS = {"REdge": "Rising", "FEdge": "Falling", "Minus": "Neg", "VarInOut": "InOut", "VarInput": "Input", "VarOutput": "Output",
                  "VarGlobal": "Global", "VarExternal": "External", "VarTemp": "Temp", "VarAccess": "Access", "NonRetain": "NonRetain",
                  "ReadWrite": "ReadWrite", "ReadOnly": "ReadOnly"}


def normal(s):
    return re.sub(r"[^a-z0-9]", "", s.lower())


def rule_label(ctx, rep, g):
    r = rep.rule("R-C01-label", "an alternative of the shape `tok(TokenType::K) { Const }` / `id_eq(\"K\") { Const }` maps the keyword to the DSL "
                                "constant of the same meaning", floor=60, floor_what="keyword->constant alternatives")
    n = 0
    for rule, s in g.all_seqs():
        if s.action is None or s.action.fallible:
            continue
        terms = [g.terminal(e.prim) for e in s.elems]
        non_trivia = [e for e in s.elems if not (e.prim.kind == "call" and e.prim.name == "_")]
        if len(non_trivia) != 1 or non_trivia[0].label or non_trivia[0].rep:
            continue
        t = g.terminal(non_trivia[0].prim)
        if not t or t[0] not in ("tok", "id_eq"):
            continue
        code = s.action.code
        # action must be a single path constant `A::B` (optionally `A::B::C`)
        txt = "".join(x.v for x in code)
        m = re.fullmatch(r"(?:\w+::)*(\w+)::(\w+)", txt)
        if not m:
            continue
        n += 1
        kw, const = t[1], m.group(2)
        inst = "rule %s|%s => %s::%s" % (rule.name, kw, m.group(1), const)
        where = "%s:%d" % (PARSER_FILE, s.line)
        ok = normal(kw) == normal(const) or normal(LABEL_SYNONYMS.get(kw, "")) == normal(const)
        # e.g. tok(Minus){UnaryOp::Neg}; numbers in action qualifiers id_eq("SD")=>SD etc.
        if ok:
            r.ok(inst, where)
        else:
            r.finding(inst, where, "keyword %s is mapped to the constant %s" % (kw, const))
    r.note("%d keyword->constant alternatives" % n)


def rule_sep(ctx, rep, g):
    r = rep.rule("R-C01-sep", "list helpers do not demand a trailing separator the standard does not have (x ++ sep must not be followed by sep "
                              "unless the production ends every item with it)", floor=6, floor_what="list helper rules")
    TRAILING_OK = {"semisep": "B.1.4.3/B.2.1: every declaration in a VAR/STRUCT list ends with ';'",
                   "semisep_oneplus": "as semisep", "periodsep": "used for `a.b.` prefixes where the trailing period belongs to the production"}
    for name, rl in sorted(g.rules.items()):
        if rl.generics is None:
            continue
        for s in rl.expr.alts:
            reps = [e for e in s.elems if e.rep in ("**", "++") or (e.prim.kind == "group" and any(x.rep in ("**", "++") for a in e.prim.expr.alts for x in a.elems))]
            if not reps:
                continue
            # separator terminal of the repetition
            def sepname(e):
                target = e
                if e.prim.kind == "group":
                    for a in e.prim.expr.alts:
                        for x in a.elems:
                            if x.rep in ("**", "++"):
                                target = x
                sp = target.sep
                if sp is None:
                    return None
                if sp.kind == "call":
                    return sp.name
                if sp.kind == "group":
                    ns = [x.prim.name for a in sp.expr.alts for x in a.elems if x.prim.kind == "call" and x.prim.name != "_"]
                    return ns[0] if ns else None
                return None
            sn = sepname(reps[0])
            idx = s.elems.index(reps[0])
            after = [e.prim.name for e in s.elems[idx + 1:] if e.prim.kind == "call" and e.prim.name != "_"]
            inst = "rule %s" % name
            where = "%s:%d" % (PARSER_FILE, rl.line)
            if sn and after and after[0] == sn:
                if name in TRAILING_OK:
                    r.justified(inst, TRAILING_OK[name], where)
                else:
                    r.finding(inst, where, "helper requires a trailing `%s` after the last element" % sn)
            else:
                r.ok(inst, where)


def placeholder_never_read(ctx, b, call):
    """The constant-named Id/Type is stored into one ADT value T built by this rule, and no other grammar function lets a
    whole T escape (moves it into an aggregate, a call or its return place): consumers only project other fields out of it
    and rebuild the node with the real name."""
    dl = call.dest[0]
    target = None
    for i, j, s in b.all_stmts():
        if s[0] == "=" and s[2][0] == "agg" and s[2][1].get("k") == "adt":
            for fname, o in zip(s[2][1]["fields"], s[2][2]):
                p = op_place(o)
                if p is not None and b.root(p)[0] == dl:
                    target = (s[2][1]["adt"], fname)
    if target is None:
        return False
    producer_rule = norm(b.id)[len(GRAM):].split("::")[0]
    for bd in ctx.prog.bodies.values():
        n = norm(bd.id)
        if not n.startswith(GRAM):
            continue
        if n[len(GRAM):].split("::")[0] == producer_rule:
            continue
        # reads of the placeholder field itself
        for _, k, p in bd.place_uses():
            if k in ("write", "drop"):
                continue
            for x in p[1]:
                if isinstance(x, list) and x[0] == "f" and x[3] == target[0] and x[2] == target[1]:
                    return False
        # whole-value escapes (a T that this function built itself with an aggregate is a *rebuilt* node, not the placeholder one)
        def whole(o):
            p = op_place(o)
            if p is None or p[1] or bd.local_ty(p[0]) != target[0]:
                return False
            d = bd.single_def(p[0])
            if d and d[0] == "stmt" and d[3][0] == "agg" and d[3][1].get("adt") == target[0]:
                return False
            return True
        for i, j, s in bd.all_stmts():
            if s[0] == "=" and s[2][0] == "agg" and s[2][1].get("k") != "closure" and any(whole(o) for o in s[2][2]):
                return False
            if s[0] == "=" and s[1] == [0, []] and s[2][0] == "use" and whole(s[2][1]):
                return False
        for c in bd.calls():
            if any(whole(a) for a in c.args) and not (c.callee or "").startswith(("core::mem::drop", "core::ptr::drop", GRAM)):
                return False   # (grammar closures receiving the value are analysed themselves)
    return True


def rule_ident(ctx, rep):
    r = rep.rule("R-C01-ident", "inside grammar functions identifiers are built only from token text: no Id::from / Type::from with a constant "
                                "argument (placeholder names)", floor=1, floor_what="Id/Type constructions from token text")
    good = 0
    cnt = {}
    for b in sorted(ctx.prog.bodies.values(), key=lambda x: x.id):
        n = norm(b.id)
        if not n.startswith(GRAM):
            continue
        for c in sorted(b.calls(), key=lambda c: (c.loc[0], c.loc[1])):
            if c.callee in ("ironplc_dsl::core::Id::from", "ironplc_dsl::common::Type::from"):
                k = b.const_of(c.args[0])
                rule = n[len(GRAM):].split("::")[0]
                if k is not None and placeholder_never_read(ctx, b, c):
                    r.justified("rule %s|%s(%s)" % (rule, c.callee.split("::")[-2] + "::from", k[2]),
                                "placeholder: the field it initialises is never read anywhere in the grammar (the caller rebuilds the node with the real name)",
                                loc_str(b.f, c.loc))
                elif k is not None:
                    j = cnt[rule] = cnt.get(rule, 0) + 1
                    r.finding("rule %s|%s(%s)#%d" % (rule, c.callee.split("::")[-2] + "::from", k[2], j), loc_str(b.f, c.loc),
                              "a node of the returned tree gets the constant name %s instead of text from the source" % k[2])
                else:
                    good += 1
                    r.ok("rule %s|%s(token text)" % (rule, c.callee.split("::")[-2] + "::from"), loc_str(b.f, c.loc))


COLLIDE_EXEMPT = {
    ("STANDARD_FUNCTION_BLOCK_NAME", "END_VAR"): "deliberate never-matching placeholder (`TODO this should be a list of standard function block names`): "
                                                  "the rule is meant to be unreachable until that list exists",
}


def rule_collide(ctx, rep, g):
    r = rep.rule("R-C01-collide", "no keyword token literal equals (ignoring case) a word the grammar expects as an Identifier token via id_eq/dt_sep: "
                                  "logos prefers the dedicated token, which would make that grammar alternative unreachable", floor=20, floor_what="textual keywords of the grammar")
    from rules.c08 import parse_attr
    a = ctx.facts.astattrs.get("ironplc_parser::token::TokenType")
    tokens = {}
    for vname, v in a["variants"].items():
        for at in v["attrs"]:
            p = parse_attr(at)
            if p and p[0] == "token" and any(c.isalpha() for c in p[1]):
                tokens[p[1].upper()] = vname
    words = {}

    def f(e, seq, rule):
        t = g.terminal(e.prim)
        if t and t[0] in ("id_eq", "dt_sep"):
            words.setdefault(t[1].upper(), (rule, e.line))
    for rl in g.rules.values():
        g.walk_elems(rl.expr, f, rl.name)
    for w, (rule, line) in sorted(words.items()):
        inst = "textual keyword %s" % w
        where = "parser/src/parser.rs:%d" % line
        if w in tokens and (rule, w) in COLLIDE_EXEMPT:
            r.justified(inst, COLLIDE_EXEMPT[(rule, w)], where)
        elif w in tokens:
            r.finding(inst + "|collides with TokenType::%s" % tokens[w], where, "`%s` lexes as TokenType::%s, never as Identifier: %s(\"%s\") in rule %s can no longer match" % (w, tokens[w], "id_eq/dt_sep", w, rule))
        else:
            r.ok(inst, where)


def run(ctx, rep):
    rep.not_decided += ["that names/kinds/nesting of the returned tree equal the source (value-level)", "that every Annex B production is implemented",
                        "source order of declarations", "anything about inputs the grammar rejects"]
    rep.assumptions += ["rust-peg semantics: unlabelled element values are discarded; precedence! tiers loosest first; `x:(@) op y:@` is left-associative",
                        "the grammar reader agrees with rustc on the rule set (checked on every run)"]
    g = ctx.peg
    rep.analysed["grammar_rules"] = len(g.rules)
    rule_capture(ctx, rep, g)
    rule_unlabeled(ctx, rep, g)
    rule_prec(ctx, rep, g)
    rule_label(ctx, rep, g)
    rule_sep(ctx, rep, g)
    rule_ident(ctx, rep)
    # well-formed text parses: blanks and comments are accepted between any two tokens of a production
    from rules import c08_trivia
    c08_trivia.run(ctx, rep, rid="R-C01-trivia")
    # the initial values in the tree are the values that were written: a real literal is rounded once
    from rules import c09_oneround
    c09_oneround.run(ctx, rep, rid="R-C01-oneround")
    from rules import c01_vars
    c01_vars.run(ctx, rep)
    rule_collide(ctx, rep, g)
    from rules import c01_consume, c01_drain, c01_fold
    c01_consume.run(ctx, rep, g)
    c01_drain.run(ctx, rep, g)
    c01_fold.run(ctx, rep, g)
    c01_fold.run_partial(ctx, rep)
    c01_fold.run_order(ctx, rep)
    from rules import c01_deadfield
    c01_deadfield.run(ctx, rep)
    # the characters of a literal are part of what was written: nothing may trim them by content
    from rules.c09 import rule_trim
    rule_trim(ctx, rep, rid="R-C01-trim")
    # an alternative that waits for an identifier token the lexer can never produce is dead: the well-formed text it stands for is rejected
    from rules.c09 import rule_ideq
    rule_ideq(ctx, rep, rid="R-C01-ideq")
    # nothing that was written is dropped: a comment ends at its first *) (otherwise the code up to the next comment vanishes)
    from rules import c08_trivia
    c08_trivia.run_comment(ctx, rep, rid="R-C01-comment")
    from rules.c08 import rule_prestep
    rule_prestep(ctx, rep, rid="R-C01-prestep")
    from rules import c01_choice
    c01_choice.run(ctx, rep)
    from rules import c01_shape
    c01_shape.run(ctx, rep)
    # "same initial values": the value of a duration literal is its digits times the unit, scaled exactly
    from rules import c09_scale
    c09_scale.run(ctx, rep, rid="R-C01-scale")
