"""R-C04-progress: every hand-written loop makes progress on every way round.

Termination is not decidable in general, but one necessary condition is structural: if a loop can be left at all, the
values its exit tests depend on must change on every path that goes round once more.  For every natural loop of
hand-written product code (macro-generated parser bodies and derive expansions excluded) the rule computes

  * the exit tests: every SwitchInt inside the loop with a successor outside it;
  * their state: the locals in the backward slice of the tested values that live across iterations (defined outside the
    loop as well, or parameters);
  * for every cycle header -> ... -> header: whether it contains a *change* of one of those locals - an assignment, or a
    call that receives a mutable borrow of it (`it.next()`, `lexer.next()`, `stack.pop()`, `self.advance()`).  Cutting a text
    at its own front, `rest = &rest[i..]`, is a change only when a positive lower bound of i can be read off the code
    (a constant, the length of a constant string, a sum with one of these): `i` = "where the marker was found" can be 0.

A cycle without any change of the exit state repeats forever once entered with the same state (`while let Some(i) =
s.find(k)` whose body leaves `s` alone on one branch).  Loops whose header itself performs the mutable call (`for`,
`while let Some(x) = it.next()`) satisfy this trivially; they are counted, not skipped."""
from vlib.mir import op_place, loc_str, norm, loc_macro, rvalue_operands
from vlib import facts as F

SKIP_MACROS = ("Bang:parser", "Derive:", "Attr:derive", "Bang:lazy_static", "Bang:phf")


def natural_loops(b):
    dom = b.dominators()
    reach = b.reachable(0)
    loops = {}
    for u in reach:
        if b.is_cleanup(u):
            continue
        for h in b.succ(u):
            if h in dom.get(u, set()):
                # body: nodes that reach u without passing h
                body = {h, u}
                st = [u]
                preds = b.preds
                while st:
                    x = st.pop()
                    if x == h:
                        continue
                    for p in preds.get(x, ()):
                        if p not in body and p in reach and not b.is_cleanup(p):
                            body.add(p)
                            st.append(p)
                loops.setdefault(h, set()).update(body)
    return loops


def mut_borrowed_roots(b, c):
    """locals a call may change: roots of arguments that are (derived from) mutable borrows"""
    out = set()
    for a in c.args:
        p = op_place(a)
        if p is None:
            continue
        ty = b.local_ty(p[0]) or ""
        cur = p[0]
        seen = set()
        # follow `_a = &mut P` / reborrows / moves back to the borrowed local
        while cur is not None and cur not in seen:
            seen.add(cur)
            if cur <= b.f["argc"]:
                if (b.local_ty(cur) or "").startswith("&mut"):
                    out.add(cur)
                break
            ds = b.defs.get(cur, [])
            if len(ds) != 1 or ds[0][0] != "stmt":
                break
            rv = ds[0][3]
            if rv[0] == "ref" and rv[1] == "mut":
                out.add(rv[2][0])
                # a reborrow of *x where x is itself a &mut: keep following
                nxt = rv[2][0]
                if "*" in rv[2][1]:
                    cur = nxt
                    continue
                break
            if rv[0] == "use" and op_place(rv[1]) is not None:
                cur = op_place(rv[1])[0]
                continue
            if rv[0] == "ptr":
                out.add(rv[2][0])
                break
            break
        if ty.startswith("&mut") and p[0] <= b.f["argc"]:
            out.add(p[0])
    return out


def _lower_bound(b, op, depth=8):
    """a lower bound (>= 0) of an unsigned operand: constants, sums, the length of a constant string; anything else is 0"""
    if depth <= 0 or op is None:
        return 0
    if op[0] == "c":
        c = b.const_of(op)
        try:
            return max(0, int(c[3]["int"])) if c is not None and len(c) > 3 and isinstance(c[3], dict) and "int" in c[3] else 0
        except (ValueError, TypeError):
            return 0
    p = op_place(op)
    if p is None:
        return 0
    d = b.single_def(p[0])
    if d is None:
        return 0
    if d[0] == "stmt":
        rv = d[3]
        if rv[0] == "use":
            return _lower_bound(b, rv[1], depth - 1)
        if rv[0] == "bin" and rv[1] in ("Add", "AddWithOverflow", "AddUnchecked"):
            return _lower_bound(b, rv[2], depth - 1) + _lower_bound(b, rv[3], depth - 1)
        return 0
    c = d[2]
    nm = (c.callee or c.u or "")
    if nm.split("::")[-1] == "len" and c.args:
        s0 = b.const_str(c.args[0])
        if s0 is not None:
            return len(s0.encode("utf-8"))
    return 0


def self_reslice_start(b, stmt, local):
    """`local = &local[i..]` (through temporaries): the lower bound of i, or None if the assignment is something else"""
    if stmt[2][0] not in ("use", "ref"):
        return None
    p = op_place(stmt[2][1]) if stmt[2][0] == "use" else stmt[2][2]
    for _ in range(6):
        if p is None:
            return None
        d = b.single_def(p[0])
        if d is None:
            return None
        if d[0] == "stmt" and d[3][0] == "use":
            p = op_place(d[3][1])
            continue
        if d[0] == "stmt" and d[3][0] == "ref":
            p = d[3][2]
            continue
        break
    else:
        return None
    if d[0] != "call":
        return None
    c = d[2]
    if not (c.callee or "").endswith("::index") or len(c.args) < 2:
        return None
    rp = op_place(c.args[0])
    if rp is None or b.root(rp)[0] != local:
        return None
    gp = op_place(c.args[1])
    gd = b.single_def(gp[0]) if gp is not None and not gp[1] else None
    if not (gd and gd[0] == "stmt" and gd[3][0] == "agg" and isinstance(gd[3][1], dict) and (gd[3][1].get("adt") or "").startswith("core::ops::range::Range")):
        return None
    if gd[3][1]["adt"].endswith("RangeTo") or gd[3][1]["adt"].endswith("RangeToInclusive") or gd[3][1]["adt"].endswith("RangeFull"):
        return 0
    return _lower_bound(b, gd[3][2][0]) if gd[3][2] else 0


def analyse_loop(b, h, body):
    """returns (exit tests found?, state locals, offending cycle or None)"""
    # exit tests
    exits = []
    for x in body:
        t = b.term(x)
        if t[0] == "switch":
            succs = [tb for _, tb in t[2]] + [t[3]]
            if any(s not in body for s in succs):
                exits.append(x)
    if not exits:
        return False, set(), None
    # backward slice of the tested values (defs inside the loop are looked through)
    state, seen, work = set(), set(), []
    for x in exits:
        p = op_place(b.term(x)[1])
        if p is not None:
            work.append(p[0])
    defs_in = {}
    for x in body:
        for j, s in enumerate(b.bbs[x]["s"]):
            if s[0] == "=":
                defs_in.setdefault(s[1][0], []).append(("stmt", s))
        t = b.term(x)
        if t[0] == "call":
            c = b.call_at(x)
            defs_in.setdefault(c.dest[0], []).append(("call", c))
    defs_all = b.defs
    while work:
        l = work.pop()
        if l in seen:
            continue
        seen.add(l)
        inside = defs_in.get(l, [])
        n_all = len(defs_all.get(l, []))
        outside = l <= b.f["argc"] or n_all > sum(1 for d in inside if (d[0] == "call" and not d[1].dest[1]) or (d[0] == "stmt" and not d[1][1][1]))
        if outside or not inside:
            state.add(l)
        for d in inside:
            if d[0] == "stmt":
                rv = d[1][2]
                ops = list(rvalue_operands(rv))
                if rv[0] in ("ref", "ptr"):
                    work.append(rv[2][0])
                elif rv[0] in ("disc", "len"):
                    work.append(rv[1][0])
                for o in ops:
                    p = op_place(o)
                    if p is not None:
                        work.append(p[0])
            else:
                for a in d[1].args:
                    p = op_place(a)
                    if p is not None:
                        work.append(p[0])
    # blocks that change the state
    changing = set()
    for x in body:
        for s in b.bbs[x]["s"]:
            if s[0] == "=" and s[1][0] in state:
                # `rest = &rest[i..]` moves on only if i > 0: cutting at the place something was *found* (which may be the very beginning)
                # leaves the text as it is
                if not s[1][1] and self_reslice_start(b, s, s[1][0]) == 0:
                    continue
                # an assignment of a loop-invariant constant to a flag is still a change of the exit state
                changing.add(x)
        t = b.term(x)
        if t[0] == "call":
            c = b.call_at(x)
            if c.dest[0] in state:
                changing.add(x)
            if mut_borrowed_roots(b, c) & state:
                changing.add(x)
            # taking a message off a channel changes the channel although it is borrowed immutably (`while let Ok(m) = receiver.recv()`)
            nm = c.callee or ""
            if nm.split("::")[-1] in ("recv", "recv_timeout", "try_recv", "recv_deadline") and "Receiver" in nm and c.args:
                p0 = op_place(c.args[0])
                if p0 is not None and (b.root(p0)[0] in state or p0[0] in state):
                    changing.add(x)
        elif t[0] == "drop" and t[1][0] in state:
            pass
    if h in changing:
        return True, state, None
    # a cycle h -> ... -> h avoiding every changing block?
    st, seenb, parent = [s for s in b.succ(h) if s in body], set(), {}
    for s in st:
        parent[s] = h
    while st:
        x = st.pop()
        if x in seenb or x in changing:
            continue
        seenb.add(x)
        for s in b.succ(x):
            if s == h:
                path = [x]
                while path[-1] in parent and parent[path[-1]] != h:
                    path.append(parent[path[-1]])
                return True, state, list(reversed(path))
            if s in body and s not in seenb:
                parent.setdefault(s, x)
                st.append(s)
    return True, state, None


def run(ctx, rep, rid="R-C04-progress", crates=None):
    r = rep.rule(rid, "every hand-written loop that can be left changes, on every way round, something its exit tests depend on "
                      "(assignment or mutable call on the exit state): no branch goes round with the state untouched", floor=40, floor_what="loops in hand-written product code")
    n = 0
    for b in sorted(ctx.prog.bodies.values(), key=lambda x: x.id):
        if b.f["crate"] not in (crates or F.PRODUCT) or "::test" in norm(b.id) or b.f.get("exp"):
            continue
        loops = natural_loops(b)
        k = 0
        for h, body in sorted(loops.items()):
            # location of the loop: the header's terminator
            t = b.term(h)
            loc = t[-1] if isinstance(t[-1], list) else None
            m = None
            for x in sorted(body):
                tt = b.term(x)
                l2 = tt[-1] if isinstance(tt[-1], list) else None
                m = m or (loc_macro(l2) if l2 else None)
            if m and any(str(m[0]).startswith(p) or str(m[1]).startswith(p) for p in SKIP_MACROS):
                continue
            k += 1
            n += 1
            has_exit, state, cyc = analyse_loop(b, h, body)
            fn = norm(b.id)
            inst = "%s|loop#%d" % (fn, k)
            where = loc_str(b.f, loc) if loc else "%s:%d" % (b.f["file"], b.f["line"])
            names = sorted({b.local_name(l) or "_%d" % l for l in state})
            if not has_exit:
                r.ok(inst, where, "no exit test inside (left by return/break only or never): not a progress question")
            elif cyc is None:
                r.ok(inst, where, "exit state {%s} changes on every way round" % ", ".join(names)[:120])
            else:
                line = None
                for x in cyc:
                    tt = b.term(x)
                    if isinstance(tt[-1], list):
                        line = tt[-1][0]
                r.finding(inst + "|no-progress", where, "a way round the loop (through line %s) changes none of {%s}, the values its exit tests depend on: "
                          "once taken with the same state the loop never ends" % (line, ", ".join(names)[:120]))
    r.note("%d loops analysed" % n)
