"""C02 — edge-triggered inputs are variables too (DESIGN.md §R5).

The parser keeps `x : BOOL R_EDGE` declarations apart from the other variables (field `edge_variables`, node EdgeVarDecl).
A rule that reasons about "the variables of a POU" from `variables`/VarDecl alone rejects valid programs: the edge input is
"not declared" (P0015) and "not an input of the callee" (P0007/P0008).

  clause 1  the scope rule's visitor declares a name for every node type that declares a variable (every DSL struct named
            *VarDecl that the traversal visits): it overrides that node's visit method and adds to the symbol table there
  clause 2  every helper of the invocation rule that selects the *inputs* of a function block (it tests VariableType::Input)
            also reads FunctionBlockDeclaration.edge_variables
"""
import re
from vlib.mir import norm, loc_str, op_place
from vlib.traversal import snake


def run(ctx, rep, rid="R-C02-edgevars"):
    r = rep.rule(rid, "edge-triggered inputs (EdgeVarDecl, FunctionBlockDeclaration.edge_variables) are treated as variables wherever the other declarations are: "
                      "declared in the scope rule's symbol table, counted and found as inputs by the invocation rule", floor=4, floor_what="declaration node types + input helpers")
    # clause 1
    decl_types = sorted(aid for aid, a in ctx.facts.adts.items() if aid.startswith("ironplc_dsl::common::") and aid.endswith("VarDecl") and a["kind"] == "struct")
    vis = {b.f["name"]: b for b in ctx.prog.bodies.values() if b.f["crate"] == "ironplc_analyzer" and "rule_use_declared_symbolic_var" in b.f["file"]
           and b.f["name"].startswith("visit_") and (b.f.get("impl") or {}).get("trait_def") == "ironplc_dsl::visitor::Visitor" and "::test" not in norm(b.id)}
    if not vis:
        rep.error(rid, "the visitor of rule_use_declared_symbolic_var was not found")
    for aid in decl_types:
        short = aid.split("::")[-1]
        a = ctx.facts.adts[aid]
        ob = vis.get("visit_" + snake(short))
        inst = "scope|%s" % short
        where = "%s:%d" % (a["file"], a["line"])
        adds = ob is not None and any((c.callee or "").split("::")[-1] in ("add", "add_if", "try_add") and "symbol_table" in (c.callee or "") for c in ob.calls())
        if adds:
            r.ok(inst, "%s:%d" % (ob.f["file"], ob.f["line"]), "declared in visit_%s" % snake(short))
        else:
            r.finding(inst + "|not-declared", where, "%s declares a variable, but the scope rule has no visit_%s that adds it to the symbol table: every use of such a "
                      "variable is reported as undefined (P0015)" % (short, snake(short)))
    # clause 2
    n = 0
    for b in sorted(ctx.prog.bodies.values(), key=lambda x: x.id):
        if b.f["crate"] != "ironplc_analyzer" or "rule_function_block_invocation" not in b.f["file"] or "::test" in norm(b.id):
            continue
        fn = b if b.f["dk"] != "Closure" else ctx.prog.body(b.f.get("parent"))
        if fn is None:
            continue
        tests_input = False
        for c in b.calls():
            if (c.u or c.callee or "").endswith(("PartialEq::eq", "::contains")):
                for aop in c.args:
                    k = b.const_of(aop)
                    if k is not None and len(k) > 3 and isinstance(k[3], dict) and k[3].get("variant") == "Input":
                        tests_input = True
        for i, j, st in b.all_stmts():
            if st[0] == "=" and st[2][0] == "agg" and isinstance(st[2][1], dict) and st[2][1].get("adt", "").endswith("::VariableType") and st[2][1].get("variant") == "Input":
                tests_input = True
            if st[0] == "=" and st[2][0] == "agg" and st[2][1].get("k") == "array":
                for o in st[2][2]:
                    k = b.const_of(o)
                    if k is not None and len(k) > 3 and isinstance(k[3], dict) and k[3].get("variant") == "Input":
                        tests_input = True
        def has_input(x):
            if isinstance(x, list):
                if len(x) > 3 and x[0] == "c" and isinstance(x[3], dict) and x[3].get("variant") == "Input" and str(x[1]).endswith("VariableType"):
                    return True
                return any(has_input(y) for y in x)
            return False
        if has_input(b.f.get("promoted") or []):
            tests_input = True
        if not tests_input:
            continue
        n += 1
        name = norm(fn.id).split("::")[-1]
        group = [fn] + [cb for cb in ctx.prog.bodies.values() if cb.f["dk"] == "Closure" and cb.f.get("parent") == fn.id]
        reads = False
        for g in group:
            for _, kind, pl in g.place_uses():
                rt = g.root(pl)
                if any(isinstance(x, list) and x[0] == "f" and x[2] == "edge_variables" for x in rt[1]):
                    reads = True
        inst = "invocation|%s" % name
        where = "%s:%d" % (fn.f["file"], fn.f["line"])
        if reads:
            r.ok(inst, where, "selects VAR_INPUT variables and reads edge_variables")
        else:
            r.finding(inst + "|edge inputs ignored", where, "%s() selects the inputs of a function block by VariableType::Input and never looks at edge_variables: an `R_EDGE`/`F_EDGE` input is "
                      "not found (P0007) or not counted (P0008)" % name)
    r.note("%d declaration node types, %d input-selecting helpers" % (len(decl_types), n))
