"""R-C15-units: start and length of a semantic token are counted in the protocol's unit, not in bytes.

The protocol's positions are in UTF-16 code units (characters for text in the BMP).  The lexer counts columns in bytes and a
`String::len()` is bytes.  The rule slices, numerically, the `delta_start` and `length` operands of every SemanticToken that
is built in plc2x; a Token field counts as byte-valued when the slice of its producer (the Token aggregate in
lexer::tokenize) reaches a byte quantity (Lexer::span(), len_utf8, str::len).  Values computed from text
(`encode_utf16().count()`, `chars().count()`) are not numeric flows and end the slice."""
import re
from vlib.mir import op_place, loc_str, norm
from vlib.numflow import sources_of
from rules.c05 import BYTE_CALLS, BYTE_FIELDS

TOKEN = "ironplc_parser::token::Token"


def byte_valued_token_fields(ctx):
    out = {}
    for b in ctx.prog.get("ironplc_parser::lexer::tokenize"):
        for i, j, s in b.all_stmts():
            if s[0] == "=" and s[2][0] == "agg" and isinstance(s[2][1], dict) and s[2][1].get("adt") == TOKEN:
                ops = dict(zip(s[2][1]["fields"], s[2][2]))
                for fld in ("line", "col"):
                    src = sources_of(ctx.prog, b, ops[fld])
                    why = sorted(x[1].split("::")[-1] for x in src if x[0] == "call" and (BYTE_CALLS.search(x[1]) or x[1].endswith("Lexer::span") or x[1].endswith("::len")))
                    why += sorted("%s.%s" % (x[1].split("::")[-1], x[2]) for x in src if x[0] == "field" and ((x[1], x[2]) in BYTE_FIELDS or (x[1].startswith("core::ops::range::Range") and x[2] in ("start", "end"))))
                    if why and fld == "col":
                        out[fld] = why
    return out


def _is_bad(src, bytef):
    return any(x[0] == "call" and BYTE_CALLS.search(x[1]) for x in src) or any(x[0] == "field" and x[1] == TOKEN and x[2] in bytef for x in src) \
        or any(x[0] == "field" and (x[1], x[2]) in BYTE_FIELDS for x in src)


def overridden(ctx, b, fld, bytef):
    """`b` (or its parent function, for a closure) is a conversion producing a SemanticToken whose `fld` is byte-valued.  True if every
    call site hands the result only to `Option::map(<closure>)` whose closure rebuilds the token with `fld` taken from somewhere
    else (not copied from the converted token, not byte-valued)."""
    fn = ctx.prog.body(b.f.get("parent")) if b.f["dk"] == "Closure" else b
    if fn is None:
        return False
    sites = []
    import re
    m = re.search(r"From<([^>]+)>", fn.id)
    from_ty = m.group(1) if m else None
    for cb in ctx.prog.bodies.values():
        if cb.f["crate"] != "ironplcc":
            continue
        for c in cb.calls():
            if c.callee and norm(c.callee) == norm(fn.id) or any(t.id == fn.id for t in (ctx.prog.get(c.callee) if c.callee else [])):
                sites.append((cb, c))
            elif from_ty and (c.u or "") in ("core::convert::Into::into", "core::convert::From::from") and from_ty in (c.ga or "") and "SemanticToken" in (c.ga or ""):
                sites.append((cb, c))       # `x.into()` resolves to the blanket impl, which calls this From impl
    if not sites:
        return False
    # loop form: every conversion happens in a function whose returned vector is filled only by pushes of tokens it builds itself, and
    # those take `fld` from somewhere else (not copied from the converted token, not byte-valued)
    from rules.c15 import pushed_final_tokens
    if all(cb.f["dk"] != "Closure" for cb, c in sites):
        good = True
        for cb in {id(cb): cb for cb, c in sites}.values():
            fin = pushed_final_tokens(cb)
            if not fin:
                good = False
                break
            for d, ops in fin:
                src = sources_of(ctx.prog, cb, ops[fld])
                copied = any(x[0] == "field" and "SemanticToken" in x[1] and x[2] == fld for x in src)
                if copied or _is_bad(src, bytef):
                    good = False
        if good:
            return True
    for cb, c in sites:
        res = c.dest[0]
        users = [c2 for c2 in cb.calls() if any(op_place(a) is not None and cb.root(op_place(a))[0] == res for a in c2.args)]
        # the result may not be returned or stored as it is
        direct = any(s[0] == "=" and s[1] == [0, []] and s[2][0] == "use" and op_place(s[2][1]) is not None and cb.root(op_place(s[2][1]))[0] == res
                     for _, _, s in cb.all_stmts())
        if direct or not users or not all((u.callee or "").endswith(("Option::<T>::map", "option::Option::map")) for u in users):
            return False
        for u in users:
            cp = op_place(u.args[1]) if len(u.args) > 1 else None
            d = cb.single_def(cp[0]) if cp is not None and not cp[1] else None
            if not (d and d[0] == "stmt" and d[3][0] == "agg" and d[3][1].get("k") == "closure"):
                return False
            mcs = ctx.prog.get(norm(d[3][1]["def"]))
            if not mcs:
                return False
            mc = mcs[0]
            ok = False
            for _, _, s in mc.all_stmts():
                if s[0] == "=" and s[2][0] == "agg" and isinstance(s[2][1], dict) and s[2][1].get("adt") == "lsp_types::semantic_tokens::SemanticToken":
                    ops = dict(zip(s[2][1]["fields"], s[2][2]))
                    src = sources_of(ctx.prog, mc, ops[fld])
                    copied = any(x[0] == "field" and "SemanticToken" in x[1] and x[2] == fld for x in src)
                    if not copied and not _is_bad(src, bytef):
                        ok = True
            if not ok:
                return False
    return True


def _closure_of(ctx, b, op):
    p = op_place(op)
    d = b.single_def(p[0]) if p is not None and not p[1] else None
    if d and d[0] == "stmt" and d[3][0] == "agg" and d[3][1].get("k") == "closure":
        bs = ctx.prog.get(norm(d[3][1]["def"]))
        return bs[0] if bs else None
    return None


def codepoint_counters(ctx, b, operand, depth=3):
    """text-derived counts on the numeric slice of `operand` that are in code points: `chars().count()`, or a function on the slice
    that steps through `str::chars()` adding a constant per character (and never `char::len_utf16`).  Closures handed to
    Option::map/map_or/and_then on the way are followed."""
    from vlib.numflow import Slice
    out = []
    sl = Slice(ctx.prog)
    sl.operand(b, operand, [])
    todo = list(sl.calls)
    seen_closures = set()
    bodies = {k[0] for k in sl.visited if isinstance(k, tuple) and k and isinstance(k[0], str)}
    while todo:
        cb, c = todo.pop()
        nm = c.callee or c.u or ""
        if nm.endswith(("Iterator::count",)) and "Chars" in (c.ga or "") and "EncodeUtf16" not in (c.ga or ""):
            out.append("chars().count() in %s" % norm(cb.id).split("::")[-1])
        if re.search(r"Option(::<T>)?::(map|map_or|map_or_else|and_then)$", nm):
            for a in c.args[1:]:
                k = _closure_of(ctx, cb, a)
                if k is not None and k.id not in seen_closures and len(seen_closures) < 8:
                    seen_closures.add(k.id)
                    s2 = Slice(ctx.prog)
                    s2.local_ret(k, [])
                    todo.extend(s2.calls)
                    bodies |= {kk[0] for kk in s2.visited if isinstance(kk, tuple) and kk and isinstance(kk[0], str)}
                    bodies.add(k.id)
    for bid in sorted(bodies):
        bd = ctx.prog.body(bid)
        if bd is None or bd.f["crate"] != "ironplcc" or bd.id == b.id:
            continue
        names = [(c.callee or c.u or "") for c in bd.calls()]
        steps_chars = any(n.endswith("str::<impl str>::chars") or ("Chars" in n and n.endswith("::next")) for n in names)
        if steps_chars and not any("len_utf16" in n or "encode_utf16" in n for n in names):
            out.append("%s() steps through chars() adding one per character" % norm(bd.id).split("::")[-1])
    return sorted(set(out))


def run(ctx, rep, rid="R-C15-units"):
    r = rep.rule(rid, "delta_start and length of every SemanticToken built in plc2x are not byte quantities (numeric slice reaches no byte-valued "
                      "token field, no str/String::len, no span offset): non-ASCII text in or before a token would shift or stretch its range",
                 floor=2, floor_what="start/length operands of SemanticToken constructions")
    bytef = byte_valued_token_fields(ctx)
    n = 0
    for b in sorted(ctx.prog.bodies.values(), key=lambda x: x.id):
        if b.f["crate"] != "ironplcc" or "::test" in norm(b.id):
            continue
        k = 0
        for i, j, s in sorted(b.all_stmts(), key=lambda t: (t[2][3][0], t[2][3][1])):
            if not (s[0] == "=" and s[2][0] == "agg" and isinstance(s[2][1], dict) and s[2][1].get("adt") == "lsp_types::semantic_tokens::SemanticToken"):
                continue
            ops = dict(zip(s[2][1]["fields"], s[2][2]))
            for fld in ("delta_start", "length"):
                if fld not in ops or ops[fld][0] == "c":
                    continue
                src = sources_of(ctx.prog, b, ops[fld])
                # a field copied from another SemanticToken is decided where that one is built
                bad = sorted(x[1].split("::")[-1] + "()" for x in src if x[0] == "call" and BYTE_CALLS.search(x[1]))
                bad += sorted("Token.%s (bytes: %s)" % (x[2], ",".join(bytef[x[2]])) for x in src if x[0] == "field" and x[1] == TOKEN and x[2] in bytef)
                bad += sorted("%s.%s" % (x[1].split("::")[-1], x[2]) for x in src if x[0] == "field" and (x[1], x[2]) in BYTE_FIELDS)
                cp = codepoint_counters(ctx, b, ops[fld])
                if cp:
                    n += 1
                    fn = norm(b.id).replace("ironplcc::", "")
                    r.finding("%s|SemanticToken.%s|code-points" % (fn, fld), loc_str(b.f, s[3]), "%s is counted in characters (code points), not UTF-16 code units (%s): a character outside the "
                              "BMP (an emoji in a comment or string) %s" % (fld, "; ".join(cp), "inside the lexeme shortens its range" if fld == "length" else "before the token on its line shifts its range left"))
                    continue
                if not [x for x in src if x[0] != "const" and not (x[0] == "field" and "SemanticToken" in x[1])] and not bad:
                    continue
                n += 1
                fn = norm(b.id).replace("ironplcc::", "")
                fn = "lsp_project::<From<LspTokenType>>::from" if "From<ironplcc::lsp_project::LspTokenType>" in fn else fn
                inst = "%s|SemanticToken.%s" % (fn, fld)
                if bad and overridden(ctx, b, fld, bytef):
                    r.justified(inst, "byte-valued here (%s), but every caller rebuilds the token and replaces %s with a value that is not" % (", ".join(bad), fld), loc_str(b.f, s[3]))
                elif bad:
                    r.finding(inst + "|byte-valued", loc_str(b.f, s[3]), "%s is computed from byte quantities (%s): a multi-byte character %s" % (
                        fld, ", ".join(bad), "inside the lexeme stretches its range" if fld == "length" else "before the token on its line shifts its range"))
                else:
                    r.ok(inst, loc_str(b.f, s[3]))
    r.note("byte-valued token fields: %s" % (bytef or "none"))
