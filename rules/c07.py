"""C07 — Recursion rejected exactly when the declaration graph has a cycle (DESIGN.md §3 C07)."""
import re
from vlib.mir import norm, loc_str, op_place, switch_info
from rules import panics

VIS = "ironplc_analyzer::xform_toposort_declarations::RuleGraphReferenceableElements"
GRAPH = "ironplc_analyzer::xform_toposort_declarations::DeclarationsGraph"
# (node type, own-name field path) : the name under which the visited declaration itself is a graph node
DECLARED = {
    ("LateBoundDeclaration", ("data_type_name", "name")), ("EnumerationDeclaration", ("type_name", "name")),
    ("SubrangeDeclaration", ("type_name", "name")), ("ArrayDeclaration", ("type_name", "name")),
    ("StructureDeclaration", ("type_name", "name")), ("FunctionDeclaration", ("name",)), ("FunctionBlockDeclaration", ("name",)),
    ("ProgramDeclaration", ("name",)), ("ConfigurationDeclaration", ("name",)), ("StructureInitializationDeclaration", ("type_name", "name")),
    ("SimpleDeclaration", ("type_name", "name")), ("StringDeclaration", ("type_name", "name")),
}
# initialiser kinds that cannot take part in a containment cycle (one line of reason each)
CANNOT_CYCLE = {
    "None": "no type reference",
    # "Simple" was listed here until round 9 ("elementary types with a constant initial value"): wrong - `x : B := 1` with B a user type is a
    # Simple initialiser too (simple_specification accepts a type name).  It is a known finding now, see known_findings.json.
    "String": "STRING/WSTRING have no members",
    "EnumeratedValues": "inline enumeration: no reference to another declaration",
    "EnumeratedType": "refers to an enumeration; enumerations have no members, so no cycle can pass through them",
    "Subrange": "refers to an integer subrange; no members",
}


_CTX_FIELDS = {}


def context_fields(ctx):
    """the visitor's "current container" field(s), found by role: a field of the visitor itself to which a visit method assigns
    `Some(<the visited declaration's own name>)` (today `current_from`; its name is not part of the rule)"""
    key = id(ctx.prog)
    if key in _CTX_FIELDS:
        return _CTX_FIELDS[key]
    out = set()
    for b in ctx.prog.bodies.values():
        if (b.f.get("impl") or {}).get("self") != VIS:
            continue
        for i, j, s0 in b.all_stmts():
            if not (s0[0] == "=" and s0[1][0] == 1):
                continue
            fs = [x for x in s0[1][1] if isinstance(x, list) and x[0] == "f"]
            if len(fs) != 1:
                continue
            s = s0
            if s0[2][0] == "use" and s0[2][1][0] in ("cp", "mv") and not s0[2][1][1][1]:
                d0 = b.single_def(s0[2][1][1][0])
                if d0 and d0[0] == "stmt":
                    s = ["=", s0[1], d0[3]]
            if not (s[2][0] == "agg" and s[2][1].get("adt") == "core::option::Option" and s[2][1].get("variant") == "Some" and s[2][2]):
                continue
            p = op_place(s[2][2][0])
            d = b.single_def(b.root(p)[0]) if p is not None else None
            src = d[2].args[0] if d and d[0] == "call" and (d[2].callee or d[2].u or "").split("::")[-1] == "clone" and d[2].args else s[2][2][0]
            if node_role(b, src, ctx_fields=())[0] == "declared":
                out.add(fs[0][2])
                continue
            # the assignment sits in a helper (`visit_within(name, ..)`): the source is a parameter, and every caller in the visitor hands
            # the visited declaration's own name to that parameter
            sp = op_place(src)
            srt = b.root(sp) if sp is not None else None
            if srt is not None and 2 <= srt[0] <= b.f["argc"] and not [x for x in srt[1] if isinstance(x, list)] and not (b.f.get("impl") or {}).get("trait_def"):
                me = norm(b.id)
                sites = []
                for cb in ctx.prog.bodies.values():
                    if (cb.f.get("impl") or {}).get("self") != VIS:
                        continue
                    for c in cb.calls():
                        if c.callee == me and len(c.args) >= srt[0]:
                            sites.append(node_role(cb, c.args[srt[0] - 1], ctx_fields=())[0])
                if sites and all(x == "declared" for x in sites):
                    out.add(fs[0][2])
    _CTX_FIELDS.clear()
    _CTX_FIELDS[key] = out
    return out


def node_role(b, op, depth=6, ctx_fields=("current_from",)):
    """classify the Id handed to add_node: 'declared' (the visited node's own name / the current container) or 'referenced'"""
    p = op_place(op)
    if p is None:
        return "unknown", "?"
    rt = b.root(p)
    names = tuple(x[2] for x in rt[1] if isinstance(x, list) and x[0] == "f")
    owners = [x[3].split("::")[-1] for x in rt[1] if isinstance(x, list) and x[0] == "f"]
    if rt[0] == 2 and owners:
        if (owners[0], names) in DECLARED:
            return "declared", "%s.%s" % (owners[0], ".".join(names))
        return "referenced", "%s.%s" % (owners[0], ".".join(names))
    if rt[0] == 1 and names and names[0] in ctx_fields:
        return "declared", "self.%s" % names[0]
    if rt[0] != 2 and not names:
        # a binding produced by matching on a field: follow one more step
        d = b.single_def(rt[0])
        if d and d[0] == "stmt" and d[3][0] in ("ref", "use"):
            src = d[3][2] if d[3][0] == "ref" else op_place(d[3][1])
            if src is not None and depth:
                return node_role(b, ["cp", src], depth - 1, ctx_fields)
    if names:
        o = owners[0]
        return ("declared" if (o, names) in DECLARED and rt[0] == 2 else "referenced"), "%s.%s" % (o, ".".join(names))
    return "unknown", str(rt)


def edge_wrapper(ctx, callee):
    """A helper of the graph module that adds one edge between the nodes of two of its parameters (`add_dependency(dependent, depends_on)`):
    -> (index of the parameter that ends up as add_edge's first endpoint, index of the second), 1-based over the callee's locals; or None"""
    for hb in ctx.prog.get(callee or "") or []:
        if hb.f["crate"] != "ironplc_analyzer" or "xform_toposort_declarations" not in hb.f["file"]:
            continue
        es = [c for c in hb.calls() if (c.callee or "").endswith("StableGraph::add_edge")]
        if len(es) != 1 or not must_call(ctx, hb, "StableGraph::add_edge", depth=0):
            continue
        idx = []
        for a in es[0].args[1:3]:
            p = op_place(a)
            d = hb.single_def(hb.root(p)[0]) if p else None
            if not (d and d[0] == "call" and (d[2].callee or "").endswith("DeclarationsGraph::add_node") and len(d[2].args) > 1):
                idx.append(None)
                continue
            np_ = op_place(d[2].args[1])
            rt = hb.root(np_) if np_ is not None else None
            idx.append(rt[0] if rt is not None and 1 <= rt[0] <= hb.f["argc"] and not [x for x in rt[1] if isinstance(x, list)] else None)
        if None not in idx:
            return tuple(idx)
    return None


def rule_orient(ctx, rep):
    r = rep.rule("R-C07-orient", "every add_edge on the declaration graph uses one orientation between the declared (containing) node and the "
                                 "referenced node, so a cycle through mixed constructs is a cycle in the graph", floor=4, floor_what="add_edge sites")
    sites = []
    cf = tuple(sorted(context_fields(ctx)))
    if not cf:
        rep.error("R-C07-orient", "the visitor has no field that is set to the visited declaration's own name (the current container)")
        return
    for b in sorted(ctx.prog.bodies.values(), key=lambda x: x.id):
        im = b.f.get("impl") or {}
        if im.get("self") != VIS:
            continue
        n = {}
        for c in sorted(b.calls(), key=lambda c: (c.loc[0], c.loc[1])):
            roles = []
            if (c.callee or "").endswith("StableGraph::add_edge"):
                for a in c.args[1:3]:
                    p = op_place(a)
                    d = b.single_def(b.root(p)[0]) if p else None
                    if d and d[0] == "call" and (d[2].callee or "").endswith("DeclarationsGraph::add_node"):
                        roles.append(node_role(b, d[2].args[1], ctx_fields=cf))
                    else:
                        roles.append(("unknown", "?"))
            else:
                # a helper that adds the edge for two names it is given: the names at this call site are the endpoints
                w = edge_wrapper(ctx, c.callee)
                if w is None:
                    continue
                for k_ in w:
                    roles.append(node_role(b, c.args[k_ - 1], ctx_fields=cf) if k_ - 1 < len(c.args) else ("unknown", "?"))
            k = n[b.f["name"]] = n.get(b.f["name"], 0) + 1
            sites.append((b, c, "%s#%d" % (b.f["name"], k), roles))
    if not sites:
        rep.error("R-C07-orient", "no add_edge site found in RuleGraphReferenceableElements")
        return
    orient = {}
    for b, c, name, roles in sites:
        o = "%s->%s" % (roles[0][0], roles[1][0])
        orient.setdefault(o, []).append(name)
    majority = max(orient.items(), key=lambda kv: (len(kv[1]), kv[0] == "declared->referenced"))[0]
    # the documented orientation is container -> contained (declared -> referenced): use it as the reference when sites disagree
    ref = "declared->referenced" if "declared->referenced" in orient else majority
    for b, c, name, roles in sites:
        o = "%s->%s" % (roles[0][0], roles[1][0])
        inst = "%s|%s(%s) -> %s(%s)" % (name, roles[0][0], roles[0][1], roles[1][0], roles[1][1])
        if "unknown" in o:
            r.finding(name + "|unclassified", loc_str(b.f, c.loc), "cannot classify the endpoints of this edge: %s" % inst)
        elif len(orient) == 1 or o == ref:
            r.ok(inst, loc_str(b.f, c.loc))
        else:
            r.finding(name + "|" + o, loc_str(b.f, c.loc), "edge is oriented %s while other sites use %s: a cycle that passes through both kinds of edge is not a graph cycle" % (o, ref))


def external_not_descended(ctx):
    """where (file:line) the graph builder's own visit_var_decl leaves a VAR_EXTERNAL declaration without visiting what is below it: on the
    edge on which `node.var_type` is known to be External (an `==` with the constant External that holds, or the External arm of a match on
    it) no call is reachable before the return.  None when there is no such override or the External edge descends."""
    bs = [b for b in ctx.prog.bodies.values() if (b.f.get("impl") or {}).get("self") == VIS and b.f["name"] == "visit_var_decl"]
    if not bs:
        return None
    b = bs[0]

    def is_var_type(place):
        fs = [x for x in b.root(place)[1] if isinstance(x, list) and x[0] == "f"]
        return bool(fs) and fs[-1][2] == "var_type" and b.root(place)[0] == 2

    def quiet(start, others):
        region = b.reachable(start, avoid=set(others))
        return not any(c.bb in region for c in b.calls())
    for i in sorted(b.reachable(0)):
        si = switch_info(b, i)
        if not si:
            continue
        if si["kind"] == "disc" and si["subject"][0] == "place" and is_var_type(list(si["subject"][1])) and (si.get("adt") or "").endswith("VariableType"):
            for succ, labs in si["edges"].items():
                if labs == ["External"] and quiet(succ, [s_ for s_ in si["edges"] if s_ != succ]):
                    return "%s:%d" % (b.f["file"], b.f["line"])
        if si["kind"] == "bool" and si["subject"][0] == "call" and (si["subject"][1].callee or "").endswith("VariableType as core::cmp::PartialEq>::eq"):
            c = si["subject"][1]
            ops = [op_place(a) for a in c.args]
            consts = [b.const_of(a) for a in c.args]
            has_ext = any(k is not None and len(k) > 3 and isinstance(k[3], dict) and k[3].get("variant") == "External" for k in consts)
            has_vt = any(p is not None and is_var_type(p) for p in ops)
            if has_ext and has_vt:
                for succ, labs in si["edges"].items():
                    if labs == [True] and quiet(succ, [s_ for s_ in si["edges"] if s_ != succ]):
                        return "%s:%d" % (b.f["file"], b.f["line"])
    return None


def rule_edges(ctx, rep):
    r = rep.rule("R-C07-edges", "every initialiser kind through which a structure element / variable can refer to another declaration contributes an "
                                "edge in visit_initial_value_assignment_kind (or is listed as unable to close a cycle)", floor=10, floor_what="InitialValueAssignmentKind variants")
    bs = [b for b in ctx.prog.bodies.values() if (b.f.get("impl") or {}).get("self") == VIS and b.f["name"] == "visit_initial_value_assignment_kind"]
    if not bs:
        rep.error("R-C07-edges", "visit_initial_value_assignment_kind override not found")
        return
    b = bs[0]
    sw = None
    for i in sorted(b.reachable(0)):
        si = switch_info(b, i)
        if si and si["kind"] == "disc" and (si.get("adt") or "").endswith("InitialValueAssignmentKind"):
            sw = (i, si)
            break
    if sw is None:
        rep.error("R-C07-edges", "no match on InitialValueAssignmentKind")
        return
    i, si = sw
    adt = ctx.facts.adts["ironplc_dsl::common::InitialValueAssignmentKind"]
    edge_bbs = {c.bb for c in b.calls() if (c.callee or "").endswith("StableGraph::add_edge")}
    arm_of = {}
    for succ, labs in si["edges"].items():
        for l in labs:
            arm_of[l] = succ
    other_arms = set(arm_of.values())
    # kinds that the grammar uses for *references* (VAR_EXTERNAL): a reference to a declaration is not containment, so such a kind may
    # not add an edge (the builder does not look at var_type) - otherwise `A { VAR b : B }`, `B { VAR_EXTERNAL a : A }` is "recursive"
    ref_kinds = {}
    g = ctx.peg
    for rule, seq in g.all_seqs():
        code = " ".join(t.v for t in seq.action.code) if seq.action is not None else ""
        if not re.search(r"VariableType\s*::\s*External", code):
            continue
        for e in seq.elems:
            if e.label and e.prim.kind == "call" and e.prim.name in g.rules:
                sub = g.rules[e.prim.name]
                subcode = []
                g.walk_elems(sub.expr, lambda e2, s2, c2: None)
                for r2, s2 in g.all_seqs():
                    if r2.name == sub.name and s2.action is not None:
                        subcode.append(" ".join(t.v for t in s2.action.code))
                for k in re.findall(r"InitialValueAssignmentKind\s*::\s*(\w+)", " ".join(subcode)):
                    ref_kinds[k] = "%s (via %s)" % (rule.name, sub.name)
    ext_cut = external_not_descended(ctx)
    for v in adt["variants"]:
        name = v["name"]
        succ = arm_of.get(name, arm_of.get("otherwise"))
        if name in ref_kinds and succ is not None:
            region0 = b.reachable(succ, avoid=other_arms - {succ})
            inst0 = "InitialValueAssignmentKind::%s|reference kind" % name
            if ext_cut is not None:
                r.ok(inst0, ext_cut, "used for VAR_EXTERNAL references (%s); the builder's visit_var_decl returns for VariableType::External without descending, so the "
                                     "initialiser of a reference is never visited" % ref_kinds[name])
            elif region0 & edge_bbs and len([l for l, s_ in arm_of.items() if s_ == succ]) == 1:
                r.finding(inst0 + "|adds-edge", "%s:%d" % (b.f["file"], b.f["line"]), "the grammar builds VAR_EXTERNAL declarations with this kind (%s); an edge for it turns a reference "
                          "into containment: an acyclic unit whose inner block refers back to an outer one through VAR_EXTERNAL is reported as recursive" % ref_kinds[name])
            else:
                r.ok(inst0, "%s:%d" % (b.f["file"], b.f["line"]), "used for VAR_EXTERNAL references (%s); adds no edge" % ref_kinds[name])
        inst = "InitialValueAssignmentKind::%s" % name
        where = "%s:%d" % (b.f["file"], b.f["line"])
        if succ is None:
            r.finding(inst + "|unhandled", where, "variant not handled")
            continue
        # blocks of this arm: reachable from succ without entering another arm's entry
        region = b.reachable(succ, avoid=other_arms - {succ})
        has_edge = bool(region & edge_bbs) and not all(len([l for l, s in arm_of.items() if s == succ]) > 1 and False for _ in [0])
        shared = [l for l, s in arm_of.items() if s == succ]
        if has_edge and len(shared) == 1:
            r.ok(inst, where, "adds an edge")
        elif name in CANNOT_CYCLE:
            r.justified(inst, "cannot close a cycle: " + CANNOT_CYCLE[name], where)
        else:
            r.finding(inst + "|no-edge", where, "a %s initialiser names another declaration but contributes no edge: a self-containing structure through it is accepted" % name)


def _is_some(b, rv):
    """the assigned value is Some(..): the aggregate itself or a temporary that holds it"""
    if rv[0] == "agg" and isinstance(rv[1], dict) and rv[1].get("variant") == "Some":
        return True
    if rv[0] == "use":
        p = op_place(rv[1])
        d = b.single_def(p[0]) if p is not None and not p[1] else None
        return bool(d and d[0] == "stmt" and d[3][0] == "agg" and isinstance(d[3][1], dict) and d[3][1].get("variant") == "Some")
    return False


def rule_context(ctx, rep, rid="R-C07-context"):
    """The graph builder refuses (P9999 'not implemented') when it meets an initializer while no declaration is current: the methods that
    read `current_from` return an error for None.  So on every way the traversal leads from a kind of library element or type declaration to
    such a method there must be an override that sets the context - otherwise a valid declaration of that kind (`TYPE A : INT := 1;`) is
    rejected by the sort, and a cycle through it (`A : B := 1; B : A := 1;`) is never seen as a cycle."""
    from vlib.traversal import Traversal, snake
    r = rep.rule(rid, "every way from a library element / type declaration kind to a method of the graph builder that needs the current declaration passes an override that sets it",
                 floor=8, floor_what="declaration kinds examined")
    T = Traversal(ctx, "visit")
    ov = {}
    for st, ms in T.impls(("ironplc_analyzer",)).items():
        if st.split("<")[0] == VIS:
            ov = ms
    if not ov:
        rep.error(rid, "graph builder overrides not found")
        return
    cfs = context_fields(ctx)         # found by role (the field that is assigned Some(<the visited declaration's own name>)), not by name
    if not cfs:
        rep.error(rid, "the graph builder's current-declaration field was not found")
        return
    setters, consumers = set(), set()
    for m, b in ov.items():
        for bd in [b] + [cb for cb in ctx.prog.bodies.values() if cb.f.get("parent") == b.id]:
            for _, _, st_ in bd.all_stmts():
                if st_[0] == "=":
                    fs = [x for x in st_[1][1] if isinstance(x, list) and x[0] == "f"]
                    if fs and fs[-1][3] == VIS and fs[-1][2] in cfs and _is_some(bd, st_[2]):
                        setters.add(m)
            # a consumer: branches on the discriminant of self.current_from and builds an Err on the None edge
            for i in range(len(bd.bbs)):
                si = switch_info(bd, i)
                if si and si["kind"] == "disc" and si["subject"][0] == "place":
                    fs = [x for x in si["subject"][1][1] if isinstance(x, list) and x[0] == "f"]
                    if fs and fs[-1][3] == VIS and fs[-1][2] in cfs:
                        for succ, labs in si["edges"].items():
                            if labs == ["None"]:
                                region = bd.reachable(succ, avoid={s2 for s2 in si["edges"] if s2 != succ})
                                if any(s_[0] == "=" and s_[2][0] == "agg" and isinstance(s_[2][1], dict) and s_[2][1].get("variant") == "Err" for i2, _, s_ in bd.all_stmts() if i2 in region) or \
                                        any((c.callee or "").endswith("Diagnostic::todo") and c.bb in region for c in bd.calls()):
                                    consumers.add(m)
    # helper setters: a method that calls a helper which assigns Some (followed one level)
    for m, b in ov.items():
        for c in b.calls():
            for hb in ctx.prog.get(c.callee or ""):
                if (hb.f.get("impl") or {}).get("self") == VIS and not (hb.f.get("impl") or {}).get("trait_def"):
                    for _, _, st_ in hb.all_stmts():
                        if st_[0] == "=":
                            fs = [x for x in st_[1][1] if isinstance(x, list) and x[0] == "f"]
                            if fs and fs[-1][3] == VIS and fs[-1][2] in cfs and _is_some(hb, st_[2]):
                                setters.add(m)
    if not consumers:
        rep.error(rid, "no method of the graph builder tests current_from (anchor moved)")
        return
    tops = []
    for en in ("ironplc_dsl::common::LibraryElementKind", "ironplc_dsl::common::DataTypeDeclarationKind"):
        for v in (ctx.facts.adts.get(en) or {}).get("variants", []):
            for fl in v["fields"]:
                if fl["ty"] in ctx.facts.adts and ctx.facts.adts[fl["ty"]]["kind"] == "struct":
                    tops.append("visit_" + snake(fl["ty"].split("::")[-1]))
    for top in sorted(set(tops)):
        seen, stack, hit = set(), [(("v", top), (top,))], None
        while stack and hit is None:
            n, path = stack.pop()
            if n in seen:
                continue
            seen.add(n)
            if n[0] == "v" and n[1] in setters:
                continue
            if n[0] == "v" and n[1] in consumers:
                hit = path
                break
            for m in T.succ(n, ov):
                stack.append((m, path + ((m[1],) if m[0] == "v" else ())))
        inst = top.replace("visit_", "")
        where = "analyzer/src/xform_toposort_declarations.rs"
        if hit is None:
            r.ok(inst, where, "sets the context itself or reaches no method that needs it")
        else:
            r.finding(inst + "|no-context", where, "a %s reaches %s with no declaration current (%s): the sort answers P9999 for a valid declaration of this kind, and a cycle "
                      "through it is not found" % (inst, hit[-1], " -> ".join(list(hit)[:6])))


def rule_decl_edges(ctx, rep, rid="R-C07-decledges", order_only=False):
    """Every kind of type declaration whose definition can *name another type directly* (not through an initialiser, which
    R-C07-edges covers) must add an edge where it is visited: the alias `A : B`, an enumeration / subrange / array declared as
    another named type.  The kinds are computed from the DSL type definitions: a payload type D of DataTypeDeclarationKind refers to
    another type if a `Type` is reachable from its fields other than its own name, without passing InitialValueAssignmentKind."""
    r = rep.rule(rid, "every data-type declaration kind that can name another type in its definition adds a graph edge in its visit "
                                    "override of the declaration-graph builder", floor=4, floor_what="declaration kinds that can name another type")
    adts = ctx.facts.adts
    kind = adts.get("ironplc_dsl::common::DataTypeDeclarationKind")
    if not kind:
        rep.error(rid, "DataTypeDeclarationKind not found")
        return
    TYPE = "ironplc_dsl::common::Type"
    IVAK = "ironplc_dsl::common::InitialValueAssignmentKind"

    def mentions(ty):
        return [m.group(0) for m in re.finditer(r"ironplc_dsl::[A-Za-z_:]*[A-Za-z_]", ty)]

    def reaches_type(adt_id, seen):
        if adt_id in seen or adt_id == IVAK:
            return False
        seen.add(adt_id)
        a = adts.get(adt_id)
        if not a:
            return False
        for v in a["variants"]:
            for fl in v["fields"]:
                for t in mentions(fl["ty"]):
                    if t == TYPE or reaches_type(t, seen):
                        return True
        return False
    overrides = {b.f["name"]: b for b in ctx.prog.bodies.values() if (b.f.get("impl") or {}).get("self") == VIS}
    from vlib.traversal import snake
    for v in kind["variants"]:
        payload = [t for fl in v["fields"] for t in mentions(fl["ty"])]
        for d in payload:
            a = adts.get(d)
            if not a:
                continue
            refs = False
            own_seen = 0
            for vv in a["variants"]:
                for fl in vv["fields"]:
                    ts = mentions(fl["ty"])
                    if fl["name"] in ("type_name", "data_type_name") and ts == [TYPE] and not own_seen:
                        own_seen = 1          # the declaration's own name
                        continue
                    for t in ts:
                        if t == TYPE or reaches_type(t, set()):
                            refs = True
            inst = "%s" % d.split("::")[-1]
            where = "%s:%d" % (a["file"], a["line"])
            if not refs:
                continue
            m = "visit_" + snake(d.split("::")[-1])
            ob = overrides.get(m)
            if ob is None and order_only:
                # for the order-independence property only: a kind the graph builder never visits gets no node either, and the re-assembly
                # emits declarations by node - such a declaration is not in the sorted library at all (that is the C03/C07 known
                # finding), so its position in the input cannot influence the order of the others
                r.justified(inst, "no override, hence no node: the declaration never reaches the sorted library (decided under C03 R-C03-drain and C07 R-C07-decledges), "
                            "so its position cannot change the order", where)
                continue
            if ob is None:
                r.finding(inst + "|no-override", where, "%s can name another type but the graph builder has no %s override: the reference adds no edge" % (inst, m))
                continue
            bodies = [ob] + [cb for cb in ctx.prog.bodies.values() if cb.f["dk"] == "Closure" and cb.f.get("parent") == ob.id]
            has = any(may_do(ctx, bd, "::add_edge") for bd in bodies)
            if has:
                r.ok(inst, "%s:%d" % (ob.f["file"], ob.f["line"]), m + " adds an edge")
            else:
                r.finding(inst + "|no-edge", "%s:%d" % (ob.f["file"], ob.f["line"]), "%s never adds an edge although a %s can be declared as another named type: "
                          "a cycle through such a declaration is not a cycle of the graph" % (m, inst))


def rule_edgeguard(ctx, rep, rid="R-C07-edgeguard"):
    """An edge of the declaration graph is a fact about two declarations.  Whether it is inserted may depend on the declaration being
    visited (its kind, its initializer, the container it is in), never on what the traversal has seen before: an insertion that is
    guarded by a look-up in a collection the visitor fills on its way (a "seen" set, a de-duplication table) drops the edge for a
    later declaration that happens to repeat a name - and with it a cycle."""
    r = rep.rule(rid, "no insertion of an edge is guarded by a membership test / insert on a collection that the graph builder fills while it walks "
                      "(edges depend on the declaration visited, not on the traversal's history)", floor=4, floor_what="add_edge sites")
    from vlib.mir import switch_info
    n = 0
    for b in sorted(ctx.prog.bodies.values(), key=lambda x: x.id):
        if b.f["crate"] != "ironplc_analyzer" or "xform_toposort_declarations" not in b.f["file"] or "::test" in norm(b.id):
            continue
        dom = b.dominators()
        k = 0
        for c in sorted(b.calls(), key=lambda c: (c.loc[0], c.loc[1])):
            if not (c.callee or "").endswith("::add_edge") and edge_wrapper(ctx, c.callee) is None:
                continue
            n += 1
            k += 1
            inst = "%s|add_edge#%d" % (b.f["name"], k)
            bad = None
            for d_ in dom.get(c.bb, set()):
                si = switch_info(b, d_)
                if not si or si["subject"][0] != "call":
                    continue
                g = si["subject"][1]
                gm = (g.callee or g.u or "").split("::")[-1]
                if gm not in ("insert", "contains", "contains_key", "get", "replace", "remove", "take") or not g.args:
                    continue
                if not re.search(r"HashSet|HashMap|BTreeSet|BTreeMap|Vec", g.callee or ""):
                    continue
                rp = op_place(g.args[0])
                rt = b.root(rp) if rp is not None else None
                fs = [x for x in (rt[1] if rt else []) if isinstance(x, list) and x[0] == "f"]
                if rt and rt[0] == 1 and fs:
                    bad = (gm, ".".join(x[2] for x in fs))
            if bad:
                r.finding(inst + "|guarded by %s" % bad[1], loc_str(b.f, c.loc), "the edge is only inserted depending on %s() of the visitor's own `%s`, which it fills while it walks: a declaration that "
                          "repeats a name seen earlier gets no edge, and a cycle through it is not a cycle of the graph" % bad)
            else:
                r.ok(inst, loc_str(b.f, c.loc))
    # the same for the recursion that produces a declaration's edges: whether a declaration's body is walked may not depend on the state
    # of the graph (a name is "already there" as soon as an earlier declaration referred to it)
    for b in sorted(ctx.prog.bodies.values(), key=lambda x: x.id):
        im = b.f.get("impl") or {}
        if im.get("self") != VIS or im.get("trait_def") != "ironplc_dsl::visitor::Visitor" or "::test" in norm(b.id):
            continue
        dom = b.dominators()
        for c in b.calls():
            if not (c.callee or c.u or "").endswith("recurse_visit"):
                continue
            for d_ in dom.get(c.bb, set()):
                si = switch_info(b, d_)
                if not si or si["subject"][0] != "call":
                    continue
                g = si["subject"][1]
                users = [g]
                # `x.is_none()` / `x.is_some()` of a call result
                if (g.callee or "").endswith(("Option::is_none", "Option::is_some", "Option::<T>::is_none", "Option::<T>::is_some")) and g.args:
                    gp = op_place(g.args[0])
                    gd = b.single_def(b.root(gp)[0]) if gp is not None else None
                    if gd and gd[0] == "call":
                        users.append(gd[2])
                for gg in users:
                    if not gg.args:
                        continue
                    rp = op_place(gg.args[0])
                    rt = b.root(rp) if rp is not None else None
                    fs = [x for x in (rt[1] if rt else []) if isinstance(x, list) and x[0] == "f"]
                    gm = (gg.callee or "")
                    state = rt is not None and rt[0] == 1 and fs and fs[0][2] in ("declarations",) and (gm.startswith("ironplc_analyzer::") or re.search(r"HashMap|HashSet|BTree", gm))
                    if state and si["kind"] in ("disc", "bool"):
                        r.finding("%s|walk guarded by %s" % (b.f["name"], gm.split("::")[-1]), loc_str(b.f, c.loc), "whether the body of the declaration is walked (and its references become edges) depends "
                                  "on %s() of the graph built so far: a declaration that an earlier one already referred to is skipped, so every cycle of two or more declarations disappears" % gm.split("::")[-1])
    if not n:
        rep.error(rid, "no add_edge site found")


def must_call(ctx, b, suffix, depth=2, _seen=None):
    """does every path from the entry of `b` to a return pass a call of a function whose name ends with `suffix` (directly, or
    through a workspace callee for which the same holds)?  A wrapper counts as doing X only when all its paths do."""
    _seen = _seen or set()
    if b.id in _seen:
        return False
    _seen = _seen | {b.id}
    hits = set()
    for c in b.calls():
        nm = c.callee or ""
        if nm.endswith(suffix):
            hits.add(c.bb)
        elif depth and nm.startswith("ironplc_") and not nm.endswith(("recurse_visit", "::walk")):
            for cb in ctx.prog.get(nm) or []:
                if must_call(ctx, cb, suffix, depth - 1, _seen):
                    hits.add(c.bb)
                    break
    if not hits:
        return False
    for x in b.reachable(0, avoid=hits):
        if b.term(x)[0] == "ret":
            return False
    return True


def may_do(ctx, b, suffix, depth=2):
    """a call of `suffix` in `b` itself, or a call of a workspace function that must_call it"""
    for c in b.calls():
        nm = c.callee or ""
        if nm.endswith(suffix):
            return True
        if depth and nm.startswith("ironplc_analyzer::") and not nm.endswith(("recurse_visit", "::walk")):
            if any(must_call(ctx, cb, suffix, depth - 1) for cb in ctx.prog.get(nm) or []):
                return True
    return False


def rule_map(ctx, rep):
    r = rep.rule("R-C07-map", "a cycle found by the topological sort becomes Problem::RecursiveCycle and is propagated by apply; the alias walk "
                              "in find_enum_declaration_values has a seen-set test on every iteration whose hit constructs Problem::EnumRecursive", floor=4)
    sb = ctx.prog.get(GRAPH + "::sorted_ids")
    ab = ctx.prog.get("ironplc_analyzer::xform_toposort_declarations::apply")
    if not sb or not ab:
        rep.error("R-C07-map", "sorted_ids/apply not found")
        return
    b = sb[0]
    ts = [c for c in b.calls() if c.callee == "petgraph::algo::toposort"]
    where = "%s:%d" % (b.f["file"], b.f["line"])
    if len(ts) != 1:
        r.finding("sorted_ids|toposort-calls=%d" % len(ts), where, "cycle detection is no longer a single petgraph::algo::toposort over the whole graph (which also rejects self-loops)")
    else:
        # its Err is mapped by a closure that constructs RecursiveCycle, and the mapped result is `?`-propagated
        me = [c for c in b.calls() if c.callee == "core::result::Result::map_err" and op_place(c.args[0]) and b.root(op_place(c.args[0]))[0] == ts[0].dest[0]]
        ok = False
        if me:
            p = op_place(me[0].args[1])
            d = b.single_def(p[0]) if p else None
            def builds_cycle_problem(body, depth=2, seen=None):
                """Problem::RecursiveCycle is constructed in the body, or in a helper of the analyzer it calls (`self.cycle_diagnostic(..)`)"""
                seen = seen if seen is not None else set()
                if body.id in seen:
                    return False
                seen.add(body.id)
                for _, _, s in body.all_stmts():
                    if s[0] == "=" and s[2][0] == "agg" and isinstance(s[2][1], dict) and s[2][1].get("adt") == "ironplc_problems::Problem" and s[2][1].get("variant") == "RecursiveCycle":
                        return True
                if depth > 0:
                    for c2 in body.calls():
                        if (c2.callee or "").startswith("ironplc_analyzer::"):
                            for hb in ctx.prog.get(c2.callee):
                                if builds_cycle_problem(hb, depth - 1, seen):
                                    return True
                return False
            if d and d[0] == "stmt" and d[3][0] == "agg" and d[3][1].get("k") == "closure":
                for cb in ctx.prog.get(norm(d[3][1]["def"])):
                    if builds_cycle_problem(cb):
                        ok = True
            elif p is not None:
                # a named function handed to map_err
                c0 = b.const_of(me[0].args[1]) if hasattr(b, "const_of") else None
                if c0 is not None and len(c0) > 3 and isinstance(c0[3], dict) and "rfn" in c0[3]:
                    for cb in ctx.prog.get(norm(c0[3]["rfn"])):
                        if builds_cycle_problem(cb):
                            ok = True
        br = [c for c in b.calls() if "Try>::branch" in (c.callee or "") and me and op_place(c.args[0]) and b.root(op_place(c.args[0]))[0] == me[0].dest[0]]
        if ok and br:
            r.ok("sorted_ids|toposort Err -> RecursiveCycle -> ?", where)
        else:
            r.finding("sorted_ids|cycle-error-mapping", where, "toposort's cycle error is not mapped to Problem::RecursiveCycle and propagated")
        # the graph handed to toposort is the whole declarations graph
        gp = op_place(ts[0].args[0])
        grt = b.root(gp) if gp else None
        if grt and [x[2] for x in grt[1] if isinstance(x, list) and x[0] == "f"] == ["graph"]:
            r.ok("sorted_ids|sorts self.graph", where)
        else:
            r.finding("sorted_ids|graph-arg", where, "toposort is not applied to self.graph")
    a = ab[0]
    sc = [c for c in a.calls() if c.callee == GRAPH + "::sorted_ids"]
    ok = False
    if sc:
        # result goes through map_err(..)? : a Try::branch consumes (a mapping of) it and the Break arm returns
        cur = sc[0].dest[0]
        for _ in range(3):
            nxt = [c for c in a.calls() if c.args and op_place(c.args[0]) and a.root(op_place(c.args[0]))[0] == cur]
            if not nxt:
                break
            if "Try>::branch" in (nxt[0].callee or ""):
                ok = True
                break
            cur = nxt[0].dest[0]
    if ok:
        r.ok("apply|propagates sorted_ids' error", "%s:%d" % (a.f["file"], a.f["line"]))
    else:
        r.finding("apply|swallows-cycle-error", "%s:%d" % (a.f["file"], a.f["line"]), "apply does not propagate the error of sorted_ids")
    # alias walk
    fb = ctx.prog.get("ironplc_analyzer::rule_use_declared_enumerated_value::RuleDeclaredEnumeratedValues::find_enum_declaration_values")
    if not fb:
        rep.error("R-C07-map", "find_enum_declaration_values not found")
        return
    f = fb[0]
    where = "%s:%d" % (f.f["file"], f.f["line"])
    # loop header = target of a back edge; the seen-set `contains` test must lie on every cycle, and the set must be a fresh local
    back = [(i, s) for i in f.reachable(0) for s in f.succ(i) if s in f.dominators().get(i, set())]
    cont = [c for c in f.calls() if (c.callee or "").endswith("HashSet::contains")]
    ins = [c for c in f.calls() if (c.callee or "").endswith("HashSet::insert")]
    new = [c for c in f.calls() if (c.callee or "").endswith("HashSet::new")]
    probs = []
    if not back:
        probs.append("no loop found")
    if not cont or not ins:
        probs.append("no seen-set insert/contains")
    else:
        for (src, hdr) in back:
            if not any(c.bb in f.dominators().get(src, set()) and hdr in f.dominators().get(c.bb, set()) for c in cont):
                probs.append("a back edge is not guarded by the seen-set test")
        # the set is created inside this function (fresh per walk) and is a local, not a field
        for c in cont + ins:
            rt = f.root(op_place(c.args[0]))
            if [x for x in rt[1] if isinstance(x, list) and x[0] == "f"]:
                probs.append("the seen-set is a field (state survives between walks)")
        if not new:
            probs.append("the seen-set is not created by this function")
        # hit constructs EnumRecursive
        hit = False
        for c in cont:
            si = switch_info(f, c.target) if c.target is not None else None
            if si and si["kind"] == "bool":
                for succ, lab in si["edges"].items():
                    if lab == [True]:
                        region = f.reachable(succ)
                        for _, (i, j, s) in enumerate(f.all_stmts()):
                            if i in region and s[0] == "=" and s[2][0] == "agg" and s[2][1].get("adt") == "ironplc_problems::Problem" and s[2][1]["variant"] == "EnumRecursive":
                                hit = True
        if not hit:
            probs.append("a seen-set hit does not construct Problem::EnumRecursive")
    if probs:
        r.finding("find_enum_declaration_values|" + ";".join(sorted(set(probs)))[:80], where, "; ".join(sorted(set(probs))))
    else:
        r.ok("find_enum_declaration_values|guarded alias walk", where)


def run(ctx, rep):
    rep.not_decided += ["exactness on all graphs (petgraph::toposort is trusted for the graph that was built)", "absence of false cycles for every acyclic unit (value-level)"]
    rep.assumptions += ["petgraph::algo::toposort returns Err exactly when the graph has a cycle, self-loops included"]
    rule_orient(ctx, rep)
    rule_edges(ctx, rep)
    rule_map(ctx, rep)
    rule_decl_edges(ctx, rep)
    rule_context(ctx, rep)
    rule_edgeguard(ctx, rep)
    # the cycle check sees the whole unit: the sort runs once, on the joined library, first
    from rules.c06 import rule_pipeline
    rule_pipeline(ctx, rep, rid="R-C07-pipeline")
    # state of the graph builder that is meant per declaration does not leak into the next one
    from rules.c02 import rule_scope
    rule_scope(ctx, rep, rid="R-C07-scope")
    # a node per *name*: the declaration graph's name->node maps must identify names the way the language does
    from rules.c08 import rule_keys
    rule_keys(ctx, rep, rid="R-C07-keys", files=("xform_toposort_declarations", "xform_resolve_late_bound_data_decl", "symbol_graph"), floor=3,
              what="the declaration graphs map names to nodes case-insensitively, so a reference and its declaration always meet in one node: every name table of the graph modules")
