"""C02 — The check verdict agrees with the documented semantic rules (DESIGN.md §3 C02): structural necessary conditions."""
import os, re
from vlib.mir import norm, loc_str, op_place, switch_info, explore
from vlib.traversal import Traversal, snake
from vlib import facts as _facts

A = "ironplc_analyzer::"
# rule module -> published problem codes it may (and must) emit: from the module docs and docs/compiler/problems
RULE_CODES = {
    "rule_decl_struct_element_unique_names": {"StructureDuplicatedElement"},
    "rule_decl_subrange_limits": {"SubrangeMinStrictlyLessMax"},
    "rule_enumeration_values_unique": {"EnumTypeDeclDuplicateItem"},
    "rule_function_block_invocation": {"FunctionCallMixedArgTypes", "FunctionInvocationMissingInput", "FunctionInvocationRequiresFormal",
                                       "FunctionInvocationUndefinedOutput", "FunctionBlockNotInScope"},
    "rule_program_task_definition_exists": {"ProgramMissingTaskConfig"},
    "rule_unsupported_stdlib_type": {"UnsupportedStdLibType"},
    "rule_use_declared_enumerated_value": {"EnumNotDeclared", "EnumRecursive", "EnumValueNotDefined"},
    "rule_use_declared_symbolic_var": {"VariableUndefined"},
    "rule_var_decl_const_initialized": {"ConstantMustHaveInitializer"},
    "rule_var_decl_const_not_fb": {"FunctionBlockNotConstant"},
    "rule_var_decl_global_const_requires_external_const": {"VariableMustBeConst"},
    "xform_resolve_late_bound_data_decl": {"DeclarationNameDuplicated"},
    "xform_resolve_late_bound_type_initializer": {"DefinitionNameDuplicated", "UndeclaredUnknownType"},
    "xform_toposort_declarations": {"RecursiveCycle", "DeclarationNameDuplicated"},   # P0019 since the duplicate-name repair
    "stages": {"NoContent"},
}


def fn_table(b):
    """ordered function constants of the vec![..] literal in a stage function"""
    order = []
    for i, j, s in b.all_stmts():
        if s[0] == "=" and s[2][0] == "agg" and s[2][1].get("k") == "array":
            for o in s[2][2]:
                k = None
                if o[0] == "c" and len(o) > 3 and "rfn" in o[3]:
                    k = o[3]["rfn"]
                else:
                    p = op_place(o)
                    d = b.single_def(p[0]) if p and not p[1] else None
                    if d and d[0] == "stmt" and d[3][0] == "cast":
                        kk = d[3][2]
                        if kk[0] == "c" and len(kk) > 3 and "rfn" in kk[3]:
                            k = kk[3]["rfn"]
                if k:
                    order.append(norm(k))
    return order


def rule_registry(ctx, rep):
    r = rep.rule("R-C02-registry", "every rule_*::apply is registered in stages::semantic, every xform_*::apply in stages::resolve_types; analyze "
                                   "propagates resolve_types' errors and returns semantic's result", floor=17, floor_what="registrations + obligations")
    sem = ctx.prog.get(A + "stages::semantic")
    res = ctx.prog.get(A + "stages::resolve_types")
    ana = ctx.prog.get(A + "stages::analyze")
    if not (sem and res and ana):
        rep.error("R-C02-registry", "stages::{semantic,resolve_types,analyze} not found")
        return
    reg_rules = fn_table(sem[0])
    reg_x = fn_table(res[0])
    for b in sorted(ctx.prog.bodies.values(), key=lambda x: x.id):
        n = norm(b.id)
        m = re.fullmatch(r"ironplc_analyzer::((rule|xform)_\w+)::apply", n)
        if not m:
            continue
        table = reg_rules if m.group(2) == "rule" else reg_x
        where = "%s:%d" % (b.f["file"], b.f["line"])
        c = table.count(n)
        if c == 1:
            r.ok("%s|registered" % m.group(1), where)
        elif c == 0:
            r.finding("%s|unregistered" % m.group(1), where, "%s::apply is defined but not in the %s table: the rule never runs" % (m.group(1), "semantic" if m.group(2) == "rule" else "resolve_types"))
        else:
            r.finding("%s|registered-%d-times" % (m.group(1), c), where, "registered more than once")
    # semantic(): every table entry is called on the library (the loop calls the fn pointer) and Err results are accumulated
    sb = sem[0]
    from vlib import units
    w_sem = "%s:%d" % (sb.f["file"], sb.f["line"])
    ind = [(bd, c) for bd, c, site in units.calls_in_unit(ctx, sb) if c.callee is None and not (c.u or "")]
    if len(ind) != 1:
        r.finding("semantic|loop-shape", w_sem, "expected one indirect call (the table entry) in semantic and its closures, found %d" % len(ind))
    else:
        bd, c = ind[0]
        every, how = units.visits_every_item(ctx, sb, bd, c)
        if not every:
            r.finding("semantic|entry-skipped", w_sem, "the call of the table entry is not executed for every entry: %s" % how)
        elif not units.result_reaches_return(ctx, sb, bd, c):
            r.finding("semantic|result-dropped", w_sem, "what the table entry returns cannot reach semantic's own result: a rule's diagnostics are thrown away")
        else:
            r.ok("semantic|calls every table entry and accumulates Err", w_sem, how)
    # analyze
    ab = ana[0]
    where = "%s:%d" % (ab.f["file"], ab.f["line"])
    rc = [c for c in ab.calls() if c.callee == A + "stages::resolve_types"]
    sc = [c for c in ab.calls() if c.callee == A + "stages::semantic"]
    if len(rc) == 1 and len(sc) == 1:
        # semantic's argument is resolve_types' Ok value
        ap = op_place(sc[0].args[0])
        art = ab.root(ap) if ap else None
        ok_lib = False
        if art is not None:
            # the library local is the Continue payload of resolve_types(..)?
            cur = art[0]
            for _ in range(6):
                d = ab.single_def(cur)
                if d and d[0] == "call" and "Try>::branch" in (d[2].callee or ""):
                    bp = op_place(d[2].args[0])
                    if bp is not None and ab.root(bp)[0] == rc[0].dest[0]:
                        ok_lib = True
                    break
                if d and d[0] == "stmt" and d[3][0] == "use" and d[3][1][0] in ("cp", "mv"):
                    cur = ab.root(d[3][1][1])[0]
                    continue
                break
        if ok_lib:
            r.ok("analyze|semantic(resolve_types(sources)?)", where)
        else:
            r.finding("analyze|semantic-input", where, "semantic is not applied to the library returned by resolve_types")
        # every Ok-path return value is semantic's result: the final `_0 = move result`
        dl = sc[0].dest[0]
        ret_from_sem = False
        for i, j, s in ab.all_stmts():
            if s[0] == "=" and s[1] == [0, []] and s[2][0] == "use":
                p = op_place(s[2][1])
                if p is not None and ab.root(p)[0] == dl:
                    ret_from_sem = True
        other_ok = [s for _, _, s in ab.all_stmts() if s[0] == "=" and s[1] == [0, []] and s[2][0] == "agg" and s[2][1].get("variant") == "Ok"]
        if ret_from_sem and not other_ok:
            r.ok("analyze|returns semantic's result", where)
        else:
            r.finding("analyze|return", where, "analyze can return Ok without it being semantic's result")
    else:
        r.finding("analyze|calls", where, "analyze must call resolve_types and semantic exactly once each")


def rule_code(ctx, rep):
    r = rep.rule("R-C02-code", "each rule/transform module constructs exactly its published problem codes (no other module's), every code in "
                               "problem-codes.csv has a documentation page", floor=26, floor_what="Problem constructions + csv rows")
    seen = {}
    for b in sorted(ctx.prog.bodies.values(), key=lambda x: x.id):
        if b.f["crate"] != "ironplc_analyzer":
            continue
        m = re.search(r"ironplc_analyzer::(\w+)", norm(b.id))
        mod = m.group(1) if m else "?"
        for i, j, s in b.all_stmts():
            if s[0] == "=" and s[2][0] == "agg" and s[2][1].get("adt") == "ironplc_problems::Problem":
                v = s[2][1]["variant"]
                k = seen[(mod, v)] = seen.get((mod, v), 0) + 1
                inst = "%s|Problem::%s#%d" % (mod, v, k)
                allowed = RULE_CODES.get(mod)
                if allowed is None:
                    r.finding(inst, loc_str(b.f, s[3]), "module %s is not in the rule->code table but constructs a diagnostic" % mod)
                elif v in allowed:
                    r.ok(inst, loc_str(b.f, s[3]))
                else:
                    r.finding(inst, loc_str(b.f, s[3]), "module %s emits %s, which is not one of its published codes %s" % (mod, v, sorted(allowed)))
    for mod, codes in sorted(RULE_CODES.items()):
        for v in sorted(codes):
            if (mod, v) not in seen:
                r.finding("%s|Problem::%s|never-constructed" % (mod, v), None, "published code %s of %s is never constructed: the rule cannot report it" % (v, mod))
    # csv <-> docs
    csv = os.path.join(_facts.REPO, "compiler", "problems", "resources", "problem-codes.csv")
    docs = os.path.join(_facts.REPO, "docs", "compiler", "problems")
    rows = [l.strip().split(",") for l in open(csv).read().splitlines()[1:] if l.strip()]
    names = {row[1]: row[0] for row in rows}
    for code, name in sorted((row[0], row[1]) for row in rows):
        if os.path.exists(os.path.join(docs, code + ".rst")):
            r.ok("csv|%s %s documented" % (code, name), "compiler/problems/resources/problem-codes.csv")
        else:
            r.finding("csv|%s %s|undocumented" % (code, name), "compiler/problems/resources/problem-codes.csv", "no docs/compiler/problems/%s.rst" % code)
    for (mod, v) in seen:
        if v not in names:
            r.finding("%s|Problem::%s|not-in-csv" % (mod, v), None, "variant has no row in problem-codes.csv")


_CONT = {}


def direct_read_gaps(ctx, T, b, ty):
    """(E, field of T, child type) such that the non-recursing override `b` of visit_<ty> reads fields of the DSL type E (E != ty),
    never touches field `f` of ty, and E occurs at or below the type of `f`."""
    adts = ctx.facts.adts
    dsl = {aid for aid, a in adts.items() if a["crate"] == "ironplc_dsl"}
    if not hasattr(T, "_cont_cache"):
        T._cont_cache = T.containment()      # per Traversal (one per tree analysed): never shared between trees
    cont = T._cont_cache

    def closure(t0):
        seen, st = set(), [t0]
        while st:
            x = st.pop()
            if x in seen:
                continue
            seen.add(x)
            st.extend(cont.get(x, ()))
        return seen
    tread, eread = set(), set()
    bodies = [b] + [cb for cb in ctx.prog.bodies.values() if cb.f["dk"] == "Closure" and cb.f.get("parent") == b.id]
    for bd in bodies:
        closure_body = bd.f["dk"] == "Closure"
        for _, _, pl in bd.place_uses():
            rt = bd.root(pl) or pl
            # a place reached from the node argument by field projections alone addresses one named child of the node ("this
            # node's type_name"); only nodes obtained some other way (iteration, a call) are "every E of that collection" reads
            own = (not closure_body) and rt[0] == 2
            for pr in rt[1]:
                if isinstance(pr, list) and pr[0] == "f":
                    if pr[3] == ty:
                        tread.add(pr[2])
                    elif pr[3] in dsl and not own:
                        eread.add(pr[3])
    out = []
    a = adts.get(ty)
    if not a or not eread:
        return out
    for v in a["variants"]:
        for fl in v["fields"]:
            if fl["name"] in tread:
                continue
            kids = {m.group(0) for m in re.finditer(r"ironplc_dsl::[A-Za-z_:]*[A-Za-z_]", fl["ty"]) if m.group(0) in dsl}
            for k in sorted(kids):
                cl = closure(k)
                for E in sorted(eread):
                    if E in cl:
                        out.append((E, fl["name"], k))
    return out


def fields_read(ctx, b, ty):
    """names of the fields of DSL type `ty` that the override `b` (or a closure of it) reads"""
    out = set()
    bodies = [b] + [cb for cb in ctx.prog.bodies.values() if cb.f["dk"] == "Closure" and cb.f.get("parent") == b.id]
    for bd in bodies:
        for _, _, pl in bd.place_uses():
            rt = bd.root(pl) or pl
            for pr in rt[1]:
                if isinstance(pr, list) and pr[0] == "f" and pr[3] == ty:
                    out.add(pr[2])
    return out


def dsl_types_in(ctx, tystr):
    return {m.group(0) for m in re.finditer(r"ironplc_dsl::[A-Za-z_:]*[A-Za-z_]", tystr) if m.group(0) in ctx.facts.adts}


def type_closure(T, t0):
    if not hasattr(T, "_cont_cache"):
        T._cont_cache = T.containment()      # per Traversal (one per tree analysed): never shared between trees
    cont = T._cont_cache
    seen, st = set(), [t0]
    while st:
        x = st.pop()
        if x in seen:
            continue
        seen.add(x)
        st.extend(cont.get(x, ()))
    return seen


# (visitor module, override, target not reached below it) -> why that is intended.  R-C02-foreignscope *demands* these two.
FOREIGN_SCOPE_CUTOFF = {
    ("rule_use_declared_symbolic_var", "visit_program_connection_source", "visit_named_variable"):
        "the destination of `x := 5` in a program configuration is a variable of the program, not of the configuration whose scope the rule is in (R-C02-foreignscope)",
    ("rule_use_declared_symbolic_var", "visit_program_connection_sink", "visit_named_variable"):
        "the source of `y => g` in a program configuration is a variable of the program, not of the configuration whose scope the rule is in (R-C02-foreignscope)",
}


def rule_reach(ctx, rep):
    r = rep.rule("R-C02-reach", "a rule is applied wherever the construct it checks can occur: every overridden visit method is reachable from "
                                "Library under the visitor's effective traversal; a non-recursing override cuts off no other target of the same "
                                "visitor; no containment edge above a rule target is hidden from the default traversal", floor=30, floor_what="overrides + containment edges")
    T = Traversal(ctx, "visit")
    if len(T.default) < 100 or len(T.recurse) < 95:
        rep.error("R-C02-reach", "traversal graph too small: %d default methods, %d recurse_visit bodies" % (len(T.default), len(T.recurse)))
    impls = T.impls({"ironplc_analyzer"})
    if len(impls) < 16:
        rep.error("R-C02-reach", "only %d Visitor impls found in the analyzer (< 16)" % len(impls))
    all_targets = set()
    for v, ms in sorted(impls.items()):
        vname = v.split("::")[-1].split("<")[0] if "<" not in v else v.replace("ironplc_analyzer::", "")
        vname = re.sub(r"<.*", "", v.split("ironplc_analyzer::")[-1])
        R = T.reach([("rv", "ironplc_dsl::common::Library")], ms)
        meth = {x for k, x in R if k == "v"}
        all_targets |= set(ms)
        for m, b in sorted(ms.items()):
            where = "%s:%d" % (b.f["file"], b.f["line"])
            inst = "%s|%s" % (vname, m)
            if m not in meth:
                r.finding(inst + "|dead", where, "override is never reached from Library under this visitor's traversal: the rule cannot fire")
                continue
            es = T.edges_of(b)
            ty = T.method_type.get(m)
            if ty is None:
                r.finding(inst + "|unknown-type", where, "cannot map the method to a DSL type")
                continue
            if ("rv", ty) in es:
                r.ok(inst, where, "continues the default recursion")
                continue
            # direct reads: a non-recursing override that inspects a descendant type E by hand must look at every field of T below
            # which an E can occur (sibling paths to the same construct agree)
            own_reads = fields_read(ctx, b, ty)
            for E, f, via in direct_read_gaps(ctx, T, b, ty):
                if E.endswith("::EnumeratedValue"):
                    # definitions and uses of enumeration values are different roles (table ENUM_FIELDS of c02_enum): a collector of the
                    # *defined* values has no business with a field that holds a *use*
                    from rules.c02_enum import ENUM_FIELDS
                    tshort = ty.split("::")[-1]
                    rc = {ENUM_FIELDS[(tshort, fr)][0] for fr in own_reads if (tshort, fr) in ENUM_FIELDS}
                    gc = ENUM_FIELDS.get((tshort, f))
                    if rc == {"def"} and gc and gc[0] != "def":
                        r.justified("%s|reads %s directly, not field %s" % (inst, E.split("::")[-1], f), "collects the values an enumeration defines (%s); %s.%s holds a use (%s)"
                                    % (", ".join(sorted(own_reads)), tshort, f, gc[1]), where)
                        continue
                r.finding("%s|reads %s directly, ignores field %s" % (inst, E.split("::")[-1], f), where,
                          "the override does not recurse and inspects %s nodes by hand, but %s nodes also occur below %s.%s (via %s), which it never looks at: "
                          "the rule is not applied there" % (E.split("::")[-1], E.split("::")[-1], ty.split("::")[-1], f, via.split("::")[-1]))
            below = T.default_reach_from_type(ty)
            eff = {x for k, x in T.reach(es, ms) if k == "v"}
            miss = (below & set(ms)) - eff - {m}
            # a target below that the override handles itself: every field of this node under which that target's type occurs is read by
            # the override (it inspects those children by hand instead of dispatching to the visitor's method for them)
            by_hand = set()
            for m2 in sorted(miss):
                X = T.method_type.get(m2)
                via_fields = [fl["name"] for v in ctx.facts.adts[ty]["variants"] for fl in v["fields"]
                              if any(X in type_closure(T, k) for k in dsl_types_in(ctx, fl["ty"]))] if X else []
                if via_fields and all(f in own_reads for f in via_fields):
                    by_hand.add(m2)
                    r.ok("%s|handles %s by hand" % (inst, m2), where, "does not recurse; reads %s itself (the only place(s) of a %s below %s)" % (", ".join(via_fields), X.split("::")[-1], ty.split("::")[-1]))
            miss -= by_hand
            # a cut-off that is the point of the override: the nodes below belong to another scope than the one this visitor is in
            for m2 in sorted(miss):
                why = FOREIGN_SCOPE_CUTOFF.get((vname.split("::")[0], m, m2))
                if why:
                    r.justified("%s|cuts off %s" % (inst, m2), why, where)
                    miss.discard(m2)
            if miss:
                r.finding(inst + "|cut-off:" + ",".join(sorted(miss)), where,
                          "override does not continue the recursion, so occurrences of %s below %s are never visited" % (sorted(miss), ty.split("::")[-1]))
            else:
                r.ok(inst, where, "does not recurse; none of this visitor's other targets lies below")
    # blind containment edges
    cont = T.containment()
    # types at or below which some analyzer target lies (containment closure)
    target_types = {T.method_type[m] for m in all_targets if m in T.method_type}

    def below(ty, seen=None):
        seen = seen if seen is not None else set()
        if ty in seen:
            return seen
        seen.add(ty)
        for u in cont.get(ty, ()):
            below(u, seen)
        return seen
    nedges = 0
    for ty, kids in sorted(cont.items()):
        if ty not in T.recurse:
            continue
        visited = {x for k, x in T.recurse[ty] if k == "v"}
        for u in sorted(kids):
            nedges += 1
            want = "visit_" + snake(u.split("::")[-1])
            if want in visited:
                continue
            hidden_targets = below(u) & target_types
            inst = "%s -> %s" % (ty.split("::")[-1], u.split("::")[-1])
            a = ctx.facts.adts[ty]
            if hidden_targets:
                r.finding("blind|" + inst, "%s:%d" % (a["file"], a["line"]),
                          "the default traversal of %s does not visit its %s child, but rule targets %s live at or below it" % (
                              ty.split("::")[-1], u.split("::")[-1], sorted(x.split("::")[-1] for x in hidden_targets)))
            else:
                r.ok("blind-but-harmless|" + inst, "%s:%d" % (a["file"], a["line"]), "not traversed; no rule target at or below")
    r.note("%d containment edges examined, %d visitor impls, %d overrides" % (nedges, len(impls), sum(len(m) for m in impls.values())))


SCOPED_GLOBAL = {   # visitor state that is deliberately library-wide (filled by a complete pass before it is consulted)
    ("rule_var_decl_global_const_requires_external_const::FindGlobalConstVars", "global_consts"): "collected by a complete first pass (apply runs FindGlobalConstVars over the whole library before RuleExternalGlobalConst starts)",
    ("type_table::TypeTable", "referenced_types"): "library-wide set of referenced types by design",
    ("xform_resolve_late_bound_data_decl::TypeDeclResolver", "roots"): "library-wide declaration graph",
    ("xform_resolve_late_bound_data_decl::TypeDeclResolver", "index_to_id"): "library-wide declaration graph",
    ("xform_resolve_late_bound_data_decl::TypeDeclResolver", "declared_types"): "library-wide declaration graph",
    ("xform_toposort_declarations::DeclarationsGraph", "id_to_index"): "library-wide declaration graph",
    ("xform_toposort_declarations::DeclarationsGraph", "index_to_id"): "library-wide declaration graph",
    ("symbol_graph::SymbolGraph", "nodes"): "library-wide declaration graph",
    ("symbol_table::Scope", "table"): "one Scope per enter(): scoping is done by SymbolTable::enter/exit",
    ("rule_use_declared_enumerated_value::FindEnumeratedValues", "values"): "the values of all enumerations: types are library-wide; collected by a complete first pass before the rule's visitor starts",
    ("xform_resolve_late_bound_expr_kind::EnumeratedValueFinder", "values"): "the values of all enumerations: types are library-wide; collected by a complete walk before the fold starts",
}
MUTATORS = {"insert", "push", "extend", "append", "add", "try_add", "push_front", "push_back"}
RESETTERS = {"clear", "exit", "pop_front", "pop_back", "pop", "remove", "drain", "take", "retain"}


def rule_scope(ctx, rep, rid="R-C02-scope"):
    r = rep.rule(rid, "per-scope state of a rule visitor does not leak across scopes: a name table that is filled inside visit_/fold_ methods "
                                "is also cleared/exited by some visit_/fold_ method (scope boundary), and an Option context set in a method is reset on "
                                "every path before that method returns", floor=8, floor_what="stateful visitor fields")
    for aid, a in sorted(ctx.facts.adts.items()):
        if a["crate"] != "ironplc_analyzer" or a["kind"] != "struct":
            continue
        short = aid.replace("ironplc_analyzer::", "")
        for fl in a["variants"][0]["fields"]:
            ty = fl["ty"]
            is_table = bool(re.search(r"HashMap|HashSet|BTreeMap|BTreeSet|SymbolTable|LinkedList|(?<!diagnostic::)Vec<(?!ironplc_dsl::diagnostic)", ty)) and "Diagnostic" not in ty
            # a "context" field: an Option, or a workspace enum whose initial value (at construction) is a fieldless variant
            neutral = None
            if ty.startswith("core::option::Option<"):
                neutral = "None"
            elif ctx.facts.adts.get(ty, {}).get("kind") == "enum":
                for b0 in ctx.prog.bodies.values():
                    if b0.f["crate"] != "ironplc_analyzer":
                        continue
                    for _, _, s0 in b0.all_stmts():
                        if s0[0] == "=" and s0[2][0] == "agg" and s0[2][1].get("adt") == aid and fl["name"] in s0[2][1].get("fields", []):
                            o0 = s0[2][2][s0[2][1]["fields"].index(fl["name"])]
                            p0 = op_place(o0)
                            d0 = b0.single_def(p0[0]) if p0 and not p0[1] else None
                            if d0 and d0[0] == "stmt" and d0[3][0] == "agg" and d0[3][1].get("adt") == ty and not d0[3][2]:
                                neutral = d0[3][1]["variant"]
            is_ctx = neutral is not None
            if not (is_table or is_ctx) or ty.startswith("&'a std") and "mut" not in ty:
                continue
            events = {}   # method -> set(kinds)
            sites = {}
            for b in ctx.prog.bodies.values():
                if b.f["crate"] != "ironplc_analyzer":
                    continue
                for c in b.calls():
                    m = (c.callee or "").split("::")[-1]
                    if not c.args or (m not in MUTATORS and m not in RESETTERS and m != "enter"):
                        continue
                    p = op_place(c.args[0])
                    if p is None:
                        continue
                    fs = [x for x in b.root(p)[1] if isinstance(x, list) and x[0] == "f"]
                    if fs and fs[-1][3] == aid and fs[-1][2] == fl["name"]:
                        events.setdefault(b.f["name"], set()).add("mut" if m in MUTATORS or m == "enter" else "reset")
                        sites[b.f["name"]] = b
                for i, j, s in b.all_stmts():
                    if s[0] == "=":
                        fs = [x for x in s[1][1] if isinstance(x, list) and x[0] == "f"]
                        if fs and fs[-1][3] == aid and fs[-1][2] == fl["name"] and len([x for x in s[1][1] if isinstance(x, list)]) == len(fs):
                            events.setdefault(b.f["name"], set()).add("assign")
                            sites[b.f["name"]] = b
            # methods of a type that implements Visitor/Fold run during the traversal (helpers called from visit_ methods included)
            is_visitor = any((bb.f.get("impl") or {}).get("self", "").split("<")[0] == aid and (bb.f.get("impl") or {}).get("trait_def") in
                             ("ironplc_dsl::visitor::Visitor", "ironplc_dsl::fold::Fold") for bb in ctx.prog.bodies.values() if bb.f["crate"] == "ironplc_analyzer")
            in_visit = {m: k for m, k in events.items() if m.startswith(("visit_", "fold_")) or m in ("insert", "add", "connect") or (is_visitor and m != "new")}
            if not in_visit:
                continue
            inst = "%s.%s" % (short, fl["name"])
            where = "%s:%d" % (a["file"], a["line"])
            if is_table:
                muts = sorted(m for m, k in events.items() if "mut" in k)
                resets = sorted(m for m, k in events.items() if "reset" in k or "assign" in k)
                if not muts:
                    continue
                if (short, fl["name"]) in SCOPED_GLOBAL:
                    r.justified(inst, "library-wide by design: " + SCOPED_GLOBAL[(short, fl["name"])], where)
                elif resets:
                    r.ok(inst, where, "filled in %s, reset in %s" % (muts, resets))
                    # ... and on every way: below every kind of library element, the method that fills the table is reached only through an
                    # override that resets it - otherwise what one element declares (the globals of a configuration) is still in the table
                    # when the next element is visited, and the verdict depends on the order of the elements
                    leak = scope_leaks(ctx, aid, [m for m in muts if m.startswith("visit_")], [m for m in resets if m.startswith("visit_")])
                    for top, path in leak:
                        r.finding("%s|not reset after %s" % (inst, top), where, "the table is filled below a %s (%s) but no override on that way resets it: its entries are still there "
                                  "when the next library element is visited" % (top.replace("visit_", ""), " -> ".join(path)))
                else:
                    r.finding(inst, where, "name table is filled in %s and never cleared: entries of one scope (POU / resource / configuration) leak into the next" % muts)
            else:
                # Option context: in every method that assigns it, the last assignment on every path to return must be None
                for m, b in sorted(sites.items()):
                    if "assign" not in events.get(m, ()):
                        continue
                    if not m.startswith(("visit_", "fold_")):
                        continue
                    verdict = ctx_reset_on_all_paths(b, aid, fl["name"], ty, neutral)
                    inst2 = "%s|%s" % (inst, m)
                    w2 = "%s:%d" % (b.f["file"], b.f["line"])
                    if verdict is True:
                        r.ok(inst2, w2, "set and reset to None before returning")
                    elif verdict is None:
                        r.ok(inst2, w2, "only reset to None")
                    else:
                        r.finding(inst2, w2, "the context `%s` is set in %s and not reset to None on every path to its return: it leaks into the next node" % (fl["name"], m))


def scope_leaks(ctx, aid, fillers, resetters):
    """[(top-level visit method, path)] for the kinds of library element below which a filling override of visitor `aid` is reached without
    passing an override that resets"""
    from vlib.traversal import Traversal
    if not fillers or not resetters:
        return []
    T = Traversal(ctx, "visit")
    ov = {}
    for st, ms in T.impls(("ironplc_analyzer",)).items():
        if st.split("<")[0] == aid:
            ov = ms
    if not ov:
        return []
    le = ctx.facts.adts.get("ironplc_dsl::common::LibraryElementKind")
    tops = []
    for v in (le or {}).get("variants", []):
        for fl in v["fields"]:
            ty = fl["ty"]
            if ty in ctx.facts.adts:
                tops.append("visit_" + _snake(ty.split("::")[-1]))
    out = []
    for top in sorted(set(tops)):
        if top in resetters:
            continue
        seen, stack, hit = set(), [(("v", top), (top,))], None
        while stack and hit is None:
            n, path = stack.pop()
            if n in seen:
                continue
            seen.add(n)
            if n[0] == "v" and n[1] in resetters:
                continue
            if n[0] == "v" and n[1] in fillers:
                hit = path
                break
            for m in T.succ(n, ov):
                stack.append((m, path + ((m[1],) if m[0] == "v" else ())))
        if hit is not None:
            out.append((top, list(hit)[:6]))
    return out


def _snake(name):
    from vlib.traversal import snake
    return snake(name)


def ctx_reset_on_all_paths(b, aid, field, ty, neutral):
    """True: set to a non-neutral value and always neutral again at return; None: only ever assigned the neutral value;
    False: may return with a non-neutral value"""
    opt = ty.startswith("core::option::Option<")
    want_adt = "core::option::Option" if opt else ty

    def kind_of(s):
        if s[0] != "=":
            return None
        fs = [x for x in s[1][1] if isinstance(x, list) and x[0] == "f"]
        if not (fs and fs[-1][3] == aid and fs[-1][2] == field and len([x for x in s[1][1] if isinstance(x, list)]) == len(fs)):
            return None
        rv = s[2]
        if rv[0] == "agg" and rv[1].get("adt") == want_adt:
            return rv[1]["variant"]
        if rv[0] == "use":
            p = op_place(rv[1])
            d = b.single_def(p[0]) if p and not p[1] else None
            if d and d[0] == "stmt" and d[3][0] == "agg" and d[3][1].get("adt") == want_adt:
                return d[3][1]["variant"]
            # save/restore idiom: `let outer = self.ctx.clone(); self.ctx = …; …; self.ctx = outer;` -- the restored value is the
            # one the method was entered with, provided the copy was taken before any assignment (it dominates them)
            for _ in range(4):      # `_a = move _b` hops between the copy and the assignment
                if d and d[0] == "stmt" and d[3][0] == "use" and op_place(d[3][1]) is not None and not op_place(d[3][1])[1]:
                    d = b.single_def(op_place(d[3][1])[0])
                else:
                    break
            if d and d[0] == "call":
                c = d[2]
                if c is not None and (c.callee or c.u or "").endswith("clone") and c.args:
                    ap = op_place(c.args[0])
                    fs2 = [x for x in (b.root(ap)[1] if ap is not None else []) if isinstance(x, list) and x[0] == "f"]
                    if fs2 and fs2[-1][3] == aid and fs2[-1][2] == field:
                        dom = b.dominators()
                        setters = [i for i, j, s2 in b.all_stmts() if s2 is not s and s2[0] == "=" and
                                   [x for x in s2[1][1] if isinstance(x, list) and x[0] == "f"][-1:] and
                                   [x for x in s2[1][1] if isinstance(x, list) and x[0] == "f"][-1][3] == aid and
                                   [x for x in s2[1][1] if isinstance(x, list) and x[0] == "f"][-1][2] == field]
                        if all(c.bb in dom.get(i, set()) and c.bb != i for i in setters):
                            return "entry"
        return "(set)"   # unknown value: assume non-neutral

    def step(st, bb):
        for s in b.stmts(bb):
            k = kind_of(s)
            if k:
                st = k
        # a call result stored straight into the field
        c = b.call_at(bb)
        if c is not None:
            fs = [x for x in c.dest[1] if isinstance(x, list) and x[0] == "f"]
            if fs and fs[-1][3] == aid and fs[-1][2] == field:
                st = "(set)"
        return st
    rets = explore(b, "entry", step)
    finals = set()
    for sts in rets.values():
        finals |= sts
    sets = [kind_of(s) for _, _, s in b.all_stmts()]
    calls_set = any(fs and fs[-1][3] == aid and fs[-1][2] == field for c in b.calls() for fs in [[x for x in c.dest[1] if isinstance(x, list) and x[0] == "f"]])
    anyset = calls_set or any(k not in (None, neutral) for k in sets)
    if not anyset:
        return None
    return all(f in ("entry", neutral) for f in finals)


def reaches_propagation(bd, start_local):
    """forward, flow-insensitive taint from `start_local`: does the value (or something computed from it) reach a
    `?` (Try::branch) or the return place of this body?"""
    from vlib.mir import rvalue_operands
    tainted = {start_local}
    changed = True
    while changed:
        changed = False
        for _, _, s in bd.all_stmts():
            if s[0] != "=":
                continue
            srcs = []
            for o in rvalue_operands(s[2]):
                p = op_place(o)
                if p is not None:
                    srcs.append(p[0])
            if s[2][0] in ("ref", "disc"):
                srcs.append(s[2][2][0] if s[2][0] == "ref" else s[2][1][0])
            if any(x in tainted for x in srcs) and s[1][0] not in tainted:
                tainted.add(s[1][0])
                changed = True
        for c in bd.calls():
            if any(op_place(a) is not None and op_place(a)[0] in tainted for a in c.args) and c.dest[0] not in tainted:
                tainted.add(c.dest[0])
                changed = True
    if 0 in tainted:
        return True
    for c in bd.calls():
        if "Try>::branch" in (c.callee or "") and any(op_place(a) is not None and op_place(a)[0] in tainted for a in c.args):
            return True
    return False


def rule_propagate(ctx, rep):
    r = rep.rule("R-C02-propagate", "the default traversal drops no error: in every T::recurse_visit the Result of each visit_* call on a child is "
                                    "propagated (`?`) or returned, including children behind Option / Vec / Box", floor=250, floor_what="child visits in recurse_visit bodies")
    n = 0
    for fid, b in sorted(ctx.prog.bodies.items()):
        fn = norm(fid)
        if not (fn.endswith("::recurse_visit") and b.f["crate"] == "ironplc_dsl"):
            continue
        bodies = [b] + [cb for cb in ctx.prog.bodies.values() if cb.f.get("parent") == b.id]
        cnt = {}
        for bd in bodies:
            for c in bd.calls():
                if not (c.u or "").startswith("ironplc_dsl::visitor::Visitor::visit_"):
                    continue
                n += 1
                m = c.u.split("::")[-1]
                k = cnt[m] = cnt.get(m, 0) + 1
                inst = "%s|%s#%d" % (fn.replace("ironplc_dsl::", ""), m, k)
                ok = reaches_propagation(bd, c.dest[0])
                if ok and bd is not b:
                    # the closure returns the Result to an adapter (map / map_or_else ...): the parent must propagate what comes out
                    ok = False
                    for _, _, s in b.all_stmts():
                        if s[0] == "=" and s[2][0] == "agg" and s[2][1].get("k") == "closure" and norm(s[2][1]["def"]) == norm(bd.id):
                            ok = reaches_propagation(b, s[1][0])
                if ok:
                    r.ok(inst, "%s:%d" % (b.f["file"], b.f["line"]))
                else:
                    r.finding(inst + "|dropped", "%s:%d" % (b.f["file"], b.f["line"]), "the Result of visiting this child is not propagated: an error found below it (e.g. by a rule) is silently discarded")
    r.note("%d child visits examined" % n)


FRONT_OPS = {"push_front", "pop_front", "front", "front_mut", "first", "first_mut"}
BACK_OPS = {"push_back", "push", "pop", "pop_back", "back", "back_mut", "last", "last_mut"}
SEQ_TYPES = ("alloc::collections::linked_list::LinkedList<", "alloc::vec::Vec<", "alloc::collections::vec_deque::VecDeque<",
             "std::collections::LinkedList<", "std::vec::Vec<", "std::collections::VecDeque<")


def rule_stackend(ctx, rep, rid="R-C02-stackend"):
    """A scope stack is only a stack if everything happens at one end: the end `enter` pushes to is the end `exit` pops from, the
    end declarations are added to / removed from, and the end a lookup starts at.  (Sibling agreement over the methods of one type.)"""
    r = rep.rule(rid, "scope stacks are used at one end only: for every sequence-typed field of an analyzer type that is both pushed to and "
                      "popped from through `self`, all end-specific accesses (push/pop/front/back/first/last) name the same end and "
                      "iteration starts at that end", floor=4, floor_what="end-specific accesses to scope-stack fields")
    per = {}      # (adt, field) -> list of (op, end, body, call)
    for b in ctx.prog.bodies.values():
        if b.f["crate"] != "ironplc_analyzer" or b.f["argc"] < 1:
            continue
        has_rev = any((c.callee or c.u or "").endswith("::rev") for c in b.calls())
        for c in b.calls():
            name = (c.callee or c.u or "").split("::")[-1]
            if not c.args:
                continue
            p = op_place(c.args[0])
            if p is None:
                continue
            rt = b.root(p)
            # through Deref (Vec -> slice): follow one deref/deref_mut call
            if rt[0] > b.f["argc"]:
                d = b.single_def(rt[0])
                if d and d[0] == "call" and (d[2].callee or d[2].u or "").split("::")[-1] in ("deref", "deref_mut") and d[2].args:
                    p2 = op_place(d[2].args[0])
                    if p2 is not None:
                        rt = b.root(p2)
            if rt[0] != 1:
                continue
            fl = [x for x in rt[1] if isinstance(x, list) and x[0] == "f"]
            if len(fl) != 1 or not (fl[0][5] or "").startswith(SEQ_TYPES):
                continue
            key = (fl[0][3], fl[0][2])
            if name in FRONT_OPS:
                per.setdefault(key, []).append((name, "front", b, c))
            elif name in BACK_OPS:
                per.setdefault(key, []).append((name, "back", b, c))
            elif name in ("iter", "iter_mut", "into_iter"):
                per.setdefault(key, []).append((name + (".rev" if has_rev else ""), "back" if has_rev else "front", b, c))
    n = 0
    for (adt, field), ops in sorted(per.items()):
        names = {o[0] for o in ops}
        if not (names & {"push", "push_front", "push_back"}) or not (names & {"pop", "pop_front", "pop_back"}):
            continue        # not a stack
        push_end = sorted({o[1] for o in ops if o[0].startswith("push")})
        for name, end, b, c in sorted(ops, key=lambda o: (o[2].id, o[3].loc[0])):
            n += 1
            inst = "%s.%s|%s in %s" % (adt.replace("ironplc_analyzer::", ""), field, name, b.f["name"])
            if len(push_end) == 1 and end == push_end[0]:
                r.ok(inst, loc_str(b.f, c.loc), end + " end")
            else:
                r.finding(inst + "|other-end", loc_str(b.f, c.loc), "%s works at the %s of the sequence but scopes are pushed at the %s: declarations land in / are looked up from the wrong scope" % (name, end, "/".join(push_end)))
    r.note("%d end-specific accesses on %d stack-like field(s)" % (n, sum(1 for k, o in per.items() if {x[0] for x in o} & {"push", "push_front", "push_back"} and {x[0] for x in o} & {"pop", "pop_front", "pop_back"})))


def rule_bracket(ctx, rep, rid="R-C02-bracket"):
    """Typestate over the traversal graph: a visitor that opens scopes (enter/exit) must declare names only inside one.  A declaration
    made outside every bracket lands in the outermost scope, is never removed, and is then visible to every unit visited later -
    the verdict starts to depend on the visiting order."""
    r = rep.rule(rid, "scoped visitors declare names only inside a scope: for every Visitor whose overrides call SymbolTable::enter, each "
                      "override that adds a name is reachable from Library only through an override that brackets its recursion with enter/exit",
                 floor=1, floor_what="adding overrides of scoped visitors")
    T = Traversal(ctx, "visit")
    impls = T.impls({"ironplc_analyzer"})
    ENTER = "ironplc_analyzer::symbol_table::SymbolTable::enter"
    ADDERS = {"ironplc_analyzer::symbol_table::SymbolTable::add", "ironplc_analyzer::symbol_table::SymbolTable::add_if",
              "ironplc_analyzer::symbol_table::SymbolTable::try_add"}
    n = 0
    for v, ms in sorted(impls.items()):
        def names(b):
            return {re.sub(r"::<[^>]*>", "", c.callee or "") for c in b.calls()}
        brackets = {m for m, b in ms.items() if ENTER in names(b)}
        if not brackets:
            continue
        adders = {m for m, b in ms.items() if names(b) & ADDERS and m not in brackets}
        # traversal from Library that does not look inside bracketing overrides
        seen, st, parent = set(), [("rv", "ironplc_dsl::common::Library")], {}
        while st:
            node = st.pop()
            if node in seen:
                continue
            seen.add(node)
            if node[0] == "v" and node[1] in brackets:
                continue
            for nx in T.succ(node, ms):
                if nx not in seen:
                    parent.setdefault(nx, node)
                    st.append(nx)
        vname = re.sub(r"<.*", "", v.split("ironplc_analyzer::")[-1])
        for m in sorted(adders):
            n += 1
            b = ms[m]
            inst = "%s|%s" % (vname, m)
            where = "%s:%d" % (b.f["file"], b.f["line"])
            if ("v", m) in seen:
                path, cur = [], ("v", m)
                while cur in parent:
                    path.append(cur[1].split("::")[-1])
                    cur = parent[cur]
                path.append("Library")
                # name the un-bracketed owners: the last type on the path before the adder
                owner = [x for x in reversed(path) if not x.startswith("visit_")]
                r.finding(inst + "|outside-scope via " + (path[1] if len(path) > 1 else "?"), where,
                          "names are added outside every enter/exit bracket along %s: they stay in the outermost scope for the rest of the walk, "
                          "so units visited later see them (order-dependent verdict)" % " <- ".join(path[:6]))
            else:
                r.ok(inst, where, "only reached below " + ", ".join(sorted(brackets)))
    r.note("%d adding overrides of scoped visitors" % n)


USE_FIELDS = {
    # (textual struct, Id field): is the Id a use of a variable of the enclosing scope?
    ("NamedVariable", "name"): (True, "the variable named in an expression or assignment"),
    ("For", "control"): (True, "the loop's control variable"),
    ("FbCall", "var_name"): (False, "the invoked instance: checked by rule_function_block_invocation (P0021)"),
    ("Function", "name"): (False, "a function name, not a variable"),
    ("LateBound", "name"): (False, "resolved to a variable or an enumeration value by xform_resolve_late_bound_expr_kind before the rules run"),
    ("NamedInput", "name"): (False, "a formal parameter of the callee"),
    ("Output", "src"): (False, "an output of the callee"),
    ("StructuredVariable", "field"): (False, "a field selector, resolved against the record's type"),
}


def rule_uses(ctx, rep, rid="R-C02-uses"):
    """Where can a variable be *used*?  Every `Id` field of the statement/expression DSL (ironplc_dsl::textual) is listed and
    classified (frozen table, one reason per row; a new Id field fails closed).  For each field that is a use of a variable of the
    enclosing scope, the undeclared-variable rule's visitor must have an override for that node type that reads the field."""
    r = rep.rule(rid, "every place of the statement DSL where a variable of the enclosing scope is named is looked at by the undeclared-variable rule: "
                      "for each such Id field the rule's visitor overrides the node's visit method and reads the field", floor=8, floor_what="Id fields of ironplc_dsl::textual")
    vis = [b for b in ctx.prog.bodies.values() if b.f["crate"] == "ironplc_analyzer" and "rule_use_declared_symbolic_var" in b.f["file"] and b.f["name"].startswith("visit_")
           and (b.f.get("impl") or {}).get("trait_def") == "ironplc_dsl::visitor::Visitor"]
    overrides = {b.f["name"]: b for b in vis}
    from vlib.traversal import snake
    for aid, a in sorted(ctx.facts.adts.items()):
        if not aid.startswith("ironplc_dsl::textual::"):
            continue
        short = aid.split("::")[-1]
        for v in a["variants"]:
            for fl in v["fields"]:
                if re.sub(r"\s", "", fl["ty"]) != "ironplc_dsl::core::Id":
                    continue
                inst = "%s.%s" % (short, fl["name"])
                where = "%s:%d" % (a["file"], a["line"])
                row = USE_FIELDS.get((short, fl["name"]))
                if row is None:
                    r.finding(inst + "|unclassified", where, "a new Id field in the statement DSL: is it a use of a variable? (add it to the table with a reason)")
                    continue
                use, why = row
                if not use:
                    r.justified(inst, "not a variable use here: " + why, where)
                    continue
                ob = overrides.get("visit_" + snake(short))
                reads = False
                if ob is not None:
                    for _, k, pl in ob.place_uses():
                        rt = ob.root(pl)
                        if any(isinstance(x, list) and x[0] == "f" and x[3] == aid and x[2] == fl["name"] for x in rt[1]):
                            reads = True
                if reads:
                    r.ok(inst, "%s:%d" % (ob.f["file"], ob.f["line"]), why)
                else:
                    r.finding(inst + "|use-not-checked", where, "%s (%s) is a use of a variable, but the undeclared-variable rule has no visit_%s that reads it: "
                              "an undeclared name there is accepted" % (inst, why, snake(short)))


def rule_globalkind(ctx, rep, rid="R-C02-globalkind"):
    """"The global variables" are the declarations in VAR_GLOBAL blocks.  A visitor that collects names into a table of globals while
    walking *all* variable declarations must test the declaration's kind: otherwise a local of the same name in some other POU is
    taken for the global (a local CONSTANT made every plain VAR_EXTERNAL of that name an error)."""
    r = rep.rule(rid, "a table of global variables filled from visit_var_decl only takes declarations whose var_type is Global (the insert is "
                      "dominated by the true edge of `node.var_type == VariableType::Global`)", floor=1, floor_what="inserts into tables of globals")
    n = 0
    for b in sorted(ctx.prog.bodies.values(), key=lambda x: x.id):
        if b.f["crate"] != "ironplc_analyzer" or not b.f["name"].startswith("visit_") or "::test" in norm(b.id):
            continue
        in_decl = b.f["name"] == "visit_var_decl"
        for c in sorted(b.calls(), key=lambda c: (c.loc[0], c.loc[1])):
            if (c.callee or "").split("::")[-1] not in ("insert", "push", "add", "try_add", "add_if_new") or not c.args:
                continue
            p0 = op_place(c.args[0])
            rt = b.root(p0) if p0 is not None else None
            fl = [x[2] for x in (rt[1] if rt else []) if isinstance(x, list) and x[0] == "f"]
            if not (rt and rt[0] == 1 and fl and "global" in fl[-1].lower()):
                continue
            n += 1
            vis = re.sub(r"<.*", "", ((b.f.get("impl") or {}).get("self") or "?").split("::")[-1])
            inst = "%s.%s|insert in %s" % (vis, fl[-1], b.f["name"])
            if not in_decl:
                # filled from a node's own list of globals: the kind is given by the list (which lists are read is R-C02-reach's question)
                lists = sorted({x[2] for i, j, st in b.all_stmts() if st[0] == "=" and st[2][0] in ("ref", "use", "copy") for pp in [op_place(st[2][-1]) if st[2][0] != "ref" else st[2][-1]]
                                if pp is not None for x in pp[1] if isinstance(x, list) and x[0] == "f" and "global" in x[2].lower()})
                r.ok(inst, loc_str(b.f, c.loc), "filled from the VAR_GLOBAL list(s) %s of the node" % ", ".join(lists))
                continue
            ok = False
            dom = b.dominators()
            for d in dom.get(c.bb, set()):
                si = switch_info(b, d)
                if not (si and si["kind"] == "bool" and si["subject"][0] == "call"):
                    continue
                cc = si["subject"][1]
                if (cc.u or "") != "core::cmp::PartialEq::eq" or len(cc.args) != 2:
                    continue
                sides = []
                for a in cc.args:
                    ap = op_place(a)
                    art = b.root(ap) if ap is not None else None
                    f2 = [x[2] for x in (art[1] if art else []) if isinstance(x, list) and x[0] == "f"]
                    k = b.const_of(a)
                    sides.append(("field", f2[-1]) if f2 else (("variant", k[3].get("variant")) if k is not None and len(k) > 3 and isinstance(k[3], dict) else None))
                if ("field", "var_type") in sides and ("variant", "Global") in sides:
                    for succ, labs in si["edges"].items():
                        if labs == [True] and (succ == c.bb or succ in dom.get(c.bb, set())):
                            ok = True
            if ok:
                r.ok(inst, loc_str(b.f, c.loc), "only VAR_GLOBAL declarations")
            else:
                r.finding(inst + "|kind-not-tested", loc_str(b.f, c.loc), "every variable declaration with the qualifier is entered into the table of globals, whatever block it "
                          "is declared in: a local of the same name is mistaken for the global")
    r.note("%d inserts into tables of globals" % n)


def run(ctx, rep):
    rep.not_decided += ["that each rule's predicate is the documented one (value-level; decided only for the subrange comparison, R-C02-order)", "acceptance of all valid programs",
                        "single/double-fault behaviour on generated programs"]
    rep.assumptions += ["derive(Recurse) output is what rustc compiled (traversal edges are read from MIR, not from the macro source)",
                        "rule->code table reflects the module docs and docs/compiler/problems"]
    rule_registry(ctx, rep)
    rule_code(ctx, rep)
    rule_reach(ctx, rep)
    rule_scope(ctx, rep)
    rule_propagate(ctx, rep)
    rule_stackend(ctx, rep)
    rule_bracket(ctx, rep)
    from rules import c02_earlyok, c02_order
    c02_earlyok.run(ctx, rep)
    c02_order.run(ctx, rep)
    # the re-assembly after the sort hands every declaration on (a dropped POU takes its violations with it)
    from rules.c03 import rule_merge
    rule_merge(ctx, rep, rid="R-C02-merge")
    from rules import c03_allwalks
    c03_allwalks.run(ctx, rep, rid="R-C02-allwalks")
    # global tables are complete before a rule consults them
    from rules.c06 import rule_pipeline
    rule_pipeline(ctx, rep, rid="R-C02-pipeline")
    rule_uses(ctx, rep)
    rule_globalkind(ctx, rep)
    from rules import c02_enum
    c02_enum.run(ctx, rep)
    from rules import c02_edge
    c02_edge.run(ctx, rep)
    from rules import c02_refs
    c02_refs.run(ctx, rep)
    # "unique names", "declared", "matching the callee's inputs" are all statements about names as the language compares them
    from rules.c08 import rule_keys
    rule_keys(ctx, rep, rid="R-C02-keys", files=("analyzer/src/rule_", "analyzer/src/symbol_table", "analyzer/src/xform_resolve"), floor=5,
              what="the rules compare names the way the language does: every name table of the rule and resolution modules")
