"""R-C05-joinorder: SourceSpan::join / join2 are called (first, last) in source order.

`join(a, b)` takes the start of `a` and the end of `b`.  In the grammar both arguments come from labelled captures of one
sequence, so "a is written before b" is a fact of the grammar text: the label that feeds `a` must not come after the label that
feeds `b` in the rule's sequence.  Arguments are traced from the call through helper parameters (to the helper's call sites) and
closure captures (debug names of the upvars = the peg labels)."""
import re
from vlib.mir import op_place, loc_str, norm

SPAN = "ironplc_dsl::core::SourceSpan"
GRAM = "ironplc_parser::parser::plc_parser::__parse_"


def label_of(ctx, b, op, depth=0):
    """[(closure body, label)] the operand derives from"""
    out = []
    if depth > 4 or op is None:
        return out
    p = op_place(op)
    if p is None:
        return out
    # follow clones / refs / field projections back to a root
    cur = p
    for _ in range(8):
        rt = b.root(cur)
        fs = [x for x in rt[1] if isinstance(x, list) and x[0] == "f"]
        if b.f["dk"] == "Closure" and rt[0] == 1 and fs and fs[0][3] == "(closure)":
            idx = fs[0][1]
            for name, pl in b.f.get("upvars", []):
                pf = [x for x in pl[1] if isinstance(x, list) and x[0] == "f"]
                if pl[0] == 1 and pf and pf[0][1] == idx:
                    return [(b, name)]
            return out
        if b.f["dk"] != "Closure" and 1 <= rt[0] <= b.f["argc"]:
            # helper parameter: go to the call sites
            for cb in ctx.prog.bodies.values():
                if cb.f["crate"] != "ironplc_parser":
                    continue
                for c in cb.calls():
                    if c.callee == norm(b.id) and len(c.args) >= rt[0]:
                        out += label_of(ctx, cb, c.args[rt[0] - 1], depth + 1)
            return out
        d = b.single_def(rt[0])
        if d and d[0] == "call" and d[2].args and (d[2].callee or d[2].u or "").split("::")[-1] in ("clone", "span", "deref", "borrow", "as_ref", "unwrap", "expect", "as_deref"):
            cur = op_place(d[2].args[0])
            if cur is None:
                return out
            continue
        if d and d[0] == "stmt" and d[3][0] == "agg" and isinstance(d[3][1], dict) and d[3][1].get("variant") == "Some" and d[3][2]:
            cur = op_place(d[3][2][0])
            if cur is None:
                return out
            continue
        return out
    return out


def seq_positions(ctx, rule_name):
    """label -> position, for every sequence of the rule (dict per sequence)"""
    g = ctx.peg
    r = g.rules.get(rule_name)
    res = []
    if not r:
        return res

    def walk(expr):
        for s in expr.alts:
            pos = {}
            for i, e in enumerate(s.elems):
                if e.label:
                    pos[e.label] = i
            res.append(pos)
            for e in s.elems:
                for pr in (e.prim, e.sep):
                    if pr is not None and pr.kind == "group":
                        walk(pr.expr)
    walk(r.expr)
    return res


def run(ctx, rep, rid="R-C05-joinorder"):
    r = rep.rule(rid, "SourceSpan::join/join2 in the grammar are called as (earlier, later): the peg label feeding the first argument does not come after "
                      "the label feeding the second one in the rule's sequence", floor=2, floor_what="join calls in the parser")
    n = 0
    for b in sorted(ctx.prog.bodies.values(), key=lambda x: x.id):
        if b.f["crate"] != "ironplc_parser" or "::test" in norm(b.id):
            continue
        k = 0
        for c in sorted(b.calls(), key=lambda c: (c.loc[0], c.loc[1])):
            if c.callee not in (SPAN + "::join", SPAN + "::join2") or len(c.args) != 2:
                continue
            k += 1
            n += 1
            fn = norm(b.id).replace("ironplc_parser::parser::plc_parser::", "").replace("ironplc_parser::", "")
            inst = "%s|join#%d" % (fn, k)
            where = loc_str(b.f, c.loc)
            la, lb = label_of(ctx, b, c.args[0]), label_of(ctx, b, c.args[1])
            if not la or not lb:
                r.ok(inst, where, "arguments not traceable to two grammar labels (%s, %s)" % (la and la[0][1], lb and lb[0][1]))
                continue
            bad = []
            checked = 0
            for (ca, a) in la:
                for (cb2, b2) in lb:
                    if ca.id != cb2.id:
                        continue
                    m = re.search(r"__parse_([A-Za-z0-9_]+?)(?:::\{closure|$)", norm(ca.id))
                    if not m:
                        continue
                    for pos in seq_positions(ctx, m.group(1)):
                        if a in pos and b2 in pos:
                            checked += 1
                            if pos[a] > pos[b2]:
                                bad.append("rule %s: `%s` (element %d) is passed first, `%s` (element %d) second" % (m.group(1), a, pos[a], b2, pos[b2]))
            if bad:
                r.finding(inst + "|later-first", where, "; ".join(sorted(set(bad))) + ": join takes the start of its first and the end of its second argument, so the joined span is empty or inverted")
            else:
                r.ok(inst, where, "%s .. %s (%d sequence(s) checked)" % (la[0][1], lb[0][1], checked))
    r.note("%d join calls" % n)
