"""C09 — Literals are read exactly or rejected (DESIGN.md §3 C09): the 'never wrapped, truncated or silently altered' half."""
import re
try:
    import re._parser as sre_parse          # python >= 3.11
    import re._constants as sre_constants
except ImportError:                        # pragma: no cover
    import sre_parse, sre_constants
from vlib.mir import norm, loc_str, op_place, loc_macro, switch_info
from rules import panics
from rules.c08 import parse_attr

TY_MAX = panics.TY_MAX
GRAM = "ironplc_parser::parser::plc_parser::__parse_"
FP = "ironplc_dsl::common::FixedPoint"


def ub_of(b, op, depth=8):
    """sound upper bound of an unsigned integer operand from the shape of its defining expression"""
    if depth == 0:
        return None
    v = panics._int_const(b, op)
    if v is not None:
        return v
    p = op_place(op)
    if p is None:
        return None
    flds = [x for x in p[1] if isinstance(x, list) and x[0] == "f"]
    if flds:
        pb = panics.param_field_bound(b, op)
        if pb is not None:
            return pb
        k = (flds[-1][3], flds[-1][2])
        if k in panics.FIELD_BOUNDS:
            return panics.FIELD_BOUNDS[k]
        if flds[-1][3] == "(tuple)" and flds[-1][2] == "0" and len(flds) == 1:
            # (value, overflow flag) of a checked operation
            d = b.single_def(p[0])
            if d and d[0] == "stmt" and d[3][0] == "bin":
                return ub_bin(b, d[3], depth)
        return TY_MAX.get(flds[-1][5])
    if p[1]:
        return None
    d = b.single_def(p[0])
    if d and d[0] == "stmt":
        rv = d[3]
        if rv[0] == "use":
            return ub_of(b, rv[1], depth - 1)
        if rv[0] == "cast" and rv[1] == "IntToInt":
            u = ub_of(b, rv[2], depth - 1)
            return u
        if rv[0] == "bin":
            return ub_bin(b, rv, depth)
    return TY_MAX.get(b.local_ty(p[0]))


def ub_bin(b, rv, depth):
    op = rv[1].replace("WithOverflow", "").replace("Unchecked", "")
    a, c = ub_of(b, rv[2], depth - 1), ub_of(b, rv[3], depth - 1)
    if op == "Div":
        cv = panics._int_const(b, rv[3])
        if a is not None and cv:
            return a // cv
    if op == "Rem":
        cv = panics._int_const(b, rv[3])
        if cv:
            return cv - 1
    if op == "Mul" and a is not None and c is not None:
        return a * c
    if op == "Add" and a is not None and c is not None:
        return a + c
    return None


def rule_cast(ctx, rep):
    r = rep.rule("R-C09-cast", "no lossy numeric `as` cast on a literal path: the source's value range (from the MIR expression: x / C, x % C, "
                               "bounded fields) must fit the target type", floor=14, floor_what="numeric casts in dsl::{common,time} and grammar actions")
    counts = {}
    for b in sorted(ctx.prog.bodies.values(), key=lambda x: x.id):
        n = norm(b.id)
        lit = b.f["crate"] == "ironplc_dsl" and re.search(r"dsl/src/(common|time)\.rs$", b.f["file"]) or n.startswith(GRAM)
        if not lit:
            continue
        for i, j, s in sorted(b.all_stmts(), key=lambda t: (t[2][3][0], t[2][3][1]) if len(t[2]) > 3 else (0, 0)):
            if not (s[0] == "=" and s[2][0] == "cast" and s[2][1] in ("IntToInt", "FloatToInt", "IntToFloat")):
                continue
            m = loc_macro(s[3])
            if m and m[0].startswith(("Derive:", "Bang:parser")):
                continue
            src, dst = s[2][3], s[2][4]
            fn = n.replace(GRAM, "rule ")
            k = counts[(fn, src, dst)] = counts.get((fn, src, dst), 0) + 1
            inst = "%s|%s as %s#%d" % (fn, src, dst, k)
            where = loc_str(b.f, s[3])
            if s[2][1] == "IntToFloat":
                # precision loss: only small integers are exact
                ub = ub_of(b, s[2][2])
                mant = 2 ** 24 if dst == "f32" else 2 ** 53
                if ub is not None and ub <= mant:
                    r.ok(inst, where, "value <= %d is exact in %s" % (ub, dst))
                else:
                    r.finding(inst, where, "integer of type %s converted to %s with `as`: values above 2^%d are silently rounded" % (src, dst, 24 if dst == "f32" else 53))
                continue
            if dst in TY_MAX and src in TY_MAX:
                if TY_MAX[src] <= TY_MAX[dst] and not (src.startswith("i") and not dst.startswith("i")):
                    r.ok(inst, where, "widening")
                    continue
                ub = ub_of(b, s[2][2])
                if ub is not None and ub <= TY_MAX[dst] and not src.startswith("i"):
                    r.ok(inst, where, "range: value <= %d fits %s" % (ub, dst))
                else:
                    r.finding(inst, where, "`as` cast from %s to %s can wrap/truncate (no bound on the operand fits the target)" % (src, dst))
            else:
                r.finding(inst, where, "unclassified numeric cast %s -> %s" % (src, dst))


def rule_read(ctx, rep):
    r = rep.rule("R-C09-read", "a literal action reads every part of the value it matched: a FixedPoint taken by a grammar action has both "
                               "`whole` and `femptos` read (or is handed on whole)", floor=5, floor_what="grammar actions receiving a FixedPoint")
    for b in sorted(ctx.prog.bodies.values(), key=lambda x: x.id):
        n = norm(b.id)
        if not n.startswith(GRAM):
            continue
        if b.f["dk"] != "Closure":
            # rule functions: a FixedPoint bound from a sub-rule; edition-2021 closures capture single fields, so the parent
            # function is where `s.whole` alone is copied into the action closure
            loc = {}
            for _, k, p in b.place_uses():
                if k in ("write", "drop"):
                    continue
                rt = b.root(p)
                if rt[0] >= len(b.f["locals"]) or b.local_ty(rt[0]) != FP:
                    continue
                proj = [x for x in rt[1] if isinstance(x, list) and x[0] == "f"]
                h = loc.setdefault(rt[0], [set(), False])
                if proj:
                    h[0].add(proj[0][2])
                elif k in ("move", "read") and not p[1]:
                    h[1] = True
            for l, (read, whole_use) in sorted(loc.items()):
                # ignore pure temporaries that are only moved into the named binding
                if not read and whole_use and not b.local_name(l):
                    continue
                if not read and not b.local_name(l):
                    continue
                inst = "%s|%s" % (n.replace(GRAM, "rule "), b.local_name(l) or "_%d" % l)
                where = "%s:%d" % (b.f["file"], b.f["line"])
                if (whole_use and not read) or {"whole", "femptos"} <= read:
                    r.ok(inst, where)
                elif whole_use and read:
                    r.ok(inst, where, "also handed on whole")
                else:
                    r.finding(inst, where, "only %s of the fixed-point value is read: the %s part written in the source is silently dropped" % (
                        sorted(read), sorted({"whole", "femptos"} - read)))
            continue
        # captured FixedPoint values live in the closure environment (_1.<n>), by-value parameters in _1.._argc
        holders = {}   # key -> [fields read], whole-use flag
        for _, k, p in b.place_uses():
            if k in ("write", "drop"):
                continue
            whole_read = not p[1] or p[1] == ["*"]
            p = b.root(p)
            proj = [x for x in p[1] if isinstance(x, list) and x[0] == "f"]
            if proj and proj[-1][5] in ("&" + FP, "&mut " + FP) and k == "read" and len(proj) == 1 and b.f["dk"] == "Closure":
                # copying the captured reference into a temporary is not a use of the value
                continue
            if p[0] <= b.f["argc"] and not proj and b.local_ty(p[0]) == FP:
                holders.setdefault(("arg", p[0]), [set(), False])[1] = True
            for n_, x in enumerate(proj):
                if x[5] in (FP, "&" + FP, "&mut " + FP):
                    key = (p[0], tuple(y[2] for y in proj[:n_ + 1]))
                    h = holders.setdefault(key, [set(), False])
                    if n_ + 1 < len(proj):
                        h[0].add(proj[n_ + 1][2])
                    else:
                        h[1] = True
            if p[0] <= b.f["argc"] and p[0] > 0 and b.local_ty(p[0]) == FP and proj:
                holders.setdefault(("arg", p[0]), [set(), False])[0].add(proj[0][2])
        names = {tuple(u[1][1][k2][2] for k2 in range(len(u[1][1])) if isinstance(u[1][1][k2], list)): u[0] for u in b.f.get("upvars", [])}
        for key, (read, whole_use) in sorted(holders.items(), key=str):
            nm = names.get(key[1], None) if key[0] != "arg" else b.local_name(key[1])
            inst = "%s|%s" % (n.replace(GRAM, "rule "), nm or str(key))
            where = "%s:%d" % (b.f["file"], b.f["line"])
            if whole_use or {"whole", "femptos"} <= read:
                r.ok(inst, where)
            else:
                r.finding(inst, where, "only %s of the fixed-point value is read: the %s part written in the source is silently dropped" % (
                    sorted(read), sorted({"whole", "femptos"} - read)))


def class_chars(items):
    out = set()
    for op, av in items:
        if op == sre_constants.LITERAL:
            out.add(chr(av))
        elif op == sre_constants.RANGE:
            for o in range(av[0], av[1] + 1):
                out.add(chr(o))
        elif op == sre_constants.CATEGORY:
            if av == sre_constants.CATEGORY_DIGIT:
                out.update("0123456789")
                out.add("\\d")
    return out


def alphabet(tree):
    out = set()
    for op, av in tree:
        if op == sre_constants.LITERAL:
            out.add(chr(av))
        elif op == sre_constants.IN:
            out |= class_chars(av)
        elif op == sre_constants.SUBPATTERN:
            out |= alphabet(av[3])
        elif op in (sre_constants.MAX_REPEAT, sre_constants.MIN_REPEAT):
            out |= alphabet(av[2])
        elif op == sre_constants.BRANCH:
            for t in av[1]:
                out |= alphabet(t)
    return out


def rule_sign(ctx, rep):
    r = rep.rule("R-C09-sign", "RealLiteral::try_parse accepts every character the FloatingPoint/FixedPoint tokens can contain (sibling cross-check "
                               "of the converter's character set against the lexer regex alphabet)", floor=2, floor_what="real-number token regexes")
    a = ctx.facts.astattrs.get("ironplc_parser::token::TokenType")
    tp = ctx.prog.get("ironplc_dsl::common::RealLiteral::try_parse")
    if not a or not tp:
        rep.error("R-C09-sign", "TokenType attrs or RealLiteral::try_parse not found")
        return
    accepted = set()
    digits = False
    for b in [tp[0]] + [cb for cb in ctx.prog.bodies.values() if cb.f.get("parent") == tp[0].id]:
        for i, j, s in b.all_stmts():
            if s[0] == "=" and s[2][0] == "bin" and s[2][1] in ("Eq", "Ne"):
                for o in (s[2][2], s[2][3]):
                    if o[0] == "c" and o[1] == "char":
                        accepted.add(o[2].strip("'"))
        for c in b.calls():
            if c.callee == "core::char::methods::is_ascii_digit":
                digits = True
    if digits:
        accepted |= set("0123456789")
    for v in ("FloatingPoint", "FixedPoint"):
        for at in a["variants"].get(v, {}).get("attrs", []):
            p = parse_attr(at)
            if not p or p[0] != "regex":
                continue
            alpha = alphabet(sre_parse.parse(p[1])) - {"\\d"}
            missing = sorted(alpha - accepted)
            inst = "TokenType::%s|alphabet" % v
            if missing:
                r.finding(inst + "|rejected:" + "".join(missing), "dsl/src/common.rs:%d" % tp[0].f["line"],
                          "the lexer admits %s in a %s token but RealLiteral::try_parse treats them as `Non-real characters`" % (missing, v))
            else:
                r.ok(inst, "dsl/src/common.rs:%d" % tp[0].f["line"])


def strip_groups(tree):
    """normalise: flatten capture groups, keep structure"""
    out = []
    for op, av in tree:
        if op == sre_constants.SUBPATTERN:
            sub = strip_groups(av[3])
            out.append(("group", sub))
        elif op in (sre_constants.MAX_REPEAT, sre_constants.MIN_REPEAT):
            out.append(("rep", av[0], str(av[1]), strip_groups(av[2])))
        elif op == sre_constants.IN:
            out.append(("in", tuple(sorted(class_chars(av)))))
        elif op == sre_constants.LITERAL:
            out.append(("lit", chr(av)))
        elif op == sre_constants.BRANCH:
            out.append(("alt", tuple(tuple(strip_groups(t)) for t in av[1])))
        else:
            out.append((str(op), str(av)))
    return tuple(out)


def digit_reps(tree, under=None):
    """yield (digit atom, enclosing repeat max) for every \\d / [0-9] atom"""
    for op, av in tree:
        if op == sre_constants.IN:
            cs = class_chars(av)
            if cs & set("0123456789"):
                yield ("\\d" in cs, under)
        elif op == sre_constants.SUBPATTERN:
            yield from digit_reps(av[3], under)
        elif op in (sre_constants.MAX_REPEAT, sre_constants.MIN_REPEAT):
            inner = list(av[2])
            direct = len(inner) == 1 and inner[0][0] == sre_constants.IN
            yield from digit_reps(av[2], av[1] if direct else under)
        elif op == sre_constants.BRANCH:
            for t in av[1]:
                yield from digit_reps(t, under)


def rule_addr(ctx, rep):
    r = rep.rule("R-C09-addr", "the lexer's DirectAddress regex and dsl's DIRECT_ADDRESS accept the same language with the same case sensitivity, "
                               "address components are unbounded runs of ASCII digits, and every capture group indexed by the converter participates in every match",
                 floor=4, floor_what="address-table obligations")
    a = ctx.facts.astattrs.get("ironplc_parser::token::TokenType")
    lex = None
    for at in a["variants"].get("DirectAddress", {}).get("attrs", []):
        p = parse_attr(at)
        if p and p[0] == "regex":
            lex = p
    dsl_pat = None
    for b in ctx.prog.bodies.values():
        if "DIRECT_ADDRESS as" in b.id and "__static_ref_initialize" in b.id and "UNASSIGNED" not in b.id:
            for c in b.calls():
                if c.callee == "regex::regex::string::Regex::new":
                    dsl_pat = b.const_str(c.args[0])
    if lex is None or dsl_pat is None:
        rep.error("R-C09-addr", "DirectAddress token regex or DIRECT_ADDRESS static not found")
        return
    where = "dsl/src/common.rs"
    try:
        t1 = sre_parse.parse(lex[1])
        t2 = sre_parse.parse(dsl_pat)
    except Exception as e:
        r.finding("regex|unparseable", where, "cannot parse an address regex: %s" % e)
        return

    def flat(t):
        out = []
        for x in t:
            if x[0] == "group":
                out.extend(flat(x[1]))
            elif x[0] == "rep":
                out.append(("rep", x[1], x[2], tuple(flat(x[3]))))
            else:
                out.append(x)
        return tuple(out)
    if flat(strip_groups(t1)) == flat(strip_groups(t2)):
        r.ok("language|token regex == DIRECT_ADDRESS modulo groups", where, "%s  vs  %s" % (lex[1], dsl_pat))
    else:
        r.finding("language|token-vs-dsl", where, "the lexer accepts %s but the converter matches %s" % (lex[1], dsl_pat))
    dsl_ci = dsl_pat.startswith("(?i)")
    if lex[2] == dsl_ci:
        r.ok("case|same sensitivity", where)
    else:
        r.finding("case|token ignore(case)=%s, DIRECT_ADDRESS case-insensitive=%s" % (lex[2], dsl_ci), where,
                  "a spelling the lexer accepts (e.g. %ix1) is then rejected by the converter")
    for name, tree in (("token", t1), ("DIRECT_ADDRESS", t2)):
        reps = list(digit_reps(tree))
        bounded = [x for x in reps if x[1] is None or str(x[1]) != "MAXREPEAT"]
        uni = [x for x in reps if x[0]]
        if bounded:
            r.finding("components|%s|single-digit" % name, where, "address components are single digits (no unbounded repetition of the digit class): %IX10 cannot be read")
        else:
            r.ok("components|%s|unbounded" % name, where)
        if uni:
            r.finding("components|%s|unicode-digits" % name, where, "\\d matches every Unicode decimal digit, but the component is converted with parse::<u32>() (ASCII only)")
        else:
            r.ok("components|%s|ascii-digits" % name, where)
    # capture groups indexed unconditionally must not be optional
    conv = ctx.prog.get("<ironplc_dsl::common::AddressAssignment as core::convert::TryFrom<&str>>::try_from")
    if conv:
        b = conv[0]
        # which groups of DIRECT_ADDRESS are optional?
        optional = set()

        def walk(t, opt):
            for op, av in t:
                if op == sre_constants.SUBPATTERN:
                    if opt and av[0]:
                        optional.add(av[0])
                    walk(av[3], opt)
                elif op in (sre_constants.MAX_REPEAT, sre_constants.MIN_REPEAT):
                    walk(av[2], opt or av[0] == 0)
                elif op == sre_constants.BRANCH:
                    for x in av[1]:
                        walk(x, True)
        walk(t2, False)
        idx_calls = [c for c in b.calls() if (c.callee or "").startswith("<regex::regex::string::Captures") and c.callee.endswith("::index")]
        ordk = {}
        for c in sorted(idx_calls, key=lambda c: (c.loc[0], c.loc[1])):
            k = panics._int_const(b, c.args[1])
            # which regex does this Captures come from? the second `captures` call is DIRECT_ADDRESS
            ordk[k] = ordk.get(k, 0) + 1
            inst = "try_from|cap[%s]#%d" % (k, ordk[k])
            rp = op_place(c.args[0])
            from_direct = False
            cur = rp
            for _ in range(6):
                if cur is None:
                    break
                rt = b.root(cur)
                d = b.single_def(rt[0])
                if d and d[0] == "call":
                    if d[2].callee == "regex::regex::string::Regex::captures":
                        ap = op_place(d[2].args[0])
                        dd = b.single_def(b.root(ap)[0]) if ap else None
                        from_direct = bool(dd and dd[0] == "call" and "DIRECT_ADDRESS as" in dd[2].raw[1].get("d", "") and "UNASSIGNED" not in dd[2].raw[1].get("d", ""))
                        break
                    cur = op_place(d[2].args[0]) if d[2].args else None
                elif d and d[0] == "stmt" and d[3][0] in ("use",) and op_place(d[3][1]):
                    cur = op_place(d[3][1])
                else:
                    # pattern bindings: `if let Some(cap) = ...` moves the payload
                    break
            if not from_direct:
                # find by dominance: the captures() call of DIRECT_ADDRESS dominates this index
                for cc in b.calls():
                    if cc.callee == "regex::regex::string::Regex::captures" and cc.bb in b.dominators().get(c.bb, set()):
                        ap = op_place(cc.args[0])
                        dd = b.single_def(b.root(ap)[0]) if ap else None
                        nm = dd[2].raw[1].get("d", "") if dd and dd[0] == "call" else ""
                        from_direct = "DIRECT_ADDRESS as" in nm and "UNASSIGNED" not in nm
            if from_direct and k in optional:
                r.finding(inst + "|optional-group", loc_str(b.f, c.loc), "cap[%d] is an optional group of DIRECT_ADDRESS: indexing panics when it did not participate" % k)
            else:
                r.ok(inst, loc_str(b.f, c.loc))


def rule_fallible(ctx, rep):
    r = rep.rule("R-C09-fallible", "grammar actions that convert token text into numbers/dates are fallible `{? }` blocks whose conversion calls return "
                                   "Result (overflow becomes a syntax diagnostic, not a panic or a wrapped value)", floor=15, floor_what="fallible literal actions")
    g = ctx.peg
    for rule, s in g.all_seqs():
        if s.action is None or not s.action.fallible:
            continue
        code = "".join(t.v + " " for t in s.action.code)
        bad = re.findall(r"\b(unwrap|expect)\s*\(", code)
        inst = "rule %s|{? } action@%s" % (rule.name, "+".join(sorted({e.label for e in s.elems if e.label})) or "-")
        where = "parser/src/parser.rs:%d" % s.action.line
        if bad:
            r.finding(inst, where, "fallible action contains %s: a failed conversion panics instead of becoming a syntax error" % sorted(set(bad)))
        else:
            r.ok(inst, where)
    # conversions known to be fallible must stay in fallible actions
    MUST = {"integer": "Integer::new", "binary_integer": "try_binary", "octal_integer": "try_octal", "hex_integer": "try_hex",
            "fixed_point": "FixedPoint::parse", "real_literal": "try_parse", "daytime": "from_hms", "date_literal": "from_calendar_date",
            "direct_variable": "try_from", "signed_integer__positive": "SignedInteger::new", "signed_integer__negative": "SignedInteger::new"}
    for name, fn in sorted(MUST.items()):
        rl = g.rules.get(name)
        if not rl:
            r.finding("rule %s|missing" % name, None, "literal rule not found")
            continue
        acts = [s.action for rr, s in g.all_seqs() if rr is rl and s.action is not None]
        has = [a for a in acts if fn.split("::")[-1] in "".join(t.v for t in a.code)]
        inst = "rule %s|%s in {? }" % (name, fn)
        if has and all(a.fallible for a in has):
            r.ok(inst, "parser/src/parser.rs:%d" % rl.line)
        else:
            r.finding(inst, "parser/src/parser.rs:%d" % rl.line, "the conversion %s is not (only) used inside a fallible `{? }` action" % fn)


TRIMMERS = ("trim_matches", "trim_start_matches", "trim_end_matches", "trim", "trim_start", "trim_end", "strip_prefix", "strip_suffix",
            "replace", "replacen", "split_off", "truncate", "retain")


WRAPPING = re.compile(r"(<time::(time::Time|date::Date|primitive_date_time::PrimitiveDateTime|offset_date_time::OffsetDateTime) as core::ops::arith::(Add|Sub)(Assign)?<)|"
                      r"(::(wrapping_[a-z_]+|overflowing_[a-z_]+|rem_euclid|unchecked_[a-z_]+)$)|(core::intrinsics::(wrapping|unchecked)_)")


def rule_wrap(ctx, rep):
    """A literal that cannot be represented is rejected - so nothing on the way from token text to the DSL value may be arithmetic that
    wraps around by design: `time::Time + Duration` wraps at midnight (23:59:60 becomes 00:00:00), `wrapping_*`, `overflowing_*`.
    (Casts are R-C09-cast's subject, checked arithmetic that panics is R-C09-arith's.)"""
    r = rep.rule("R-C09-wrap", "no wrap-around arithmetic on literal paths: the grammar's literal actions and dsl::{common,time} call no `Time`/`Date` "
                               "`+`/`-` (modulo a day) and no wrapping_*/overflowing_* function", floor=100, floor_what="calls scanned on literal paths")
    n = 0
    found = 0
    for b in sorted(ctx.prog.bodies.values(), key=lambda x: x.id):
        fn = norm(b.id)
        lit = fn.startswith(("ironplc_dsl::common::", "ironplc_dsl::time::", "<ironplc_dsl::common::", "<ironplc_dsl::time::")) or \
            (fn.startswith(GRAM) and re.search(r"__parse_(duration|interval|days|hours|minutes|seconds|milliseconds|fixed_point|time_of_day|daytime|day_|date|year|month|day|"
                                               r"integer|signed_integer|binary_integer|octal_integer|hex_integer|real_literal|bit_string|boolean_literal|direct_variable|location)", fn))
        if not lit or "::test" in fn:
            continue
        cnt = {}
        for c in sorted(b.calls(), key=lambda c: (c.loc[0], c.loc[1])):
            n += 1
            cal = c.callee or c.u or ""
            if WRAPPING.search(cal):
                m = loc_macro(c.loc)
                if m and str(m[0]).startswith("Derive:"):
                    continue
                nm = cal.split("::")[-1]
                k = cnt[nm] = cnt.get(nm, 0) + 1
                found += 1
                r.finding("%s|%s#%d" % (fn.replace("ironplc_parser::parser::plc_parser::", ""), "Time/Date " + nm if "time::" in cal and "<" in cal else nm, k), loc_str(b.f, c.loc),
                          "%s wraps around instead of failing: an out-of-range component (seconds >= 60, a day count past the calendar) silently becomes another value" % cal[:90])
    if not found:
        r.ok("literal paths|no wrap-around arithmetic", None, "%d calls scanned" % n)
    r.count_override = n


def rule_trim(ctx, rep, rid="R-C09-trim"):
    r = rep.rule(rid, "inside the grammar, literal text taken from a token is never passed through a content-dependent trimming/replacing "
                               "function (trim*, strip_*, replace*, retain): such calls remove or alter characters that belong to the literal's value",
                 floor=150, floor_what="grammar functions scanned")
    from rules.c08 import derives_from_token_text
    n = 0
    # helpers of the grammar: functions of the parser crate that grammar actions call (wherever they are written); the function that turns
    # peg's ParseError into a diagnostic is not one of them (it escapes line breaks of the offending token for the message)
    from_grammar = {norm(k) for k in ctx.prog.reachable_from([x for x in ctx.prog.bodies.values() if norm(x.id).startswith(GRAM)])}
    for b in sorted(ctx.prog.bodies.values(), key=lambda x: x.id):
        fn = norm(b.id)
        helper = (not fn.startswith(GRAM)) and b.f["crate"] == "ironplc_parser" and fn in from_grammar
        if not (fn.startswith(GRAM) or helper):
            continue
        n += 1
        hits = []
        for c in b.calls():
            m = (c.callee or "").split("::")[-1]
            if m in TRIMMERS and (c.callee or "").startswith(("core::str::", "alloc::str::", "alloc::string::String::")) and c.args:
                # receiver derives from token text (directly or through chars/collect into a String)
                tainted = derives_from_token_text(b, c.args[0])
                if not tainted and helper:
                    # a helper of the grammar file working on a `&str` parameter: the grammar hands it token text
                    p = op_place(c.args[0])
                    rt = b.root(p) if p else None
                    tainted = bool(rt and 0 < rt[0] <= b.f["argc"] and "str" in b.local_ty(rt[0]))
                if not tainted and b.f["dk"] == "Closure":
                    # captured `&Token` / text: upvar rooted values
                    p = op_place(c.args[0])
                    rt = b.root(p) if p else None
                    tainted = bool(rt and rt[0] == 1)
                if tainted:
                    hits.append((m, c))
        inst = fn.replace(GRAM, "rule ")
        if hits:
            for m, c in hits:
                r.finding("%s|%s on token text" % (inst, m), loc_str(b.f, c.loc), "`%s` is applied to the text of a literal token: characters that are part of the literal's value can be removed" % m)
        else:
            r.ok(inst, "%s:%d" % (b.f["file"], b.f["line"]))


def rule_finite(ctx, rep, rid="R-C09-finite"):
    """`f64::from_str` maps a decimal beyond the largest finite number to infinity without an error.  A literal that is read this way
    denotes no infinity; it must be rejected.  Every parse of a float from literal text (FromStr::from_str / str::parse with f64 or
    f32) in the DSL and the grammar is followed, in the same function, by an `is_finite` test of the parsed value whose false edge
    does not lead to the Ok result."""
    r = rep.rule(rid, "every floating-point number parsed from literal text is tested with is_finite() before it becomes a literal value (a literal beyond the "
                      "largest number would otherwise be read as infinity)", floor=1, floor_what="float parses on literal paths")
    for b in sorted(ctx.prog.bodies.values(), key=lambda x: x.id):
        n = norm(b.id)
        lit = b.f["crate"] == "ironplc_dsl" and re.search(r"dsl/src/(common|time)\.rs$", b.f["file"]) or n.startswith(GRAM) or b.f["crate"] == "ironplc_parser"
        if not lit or "::test" in n:
            continue
        k = 0
        for c in sorted(b.calls(), key=lambda c: (c.loc[0], c.loc[1])):
            if not ((c.u or "").endswith(("FromStr::from_str", "str::parse")) and re.sub(r"\s", "", c.ga or "") in ("[f64]", "[f32]")):
                continue
            k += 1
            inst = "%s|float parse#%d" % (n.replace(GRAM, "rule ").split("ironplc_dsl::")[-1], k)
            fin = [c2 for c2 in b.calls() if (c2.callee or "").endswith("is_finite") and c.bb in b.dominators().get(c2.bb, set())]
            good = False
            for f in fin:
                si = switch_info(b, f.target) if f.target is not None else None
                if si and si["kind"] == "bool":
                    good = True
            if good:
                r.ok(inst, loc_str(b.f, c.loc), "followed by an is_finite() test")
            else:
                r.finding(inst + "|infinity-accepted", loc_str(b.f, c.loc), "the parsed value is used without an is_finite() test: `1.0E400` is accepted and read as infinity")


def rule_ideq(ctx, rep, rid="R-C09-ideq"):
    """`id_eq("W")` / `dt_sep("W")` match an *Identifier* token whose text is W.  If W is not something the lexer can ever hand out as an
    Identifier - because it does not match the Identifier pattern (`1`, `0` are Digits) - the alternative is dead: the literal form it was
    written for (`BOOL#1`) is rejected although valid.  Every word of these helpers is matched against the lexer's own Identifier regex."""
    from rules.c08 import parse_attr
    r = rep.rule(rid, "every word a grammar rule expects as an identifier token (id_eq / dt_sep) is one the lexer can produce as an Identifier (it matches the Identifier pattern): "
                      "no literal form is unreachable because its spelling lexes as another token kind", floor=20, floor_what="id_eq / dt_sep words in the grammar")
    a = ctx.facts.astattrs.get("ironplc_parser::token::TokenType")
    pat = None
    for at in a["variants"].get("Identifier", {}).get("attrs", []):
        pa = parse_attr(at)
        if pa and pa[0] == "regex":
            pat = pa[1]
    if pat is None:
        rep.error(rid, "TokenType::Identifier has no #[regex]")
        return
    try:
        rx = re.compile(pat)
    except re.error as e:
        rep.error(rid, "cannot read the Identifier pattern %r: %s" % (pat, e))
        return
    g = ctx.peg
    seen = {}

    def f(e, sq, c):
        t = g.terminal(e.prim)
        if t and t[0] in ("id_eq", "dt_sep"):
            seen.setdefault((t[0], t[1].strip('"')), (c, e.prim.line))
    for rl in g.rules.values():
        g.walk_elems(rl.expr, f, rl.name)
    for (kind, w), (rule, line) in sorted(seen.items()):
        inst = "%s(%r) in rule %s" % (kind, w, rule)
        where = "parser/src/parser.rs:%d" % line
        if rx.fullmatch(w):
            r.ok(inst, where)
        else:
            r.finding("%s(%r)|not-an-identifier" % (kind, w), where, "the lexer never produces an Identifier token with the text %r (pattern %s): this alternative of rule %s can never match, "
                      "so the form it stands for is rejected" % (w, pat, rule))


def run(ctx, rep):
    rep.not_decided += ["that accepted literals denote the right mathematical value (base conversion, underscores, unit sums, field order) - value computation, except the scale agreement decided by R-C09-scale"]
    rep.assumptions += ["python's sre parser reads the same regex subset as regex-syntax for the two address patterns (literals, classes, groups, ?, *)",
                        "FIELD_BOUNDS (femptos < 10^15) is maintained by rule R-C04-bound"]
    # preconditions of the duration constructors, established from their call sites (publishes bounds used by the rules below)
    from rules import c09_durrange
    c09_durrange.run(ctx, rep)
    rule_cast(ctx, rep)
    rule_read(ctx, rep)
    rule_sign(ctx, rep)
    rule_addr(ctx, rep)
    rule_fallible(ctx, rep)
    rule_trim(ctx, rep)
    rule_wrap(ctx, rep)
    rule_finite(ctx, rep)
    rule_ideq(ctx, rep)
    # the sign of a literal is which of the two sign tokens was written
    from rules import c01_choice
    c01_choice.run(ctx, rep, rid="R-C09-choiceid")
    from rules import c09_scale
    c09_scale.run(ctx, rep)
    from rules import c09_signed
    c09_signed.run(ctx, rep)
    from rules import c09_oneround
    c09_oneround.run(ctx, rep)
    # character strings are read character by character: nothing rewrites the raw text (inside literals too) before the lexer
    from rules.c08 import rule_prestep
    rule_prestep(ctx, rep, rid="R-C09-prestep")
    from rules import c03_errdrop
    c03_errdrop.run(ctx, rep, rid="R-C09-errdrop")
    # arithmetic/panicking constructors on literal paths are shared with C04 (R-C04-panic): report the literal subset here too
    from rules.c04 import ENTRIES, entry_bodies
    from rules.panic_triage import TRIAGE
    r = rep.rule("R-C09-arith", "no unchecked arithmetic / panicking constructor on literal conversion paths (subset of the C04 inventory inside "
                                "dsl::{common,time} and the literal grammar actions)", floor=20, floor_what="sites")
    sites, reach = panics.inventory(ctx, entry_bodies(ctx, rep, ["ironplc_parser::parse_program"]))
    for s in sorted(sites, key=lambda s: s.key or ""):
        if s.generated:
            continue
        f = s.body.f["file"]
        lit = f.endswith(("dsl/src/common.rs", "dsl/src/time.rs")) or re.search(r"__parse_(duration|daytime|date_literal|interval|days|hours|minutes|seconds|milliseconds|fixed_point|integer|real_literal)", s.key)
        if not lit:
            continue
        why = panics.auto_discharge(s)
        if why:
            r.justified(s.key, "auto: " + why, s.where)
        elif s.key in TRIAGE:
            r.justified(s.key, "invariant: " + TRIAGE[s.key], s.where)
        else:
            r.finding(s.key, s.where, "literal conversion can panic instead of rejecting the literal: %s" % s.kind)
