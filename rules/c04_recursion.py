"""R-C04-recursion: inventory of recursion.

Stack depth is bounded only if every recursion descends along something bounded by the input's nesting.  In this code base
that is true of exactly three families: the derive(Recurse)-generated tree traversals (visit_x -> X::recurse_visit -> visit_y,
fold likewise; `Located::span` of nested access paths via join2), the peg-generated recursive-descent functions (`__parse_*`, depth = nesting of the source) and the
hand-written overrides that take part in those traversals.  Every other cycle in the workspace call graph is recursion over
something else (a graph, a retry) and needs an argument; none exists today.  The rule computes the strongly connected
components of the resolved call graph over product functions and reports every cycle that is not one of the families."""
from vlib.mir import norm, loc_macro
from vlib import facts as F


def sccs(nodes, succ):
    index, low, on, st, out = {}, {}, set(), [], []
    import sys
    sys.setrecursionlimit(100000)
    counter = [0]

    def visit(v):
        index[v] = low[v] = counter[0]
        counter[0] += 1
        st.append(v)
        on.add(v)
        for w in succ.get(v, ()):
            if w not in index:
                visit(w)
                low[v] = min(low[v], low[w])
            elif w in on:
                low[v] = min(low[v], index[w])
        if low[v] == index[v]:
            comp = []
            while True:
                w = st.pop()
                on.discard(w)
                comp.append(w)
                if w == v:
                    break
            out.append(comp)
    for v in nodes:
        if v not in index:
            visit(v)
    return out


def family(ctx, fid):
    b = ctx.prog.body(fid)
    n = norm(fid)
    name = b.f["name"] if b else n.split("::")[-1]
    if " as logos::Logos<" in n and "::lex::" in n:
        return "logos"
    if "::plc_parser::__parse_" in n or "::plc_parser::" in n and b is not None and b.f["dk"] == "Closure":
        return "peg"
    if name.startswith(("visit_", "fold_")) or name in ("recurse_visit", "recurse_fold", "walk"):
        return "traversal"
    if b is not None and b.f["dk"] == "Closure":
        p = ctx.prog.body(b.f.get("parent"))
        if p is not None:
            return family(ctx, p.id)
    im = (b.f.get("impl") or {}) if b else {}
    if im.get("trait_def") == "ironplc_dsl::core::Located" or n == "ironplc_dsl::core::SourceSpan::join2":
        return "located"        # span() of a nested access path a.b[c].d: one level per selector, through join2(&dyn Located, ..)
    if im.get("trait_def") in ("core::fmt::Debug", "core::clone::Clone", "core::cmp::PartialEq", "core::fmt::Display", "core::hash::Hash", "core::cmp::PartialOrd", "core::cmp::Ord", "core::cmp::Eq"):
        return "derive"
    return None


def run(ctx, rep, rid="R-C04-recursion"):
    r = rep.rule(rid, "every recursion in product code descends the syntax tree: each cycle of the resolved call graph consists of derive-generated "
                      "traversals (visit_/fold_/recurse_*), peg-generated parse functions, derived Debug/Clone/PartialEq impls, or logos lexer states (bounded by token length); anything else is reported",
                 floor=5, floor_what="recursive components")
    nodes = [fid for fid, b in ctx.prog.bodies.items() if b.f["crate"] in F.PRODUCT and "::test" not in norm(fid)]
    ns = set(nodes)
    succ = {}
    for fid in nodes:
        b = ctx.prog.bodies[fid]
        succ[fid] = sorted({t.id for t, name, site in ctx.prog.callees_of(b) if t is not None and t.id in ns})
    n = 0
    for comp in sccs(nodes, succ):
        if len(comp) == 1 and comp[0] not in succ.get(comp[0], ()):
            continue
        n += 1
        fams = {}
        for fid in comp:
            fams.setdefault(family(ctx, fid), []).append(fid)
        other = sorted(norm(x) for x in fams.get(None, []))
        label = sorted(norm(x) for x in comp)[0]
        if not other and "logos" in fams:
            r.justified("cycle of %d: %s .." % (len(comp), label.split(">::")[-1]),
                        "logos-generated lexer states call each other once per input character (tail calls that a debug build does not eliminate): depth <= length of one "
                        "token <= input size, which the property bounds by 64 KiB (observed: a 100 KB comment is fine, a 300 KB comment overflows the 8 MB main stack in the debug build)",
                        "parser/src/token.rs")
        elif not other:
            r.ok("cycle of %d: %s .." % (len(comp), label), None, ", ".join("%s x%d" % (k, len(v)) for k, v in sorted(fams.items(), key=str)))
        else:
            for o in other:
                b = ctx.prog.get(o)[0]
                r.finding("%s|recursive" % o, "%s:%d" % (b.f["file"], b.f["line"]),
                          "takes part in a recursion (cycle of %d functions) that is not a syntax-tree traversal: its depth is not bounded by the nesting of the input "
                          "(a walk over a graph of declarations can recurse without end)" % len(comp))
    r.note("%d recursive components" % n)
