"""R-C04-recursion: inventory of recursion.

Stack depth is bounded only if every recursion descends along something bounded by the input's nesting.  In this code base
that is true of exactly three families: the derive(Recurse)-generated tree traversals (visit_x -> X::recurse_visit -> visit_y,
fold likewise; `Located::span` of nested access paths via join2), the peg-generated recursive-descent functions (`__parse_*`, depth = nesting of the source) and the
hand-written overrides that take part in those traversals.  Every other cycle in the workspace call graph is recursion over
something else (a graph, a retry) and needs an argument; none exists today.  The rule computes the strongly connected
components of the resolved call graph over product functions and reports every cycle that is not one of the families."""
import re
from vlib.mir import norm, loc_macro, loc_str, op_place
from vlib import facts as F


def sccs(nodes, succ):
    index, low, on, st, out = {}, {}, set(), [], []
    import sys
    sys.setrecursionlimit(100000)
    counter = [0]

    def visit(v):
        index[v] = low[v] = counter[0]
        counter[0] += 1
        st.append(v)
        on.add(v)
        for w in succ.get(v, ()):
            if w not in index:
                visit(w)
                low[v] = min(low[v], low[w])
            elif w in on:
                low[v] = min(low[v], index[w])
        if low[v] == index[v]:
            comp = []
            while True:
                w = st.pop()
                on.discard(w)
                comp.append(w)
                if w == v:
                    break
            out.append(comp)
    for v in nodes:
        if v not in index:
            visit(v)
    return out


def family(ctx, fid):
    b = ctx.prog.body(fid)
    n = norm(fid)
    name = b.f["name"] if b else n.split("::")[-1]
    if " as logos::Logos<" in n and "::lex::" in n:
        return "logos"
    if "::plc_parser::__parse_" in n or "::plc_parser::" in n and b is not None and b.f["dk"] == "Closure":
        return "peg"
    if name.startswith(("visit_", "fold_")) or name in ("recurse_visit", "recurse_fold", "walk"):
        return "traversal"
    if b is not None and b.f["dk"] == "Closure":
        p = ctx.prog.body(b.f.get("parent"))
        if p is not None:
            return family(ctx, p.id)
    im = (b.f.get("impl") or {}) if b else {}
    if im.get("trait_def") == "ironplc_dsl::core::Located" or n == "ironplc_dsl::core::SourceSpan::join2":
        return "located"        # span() of a nested access path a.b[c].d: one level per selector, through join2(&dyn Located, ..)
    if im.get("trait_def") in ("core::fmt::Debug", "core::clone::Clone", "core::cmp::PartialEq", "core::fmt::Display", "core::hash::Hash", "core::cmp::PartialOrd", "core::cmp::Ord", "core::cmp::Eq"):
        return "derive"
    return None


# recursive cycles of the logos-generated lexer, keyed by the token kinds they produce.  Depth = characters of one token (<= 64 KiB by the
# property's bound); whether that many frames fit the 8 MiB main stack depends on the frame size, which MIR does not give - so each
# cycle is listed with what was observed at the bound, and a cycle for any other token kind is reported.
LEXER_CYCLES = {
    frozenset({"DirectAddress"}): ("ok", "depth = components of one direct address; at the 64 KiB bound (32,500 components, `%IX1.1.1...`) the debug build does not overflow"),
    frozenset({"FixedPoint", "FloatingPoint"}): ("ok", "depth = digits of one number; a 64 KB digit string does not overflow the 8 MiB main stack in the debug build"),
    frozenset({"Digits", "FixedPoint", "FloatingPoint"}): ("ok", "depth = digits of one number; a 64 KB `1_1_1..` literal does not overflow the 8 MiB main stack in the debug build"),
    frozenset({"Comment"}): ("known", "a 40 KB comment made of `* ` pairs (or 20,000 times `(*`) aborts check/echo/tokenize with a stack overflow in the debug build; 60 KB of plain text in a comment is fine"),
}


def run(ctx, rep, rid="R-C04-recursion"):
    r = rep.rule(rid, "every recursion in product code descends the syntax tree: each cycle of the resolved call graph consists of derive-generated "
                      "traversals (visit_/fold_/recurse_*), peg-generated parse functions, derived Debug/Clone/PartialEq impls, or logos lexer states (bounded by token length); anything else is reported",
                 floor=5, floor_what="recursive components")
    nodes = [fid for fid, b in ctx.prog.bodies.items() if b.f["crate"] in F.PRODUCT and "::test" not in norm(fid)]
    ns = set(nodes)
    succ = {}
    for fid in nodes:
        b = ctx.prog.bodies[fid]
        succ[fid] = sorted({t.id for t, name, site in ctx.prog.callees_of(b) if t is not None and t.id in ns})
    n = 0
    for comp in sccs(nodes, succ):
        if len(comp) == 1 and comp[0] not in succ.get(comp[0], ()):
            continue
        n += 1
        fams = {}
        for fid in comp:
            fams.setdefault(family(ctx, fid), []).append(fid)
        other = sorted(norm(x) for x in fams.get(None, []))
        label = sorted(norm(x) for x in comp)[0]
        if not other and "logos" in fams:
            # lexer states that call each other: one stack frame (or several) per character of one token in a build without tail-call
            # elimination.  Which tokens a cycle belongs to is read off the token kinds that are produced downstream of it.
            seen_l, st_l, kinds = set(comp), list(comp), set()
            while st_l:
                f_ = st_l.pop()
                for _, _, s_ in ctx.prog.bodies[f_].all_stmts():
                    if s_[0] == "=" and s_[2][0] == "agg" and isinstance(s_[2][1], dict) and s_[2][1].get("adt", "").endswith("token::TokenType"):
                        kinds.add(s_[2][1]["variant"])
                for t_ in succ.get(f_, ()):
                    if t_ not in seen_l and family(ctx, t_) == "logos":
                        seen_l.add(t_)
                        st_l.append(t_)
            inst = "lexer cycle|%s" % ",".join(sorted(kinds))
            why = LEXER_CYCLES.get(frozenset(kinds))
            if why and why[0] == "ok":
                r.justified(inst, why[1], "parser/src/token.rs")
            else:
                r.finding(inst + "|stack per character", "parser/src/token.rs", "the generated lexer states for %s call each other once per character of the token (%d mutually recursive state functions); "
                          "a build without tail-call elimination needs one stack frame per character, so a long token of this kind overflows the stack%s" % (
                              "/".join(sorted(kinds)), len(comp), (": " + why[1]) if why else " (not measured: a new cycle)"))
        elif not other:
            r.ok("cycle of %d: %s .." % (len(comp), label), None, ", ".join("%s x%d" % (k, len(v)) for k, v in sorted(fams.items(), key=str)))
        else:
            for o in other:
                b = ctx.prog.get(o)[0]
                r.finding("%s|recursive" % o, "%s:%d" % (b.f["file"], b.f["line"]),
                          "takes part in a recursion (cycle of %d functions) that is not a syntax-tree traversal: its depth is not bounded by the nesting of the input "
                          "(a walk over a graph of declarations can recurse without end)" % len(comp))
    r.note("%d recursive components" % n)


def run_fanout(ctx, rep, rid="R-C04-fanout"):
    """Cost of a recursion = product of the fan-outs.  A function on a recursion cycle that makes the recursive call twice *on the
    same value* (same receiver / same argument root) does all the work below that value twice, and again twice one level down:
    2^depth.  (Two calls on different children - left and right operand - are ordinary tree recursion.)  The rule looks at every
    hand-written member of a recursive component (derive- and peg-generated bodies call each child once by construction)."""
    from vlib.mir import op_place
    r = rep.rule(rid, "no hand-written function on a recursion cycle repeats a recursive call on the same value (that doubles the work per level of "
                      "nesting): per function and callee of the cycle, the argument roots of the calls are pairwise different", floor=5,
                 floor_what="recursive calls in hand-written cycle members")
    nodes = [fid for fid, b in ctx.prog.bodies.items() if b.f["crate"] in F.PRODUCT and "::test" not in norm(fid)]
    ns = set(nodes)
    succ = {}
    for fid in nodes:
        b = ctx.prog.bodies[fid]
        succ[fid] = sorted({t.id for t, name, site in ctx.prog.callees_of(b) if t is not None and t.id in ns})
    n = 0
    for comp in sccs(nodes, succ):
        if len(comp) == 1 and comp[0] not in succ.get(comp[0], ()):
            continue
        cs = set(comp)
        for fid in sorted(comp):
            b = ctx.prog.bodies[fid]
            fam = family(ctx, fid)
            if fam in ("peg", "logos", "derive") or b.f.get("exp"):
                continue
            m = None
            # derive(Recurse) output is generated: skip bodies whose every call site is inside that expansion
            groups = {}
            for c in b.calls():
                tg = [t for t in (ctx.prog.get(c.callee) if c.callee else [])]
                if c.rk in ("virtual", "unresolved"):
                    tg += list(ctx.prog.impls.get(c.u, []))
                if not any(t.id in cs for t in tg):
                    continue
                mm = loc_macro(c.loc)
                if mm and str(mm[0]).startswith("Derive:"):
                    continue
                n += 1
                roots = []
                for a in c.args:
                    p = op_place(a)
                    rt = b.root(p) if p is not None else None
                    roots.append((rt[0], tuple(x[2] if isinstance(x, list) and x[0] == "f" else str(x) for x in rt[1])) if rt else ("const", str(a[2])[:30]))
                key = ((c.u or c.callee), tuple(roots) if roots else None)
                groups.setdefault(key, []).append(c)
            for (callee, root), cl in sorted(groups.items(), key=str):
                inst = "%s|%s" % (norm(fid), (callee or "?").split("::")[-1])
                if root is not None and len(cl) > 1:
                    # only a problem when both calls can happen in one invocation: neither dominates... any two on one path
                    dom = b.dominators()
                    both = any(a.bb in dom.get(z.bb, set()) or z.bb in dom.get(a.bb, set()) or a.bb == z.bb for i, a in enumerate(cl) for z in cl[i + 1:])
                    if both:
                        r.finding(inst + "|called %dx on the same value" % len(cl), "%s:%d" % (b.f["file"], cl[0].loc[0]),
                                  "%s() is part of a recursion and is called %d times on the same argument (lines %s): the work doubles with every level "
                                  "of nesting (exponential time on a chain of selectors / operators)" % ((callee or "?").split("::")[-1], len(cl), ", ".join(str(c.loc[0]) for c in cl)))
                        continue
                r.ok(inst + ("#%s" % ("/".join(str(x[1][-1]) if isinstance(x[1], tuple) and x[1] else str(x[0]) for x in root) if root else "")), "%s:%d" % (b.f["file"], cl[0].loc[0]))
    r.note("%d recursive calls in hand-written members of recursive components" % n)


def run_depth(ctx, rep, rid="R-C04-depth"):
    """The recursion inventory calls a syntax-tree traversal bounded when the tree's depth is bounded by the nesting of the source.
    Two constructs of the parser turn a *flat repetition* into *nesting* instead: the infix levels of `precedence!{}` (one node per
    operator, left-deep) and action loops that wrap the value built so far into a Box on every iteration (`a.b.c[..]`).  For those
    the depth of the tree - and of every recursive traversal, fold and renderer over it - is the length of one expression, which
    only the input size bounds."""
    from vlib.mir import op_place
    from rules.c04_progress import natural_loops
    r = rep.rule(rid, "the depth of the syntax tree is bounded by source nesting: no grammar construct turns a flat repetition into nesting "
                      "(precedence! infix levels, action loops boxing the value built so far)", floor=2, floor_what="depth generators examined")
    g = ctx.peg
    # (a) precedence! blocks
    def walk(rule, expr):
        for sq in expr.alts:
            for e in sq.elems:
                for pr in (e.prim, e.sep):
                    if pr is None:
                        continue
                    if pr.kind == "prec":
                        infix = 0
                        for lvl in pr.levels:
                            for alt in lvl:
                                ats = [x for x in alt.elems if x.prim.kind == "at"]
                                if len(ats) >= 2:
                                    infix += 1
                        if infix:
                            r.finding("rule %s|precedence! infix x%d|depth = operators in a chain" % (rule.name, infix), "parser/src/parser.rs:%d" % rule.line,
                                      "every infix operator of a flat chain `a + a + a ..` adds one level to the expression tree: all recursive traversals "
                                      "(file-id fold, rules, renderer) descend once per operator; a 500-term sum (2 KB) overflows the 8 MB stack of the debug "
                                      "build in check and echo (abort, exit 134)")
                        else:
                            r.ok("rule %s|precedence! without infix levels" % rule.name, "parser/src/parser.rs:%d" % rule.line)
                    elif pr.kind == "group":
                        walk(rule, pr.expr)
    for name, rule in sorted(g.rules.items()):
        walk(rule, rule.expr)
    # (b) action loops that box the accumulated value
    for b in sorted(ctx.prog.bodies.values(), key=lambda x: x.id):
        if b.f["crate"] != "ironplc_parser" or "::plc_parser::" not in norm(b.id):
            continue
        for h, body in sorted(natural_loops(b).items()):
            boxed = {}
            for x in body:
                if b.term(x)[0] == "call":
                    c = b.call_at(x)
                    if (c.callee or "").endswith("Box::<T>::new") or (c.callee or "").endswith("boxed::Box::new"):
                        p = op_place(c.args[0]) if c.args else None
                        if p is not None:
                            boxed[b.root(p)[0]] = c
            for l, c in sorted(boxed.items()):
                written = any(s[0] == "=" and s[1] == [l, []] for x in body for s in b.bbs[x]["s"])
                if written and b.local_name(l):
                    m = re.search(r"__parse_([A-Za-z0-9_]+)", norm(b.id))
                    r.finding("rule %s|loop boxes `%s`|depth = repetitions" % (m.group(1) if m else norm(b.id), b.local_name(l)), loc_str(b.f, c.loc),
                              "each element of the repetition wraps the value built so far in a Box: `x.a.a.a ..` nests once per selector; 3000 selectors (6 KB) "
                              "overflow the stack of the debug build in check (abort, exit 134)")


def run_threads(ctx, rep, rid="R-C04-threads"):
    """The stack budget of this code base is the main thread's: all the recursive traversals were written (and are only ever exercised)
    there.  A spawned thread gets Rust's default 2 MiB instead of the main thread's 8 MiB, so moving parsing or analysis onto a worker
    thread quarters the expression length that can be handled before the process aborts.  Product code spawns no threads today."""
    r = rep.rule(rid, "no product code runs parsing/analysis on a spawned thread (std::thread::spawn / scope / Builder): the recursive traversals have "
                      "only the main thread's stack to count on", floor=1000, floor_what="calls scanned in product code")
    n = 0
    found = 0
    for b in sorted(ctx.prog.bodies.values(), key=lambda x: x.id):
        if b.f["crate"] not in F.PRODUCT or "::test" in norm(b.id):
            continue
        k = 0
        for c in sorted(b.calls(), key=lambda c: (c.loc[0], c.loc[1])):
            n += 1
            cal = c.callee or c.u or ""
            if re.search(r"std::thread::(spawn|scope|Builder|scoped::Scope|scoped::scope)|rayon::|crossbeam_utils::thread|tokio::(spawn|task)", cal):
                k += 1
                found += 1
                r.finding("%s|%s#%d" % (norm(b.id), cal.split("::")[-1], k), loc_str(b.f, c.loc),
                          "%s: work is moved to a thread with the default 2 MiB stack; the recursive traversals (one frame group per operator of a chain) abort "
                          "at a quarter of the length they survive on the main thread" % cal[:80])
    if not found:
        r.ok("product code|no thread is spawned", None, "%d calls scanned" % n)
    r.count_override = n


PRODUCT_CRATES = ("ironplc_dsl", "ironplc_parser", "ironplc_analyzer", "ironplc_plc2plc", "ironplcc", "ironplc_problems")


def run_fmtself(ctx, rep, rid="R-C04-fmtself"):
    """`write!(f, "{}", self)` inside `impl Display for T` calls the very function it is in (through the formatting machinery, so the
    call graph does not show it): unbounded recursion, stack overflow.  For every Display/Debug impl of a workspace type, the rule finds
    formatting arguments of the impl's own type that alias `self` (not a field or child of it) and use the impl's own trait - or a
    trait whose impl for the same type formats `self` back with the first one."""
    from vlib.mir import rvalue_operands
    r = rep.rule(rid, "no Display/Debug implementation formats `self` with itself (directly, or through the other of the two implementations and back)",
                 floor=10, floor_what="hand-written fmt implementations")
    KIND = {"core::fmt::Display": "new_display", "core::fmt::Debug": "new_debug"}
    edges = {}      # (type, trait) -> set of (type, trait) reached with self
    sites = {}
    n = 0
    for b in sorted(ctx.prog.bodies.values(), key=lambda x: x.id):
        im = b.f.get("impl") or {}
        if b.f["name"] != "fmt" or im.get("trait_def") not in KIND or b.f["crate"] not in PRODUCT_CRATES:
            continue
        if any((loc_macro(st[3]) or ("",))[0].startswith("Derive:") for _, _, st in list(b.all_stmts())[:3] if len(st) > 3):
            continue
        T = re.sub(r"<.*", "", im.get("self") or "")
        n += 1
        # locals that are (references to) self
        alias = {1}
        tup = {}
        grew = True
        while grew:
            grew = False
            for i, j, st in b.all_stmts():
                if st[0] != "=" or st[1][1]:
                    continue
                d, rv = st[1][0], st[2]
                src = None
                if rv[0] == "ref":
                    src = rv[2]
                elif rv[0] == "use":
                    src = op_place(rv[1])
                elif rv[0] == "agg" and rv[1].get("k") == "tuple":
                    for k, o in enumerate(rv[2]):
                        p = op_place(o)
                        if p is not None and p[0] in alias and all(x == "*" for x in p[1]) and (d, k) not in tup:
                            tup[(d, k)] = True
                            grew = True
                    continue
                if src is None or d in alias:
                    continue
                fs = [x for x in src[1] if isinstance(x, list) and x[0] == "f"]
                if src[0] in alias and not fs:
                    alias.add(d)
                    grew = True
                elif len(fs) == 1 and fs[0][3] == "(tuple)" and (src[0], int(fs[0][2])) in tup:
                    alias.add(d)
                    grew = True
        for c in b.calls():
            m = (c.callee or "").split("::")[-1]
            if not (c.callee or "").startswith("core::fmt::rt::Argument") or m not in ("new_display", "new_debug"):
                continue
            ga = re.sub(r"'\{erased\},?\s*|&'\{erased\}\s*|&", "", (c.ga or "").strip("[]")).strip().strip(",").strip()
            ga = re.sub(r"<.*", "", ga)
            ap = op_place(c.args[0]) if c.args else None
            if ga == T and ap is not None and ap[0] in alias:
                tr = "core::fmt::Display" if m == "new_display" else "core::fmt::Debug"
                edges.setdefault((T, im["trait_def"]), set()).add((T, tr))
                sites[((T, im["trait_def"]), (T, tr))] = (b, c)
    bad = set()
    for a, outs in edges.items():
        for o in outs:
            if o == a or a in edges.get(o, set()):
                bad.add((a, o))
    for (a, o) in sorted(bad):
        b, c = sites[(a, o)]
        r.finding("%s as %s|formats self with %s" % (a[0].split("::")[-1], a[1].split("::")[-1], o[1].split("::")[-1]), loc_str(b.f, c.loc),
                  "`%s for %s` formats `self` with `{%s}`, which is %s: the call never returns and the stack overflows as soon as a value of this type is formatted" % (
                      a[1].split("::")[-1], a[0].split("::")[-1], "" if o[1].endswith("Display") else ":?", "this very function" if a == o else "an implementation that formats self back with this one"))
    r.count_override = max(n, 1)
    r.note("%d hand-written Display/Debug implementations examined" % n)
