"""R-C01-choiceid: which alternative matched must not be forgotten.

A labelled group `x:(tok(A) / tok(B))` (optionally `?`) whose alternatives are different bare tokens yields the matched token.
The tree is faithful only if the action distinguishes the alternatives: an action that uses the label solely through
`is_some()` / `is_none()` (or not as a value at all) maps different source texts (`+5`, `-5`) to one tree.  Alternatives that
carry their own action (`tok(A) { X } / tok(B) { Y }`) have already been told apart and are fine."""
import re


def bare_token_alts(group):
    """the terminal names of a group whose every alternative is one bare terminal call without an action, else None"""
    ex = group.expr
    alts = getattr(ex, "alts", None)
    if not alts or len(alts) < 2:
        return None
    names = []
    for s in alts:
        els = [e for e in s.elems if not (e.prim.kind == "call" and e.prim.name == "_")]
        if s.action is not None or len(els) != 1 or els[0].prim.kind != "call" or els[0].rep or els[0].look:
            return None
        p = els[0].prim
        arg = ",".join(a[1] for a in p.args if a[0] == "rust")
        names.append("%s(%s)" % (p.name, arg))
    return names if len(set(names)) == len(names) else None


def run(ctx, rep, rid="R-C01-choiceid", only=None):
    r = rep.rule(rid, "a labelled choice of different bare tokens is used by its action as a value (which token matched), not only through is_some()/is_none()",
                 floor=0, floor_what="labelled token choices")
    g = ctx.peg
    n = 0
    for rule, seq in g.all_seqs():
        for e in seq.elems:
            if not e.label or e.prim.kind != "group":
                continue
            names = bare_token_alts(e.prim)
            if not names or (only and not only(rule)):
                continue
            n += 1
            inst = "rule %s|%s:(%s)" % (rule.name, e.label, " / ".join(names))
            where = "%s:%d" % (g.file, e.line)
            code = " ".join(t.v for t in seq.action.code) if seq.action is not None else ""
            uses = [m.end() for m in re.finditer(r"(?<![A-Za-z0-9_.])%s\b" % re.escape(e.label), code)]
            if not uses:
                r.finding(inst + "|unused", where, "the matched alternative is captured and never used: %s give one tree" % " and ".join(names))
                continue
            def presence_only(u):
                if re.match(r"\s*\.\s*(is_some|is_none)\s*\(", code[u:]):
                    return True
                # `match x { Some(name) => .. }` / `if let Some(name) = x`: a use of the value only if `name` is used
                before = code[:u - len(e.label)]
                m1 = re.search(r"(match)\s*$", before)
                m2 = re.search(r"(?:if|while)\s+let\s+Some\s*\(\s*(\w+)\s*\)\s*=\s*$", before)
                names = []
                if m1:
                    names = re.findall(r"Some\s*\(\s*(\w+)\s*\)\s*=>", code[u:])
                    if not names:
                        return False
                elif m2:
                    names = [m2.group(1)]
                else:
                    return False
                for nm in names:
                    if nm != "_" and len(re.findall(r"(?<![A-Za-z0-9_.])%s\b" % re.escape(nm), code)) > 1:
                        return False
                return True
            # which token matched is in the token's kind (or its text); its position says nothing about it.  The names under which the action
            # can look at the token: the label, what `Some(name)` binds when the label is matched, and the parameter of a closure handed to a
            # method of the label (`sign.map_or_else(|| .., |sign| ..)`)
            aliases = {e.label}
            for m_ in re.finditer(r"(?<![A-Za-z0-9_.])%s\b((?:\s*\.\s*(?:as_ref|as_mut|clone|iter|into_iter)\s*\(\s*\))*)\s*\.\s*\w+\s*\(" % re.escape(e.label), code):
                tail = code[m_.end():m_.end() + 400]
                aliases |= set(re.findall(r"\|\s*&?\s*(?:mut\s+)?(\w+)\s*\|", tail[:200]))
            for m_ in re.finditer(r"(?:match\s+&?\s*%s\b[^{]*\{|if\s+let\s+Some\s*\(\s*(\w+)\s*\)\s*=\s*&?\s*%s\b)" % (re.escape(e.label), re.escape(e.label)), code):
                if m_.group(1):
                    aliases.add(m_.group(1))
                else:
                    aliases |= set(re.findall(r"Some\s*\(\s*(?:ref\s+)?(\w+)\s*\)\s*=>", code[m_.end():]))
            aliases.discard("_")
            reveals = False
            for al in aliases:
                for m_ in re.finditer(r"(?<![A-Za-z0-9_.])%s\b" % re.escape(al), code):
                    after = code[m_.end():]
                    before = code[:m_.start()].rstrip()
                    if re.match(r"\s*\.\s*(token_type|text)\b", after):
                        reveals = True
                    elif before.endswith(("(", ",", "&", "=>")) and re.match(r"\s*[,)]", after) and not re.search(r"Some\s*\($", before) and not before.endswith("|"):
                        reveals = True      # handed on whole: the callee can look
            only_presence = all(presence_only(u) for u in uses) or not reveals
            if only_presence:
                r.finding(inst + "|presence-only", where, "the action only asks whether `%s` matched (is_some/is_none) or where it stands (its span), never which alternative it is (token_type / text): %s are read as the same thing" % (e.label, " and ".join(names)))
            else:
                r.ok(inst, where, "the token's kind or text is looked at")
    if not n:
        r.count_override = 1
        r.note("no labelled choice of bare tokens in the grammar today (alternatives carry their own actions); positive example: seeded/C01-J")
